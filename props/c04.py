"""C04 - NFC-DEP delivers each payload exactly once, intact, or reports failure.

A real nfc.dep.Initiator and a real nfc.dep.Target are activated against each
other through two ContactlessFrontends on SimAir (vlib/deppair.py), one
virtual thread per side.  An application pair then exchanges a generated list
of request / response payloads while a fault script loses or corrupts frames
that follow activation (slot 0 = the first DEP_REQ on the air).

legs
  single   bounded-exhaustive: a fixed + seeded configuration list x the
           fault-free run and every single fault in {lose, corrupt} among the
           first N <= 24 frame slots of the configuration's fault-free run
  pairs    (thorough) the same configurations x every pair of faults
  pairs-sample (quick) 160 seeded pairs per configuration
  random   Hypothesis: configurations x payload size lists x sparse scripts
           (0..4 faults anywhere) and dense scripts (5-40 % of the slots)
  clean    Hypothesis: fault-free conversations over the whole configuration
           space (framing, LR, chaining in both directions, PNI wrap)

oracles (DESIGN C04)
  (b) unexpected-exception / no-termination
  (a) delivery: what Target.exchange() returned is a prefix of the requests,
      what Initiator.exchange() returned is a prefix of the responses
  (d) frame-exceeds-lr: transport data of every DEP frame <= LR of its
      receiver (and LEN <= 255, LEN byte consistent)
  (c) transparency: when every protocol step on the wire log holds at most
      one faulted frame nobody sees an exception and both lists arrive
      completely
"""
import itertools
import random as _random

from hypothesis import strategies as st

from vlib import deppair as dp
from vlib import udpair
from vlib import vsched
from vlib.engine import Leg, Violation, derive_seed, unexpected, twin_env

PROPERTY = "C04"
LEVEL = "fault_enumeration"
ASSUMPTIONS = [
    "SimAir models the medium at payload level: 'corrupt' = the receiving "
    "driver raises TransmissionError (CRC), 'lose' = silence until the "
    "virtual timeout; passive communication mode only",
    "the target side answers in zero virtual time; exchange timeouts are "
    "generous multiples of the announced response waiting time, so timeouts "
    "only ever expire because of faults",
    "faults are applied to the frames after activation (first DEP_REQ "
    "onwards, including DSL/RLS); ATR/PSL frames are always delivered",
    "a protocol step = the frames from an initiator INF/I++/ACK with a new "
    "PNI up to the next one (independent reading of the wire log)",
    "Initiator.activate(acm=False); DID 1..14 or absent; the Target never "
    "sends NAD",
]

# development aid: failure classes ("oracle|cls|exc") to look past while a
# confirmed defect is still in the tree.  MUST be empty in the final module.
EXCLUDE_CLASSES = set()

NMAX = 24


def setup():
    vsched.patch_nfc()


# ------------------------------------------------------------------ model
def true_miu(cfg, direction):
    """information bytes per frame that fit the receiver's LR"""
    did = cfg.get("did") is not None
    if direction == "q":        # initiator -> target, target announced lrt
        return dp.LR[cfg["lrt"]] - 3 - did - (cfg.get("nad") is not None)
    return dp.LR[cfg["lri"]] - 3 - did


def materialise(case):
    cfg = case["cfg"]
    fill = cfg.get("fill", "shake")
    out = []
    for d, key in (("q", "req"), ("r", "res")):
        m = true_miu(cfg, d)
        sizes = [max(1, mult * m + delta) for mult, delta in case[key]]
        out.append([dp.payload(d, k, n, fill) for k, n in enumerate(sizes)])
    script = {}
    for slot, kind in case["script"]:
        script.setdefault(int(slot), kind)
    return cfg, out[0], out[1], script


def cfg_class(cfg):
    return "did" if cfg.get("did") is not None else "nodid"


class Excluded(Exception):
    pass


def flag(ctx, cls, v):
    """raise the violation under its class, or skip the case when the class
    is switched off for development"""
    ctx.set_class(cls)
    key = "%s|%s|%s" % (v.oracle, cls, v.exc or "")
    if key in EXCLUDE_CLASSES:
        ctx.label("excluded-class:" + key)
        raise Excluded()
    raise v


def fault_class(base, step):
    """class label of a step that should have been recovered"""
    if not step or not step["faults"]:
        return base + "/nofault"
    f = step["faults"][0]
    attention = f["fate"] == "lose" or f["dir"] == "I>T"
    if base == "did" and attention:
        return "did/atn"
    return "%s/%s" % (base, dp.describe(f))


# ----------------------------------------------------------------- oracle
def judge(case, ctx, clean=False, medium=None):
    cfg, reqs, ress, script = materialise(case)
    base = cfg_class(cfg)
    ctx.set_class(base)
    r = dp.converse(cfg, reqs, ress, script, medium=medium)
    frames = r.frames
    steps = dp.steps(frames)
    faulted = [f for f in frames if f["fate"] != "deliver"]
    dep_steps = [s for s in steps if not s["release"]]
    # a fault inside a step that carries a timeout extension is outside the
    # claim: the NFC-DEP rules make an RTOX answer to NACK / ATN a protocol
    # error, so such a step cannot be repaired by retransmission
    tox_faulted = [s for s in dep_steps
                   if any(f["kind"] == "TOX" for f in s["faults"])]
    claim = all(len(s["faults"]) <= 1 for s in dep_steps) and not tox_faulted

    ctx.label("brs=%d" % cfg["brs"], "start=" + cfg.get("start", "106A"),
              base, "nad" if cfg.get("nad") is not None else "nonad",
              "faults=%d" % min(len(faulted), 5))
    for f in faulted:
        ctx.label("fault:" + dp.describe(f))
    ntox = len([f for f in frames if f["kind"] == "TOX" and f["dir"] == "T>I"])
    if ntox:
        ctx.label("rtox-requests=%d" % min(ntox, 4))
    if tox_faulted:
        ctx.label("fault-in-rtox-step")
    nt = False
    for i, s in enumerate(dep_steps):
        for f in s["faults"]:
            if f["kind"] in ("I++", "ACK", "ATN", "NAK") or i >= 4:
                nt = True
    if clean:
        nt = len(dep_steps) >= 5 and any(f["kind"] == "I++" for f in frames)
    if nt:
        ctx.nontrivial()
    ctx.note({"steps": len(dep_steps), "frames": len(frames),
              "i_got": len(r.i_got), "t_got": len(r.t_got),
              "i_err": repr(r.i_err[1]) if r.i_err else None,
              "t_err": repr(r.t_err[1]) if r.t_err else None,
              "claim": claim, "vtime": round(r.vtime, 3),
              # real udp driver: the longest datagram taken from a socket
              "largest_datagram": getattr(r.air, "largest", None),
              "wire": " ".join("%s%s%s" % (
                  ">" if f["dir"] == "I>T" else "<", f["kind"],
                  {"deliver": "", "lose": "!L", "corrupt": "!C"}[f["fate"]])
                  for f in frames[:60])})
    last = dep_steps[-1] if dep_steps else None

    try:
        # (b) only CommunicationError may come out of exchange()
        for side, exc in (("initiator", r.i_exc), ("target", r.t_exc)):
            if exc is not None:
                # the first DEP_REQ is still received by the driver's listen:
                # an exception before Target.activate() returned has its own
                # class
                cls = base if side == "initiator" or r.t_act is not None \
                    else "target-activate"
                flag(ctx, cls, unexpected(
                    exc, detail="%s thread, %d faults" % (side,
                                                          len(faulted))))
        if r.timed_out:
            flag(ctx, base, Violation(
                "no-termination", "conversation still running after %.0f s "
                "virtual time; busy loop %r; deadlock report %r; initiator "
                "done %r, target done %r" % (r.vtime, r.budget, r.deadlock,
                                             r.i_done, r.t_done)))
        # the target is activated by the first DEP_REQ it hears (drivers
        # hand it out from listen); ATR/PSL are never faulted
        heard = any(f["dir"] == "I>T" and f["code"] == "DEP"
                    and f["fate"] == "deliver" for f in frames)
        if r.i_act is None or (r.t_act is None and heard):
            flag(ctx, base, Violation(
                "activation-failed", "initiator %r target %r (no fault was "
                "applied to ATR/PSL, a DEP_REQ reached the target: %r)"
                % (r.i_act, r.t_act, heard)))
        if r.t_act is None:
            ctx.label("target-never-heard-dep-req")

        # (a) exactly once, in order, intact
        for side, got, sent in (("target", r.t_got, reqs),
                                ("initiator", r.i_got, ress)):
            if got != sent[:len(got)]:
                k = next(i for i in range(len(got))
                         if i >= len(sent) or got[i] != sent[i])
                want = sent[k] if k < len(sent) else None
                what = "extra payload" if want is None else (
                    "duplicate of #%d" % sent.index(got[k])
                    if got[k] in sent else
                    "truncated" if want.startswith(got[k]) else "foreign data")
                flag(ctx, base, Violation(
                    "delivery", "%s exchange() #%d returned %d bytes (%s), "
                    "sent were %s bytes" % (side, k, len(got[k]), what,
                                            None if want is None
                                            else len(want))))

        # (d) every frame fits the LR announced by its receiver
        for f in frames:
            if f["code"] != "DEP":
                continue
            lr = dp.LR[cfg["lrt"] if f["dir"] == "I>T" else cfg["lri"]]
            if not f["ok"] or f["len"] > 255 or f["tlen"] > lr:
                flag(ctx, "%s/%s" % (base, f["dir"]), Violation(
                    "frame-exceeds-lr", "slot %d %s %s: LEN byte %r, %d "
                    "transport data bytes, receiver announced LR %d"
                    % (f["slot"], f["dir"], f["kind"], f["len"], f["tlen"],
                       lr)))

        # (c) transparency
        complete = r.i_got == ress and r.t_got == reqs
        t_err = r.t_err is not None and not r.t_final_call
        t_none = r.t_end in ("none", "rtox-none") and not r.t_final_call
        for idx, v, got in r.rtox:
            # under faults an earlier confirmation may be repeated; only a
            # fault-free conversation pins the value
            if got is not None and got != v and not faulted:
                flag(ctx, base, Violation(
                    "rtox-value", "timeout extension %d requested for "
                    "response %d, send_timeout_extension() returned %r"
                    % (v, idx, got)))
        if complete and not r.i_err and not t_err:
            ctx.label("outcome:complete")
        else:
            ctx.label("outcome:i=%s,t=%s" % (
                type(r.i_err[1]).__name__ if r.i_err else "ok",
                type(r.t_err[1]).__name__ if r.t_err else r.t_end or "ok"))
        if claim:
            ctx.label("transparency-claimed")
            if r.i_err or t_err or t_none or not complete:
                # the step in which the conversation stopped
                cls = fault_class(base, last)
                e = r.i_err[1] if r.i_err else (
                    r.t_err[1] if r.t_err else None)
                detail = ("every protocol step had <= 1 fault, yet initiator "
                          "%s after %d/%d responses, target %s after %d/%d "
                          "requests; last step: %s" % (
                              "raised %r" % (r.i_err[1],) if r.i_err
                              else "finished", len(r.i_got), len(ress),
                              "raised %r" % (r.t_err[1],) if r.t_err
                              else "ended with %s" % r.t_end, len(r.t_got),
                              len(reqs),
                              " ".join("%s:%s:%s/%s" % (
                                  f["dir"], f["kind"], f["pni"], f["fate"])
                                  for f in (last["frames"] if last else []))))
                v = Violation("transparency", detail)
                if e is not None:
                    v.exc, v.frame = dp.nfc_frame(e)
                flag(ctx, cls, v)
    except Excluded:
        return


def run(case, ctx):
    judge(case, ctx)


def run_clean(case, ctx):
    judge(case, ctx, clean=True)


# ------------------------------------------------------------- generators
def st_cfg():
    return st.fixed_dictionaries({
        "brs": st.integers(0, 2),
        "start": st.sampled_from(["106A", "106A", "106A", "212F", "424F"]),
        "lri": st.integers(0, 3),
        "lrt": st.integers(0, 3),
        "rwt": st.one_of(st.integers(0, 14), st.sampled_from([0, 8, 14])),
        "did": st.one_of(st.none(), st.none(), st.none(),
                         st.integers(1, 14)),
        "nad": st.one_of(st.none(), st.none(), st.none(),
                         st.integers(0, 255)),
        "gbi": st.one_of(st.just(b""), st.binary(max_size=48)),
        "gbt": st.one_of(st.just(b""), st.binary(max_size=47)),
        "seed": st.integers(0, 0xFFFF),
        "release": st.booleans(),
        "fill": st.one_of(st.just("shake"), st.just("shake"),
                          st.sampled_from([0xF0, 0xD4, 0xD5, 0x00, 0xFF])),
        # response timeout extensions the target application asks for before
        # it answers: [response index, RTOX value], up to 3 for one response
        "rtox": st.one_of(st.just([]), st.just([]), st.lists(st.tuples(
            st.integers(0, 8), st.sampled_from([1, 1, 2, 7, 59])),
            min_size=1, max_size=3).map(sorted)),
    })


def st_size():
    """[mult, delta] -> mult * miu + delta bytes (miu of that direction)"""
    edge = st.sampled_from([[0, 1], [1, -1], [1, 0], [1, 1], [2, 0], [2, 1],
                            [3, -1], [0, 2], [2, -1], [3, 0]])
    return st.one_of(edge, edge, edge,
                     st.tuples(st.just(0), st.integers(1, 1500)),
                     st.tuples(st.just(0), st.integers(1, 300)))


@st.composite
def st_sizes(draw):
    n = draw(st.one_of(st.integers(5, 9), st.integers(1, 12)))
    req = draw(st.lists(st_size(), min_size=n, max_size=n))
    res = draw(st.lists(st_size(), min_size=n, max_size=n))
    return req, res


@st.composite
def st_script(draw):
    if draw(st.booleans()):
        # sparse: a few faults, mostly early (every conversation has >= 2
        # DEP frames, most have 10..40)
        slot = st.one_of(st.integers(0, 11), st.integers(0, 30),
                         st.integers(0, 70))
        pairs = draw(st.lists(st.tuples(
            slot, st.sampled_from(["lose", "corrupt"])),
            min_size=1, max_size=4, unique_by=lambda p: p[0]))
        return sorted(pairs)
    p = draw(st.integers(5, 40))
    vals = draw(st.lists(st.integers(0, 199), min_size=12, max_size=100))
    return [[i, "corrupt" if v % 2 else "lose"]
            for i, v in enumerate(vals) if v // 2 >= 100 - p]


@st.composite
def st_case(draw, faults=True):
    cfg = draw(st_cfg())
    req, res = draw(st_sizes())
    script = draw(st_script()) if faults else []
    return {"cfg": cfg, "req": req, "res": res, "script": script}


# --------------------------------------------------------- enumeration leg
FIXED = [
    # (cfg overrides, request sizes, response sizes): chaining both ways,
    # PNI wrap inside the first slots, 106A start byte and 212F/424F framing
    ({}, [[2, 1], [0, 1], [1, 0], [1, 1], [0, 1]],
         [[0, 1], [2, 1], [1, 0], [0, 1], [1, 1]]),
    ({"lri": 0, "lrt": 0, "brs": 0}, [[0, 1]] * 6, [[0, 1]] * 6),
    ({"lri": 1, "lrt": 2, "brs": 1}, [[3, -1], [0, 5], [0, 5], [2, 0], [0, 1]],
     [[0, 7], [3, -1], [0, 5], [0, 1], [2, 0]]),
    ({"lri": 3, "lrt": 3, "brs": 2, "nad": 7},
     [[0, 300], [0, 300], [0, 300], [0, 1], [0, 1]],
     [[0, 300], [0, 300], [0, 300], [0, 1], [0, 1]]),
    ({"lri": 2, "lrt": 0, "start": "212F", "brs": 2, "rwt": 14},
     [[1, 1], [1, 1], [1, 1], [1, 1], [1, 1]],
     [[1, 1], [1, 1], [1, 1], [1, 1], [1, 1]]),
    ({"lri": 0, "lrt": 3, "start": "424F", "brs": 0, "rwt": 0},
     [[0, 1], [0, 2], [0, 3], [0, 4], [0, 5], [0, 6]],
     [[4, 0], [0, 1], [0, 1], [0, 1], [0, 1], [0, 1]]),
    ({"did": 5, "lri": 0, "lrt": 0}, [[0, 1]] * 5, [[0, 1]] * 5),
    ({"did": 14, "nad": 0, "lri": 1, "lrt": 1},
     [[2, 0], [0, 1], [0, 1], [0, 1], [0, 1]],
     [[0, 1], [0, 1], [0, 1], [0, 1], [0, 1]]),
    # the target application asks for more time before responses 0, 1 (two
    # requests) and 3 (a chained response)
    ({"rtox": [[0, 1], [1, 2], [1, 59], [3, 7]]},
     [[0, 1], [2, 1], [0, 1], [0, 1], [0, 1]],
     [[0, 1], [0, 1], [0, 1], [2, 1], [0, 1]]),
    ({"rtox": [[0, 3], [2, 1]], "did": 3, "lri": 0, "lrt": 0,
      "start": "212F"},
     [[0, 1], [0, 1], [1, 1], [0, 1]], [[1, 1], [0, 1], [0, 1], [0, 1]]),
]

DEFAULT_CFG = {"rtox": [], "brs": 0, "start": "106A", "lri": 1, "lrt": 1, "rwt": 8,
               "did": None, "nad": None, "gbi": b"", "gbt": b"", "seed": 0,
               "release": True, "fill": "shake"}


def enum_configs(tier, seed):
    rng = _random.Random(derive_seed(seed, PROPERTY, "enum"))
    out = []
    for over, req, res in FIXED:
        cfg = dict(DEFAULT_CFG)
        cfg.update(over)
        out.append({"cfg": cfg, "req": [list(x) for x in req],
                    "res": [list(x) for x in res]})
    total = 40 if tier == "quick" else 300
    edges = [[0, 1], [1, -1], [1, 0], [1, 1], [2, 0], [2, 1], [3, -1]]
    while len(out) < total:
        cfg = dict(DEFAULT_CFG)
        cfg.update(brs=rng.randrange(3),
                   start=rng.choice(["106A", "106A", "106A", "212F", "424F"]),
                   lri=rng.randrange(4), lrt=rng.randrange(4),
                   rwt=rng.choice([0, 3, 8, 8, 11, 14]),
                   did=rng.choice([None, None, None, None,
                                   rng.randrange(1, 15)]),
                   nad=rng.choice([None, None, None, rng.randrange(256)]),
                   gbi=bytes(rng.randrange(256)
                             for _ in range(rng.choice([0, 0, 20, 48]))),
                   gbt=bytes(rng.randrange(256)
                             for _ in range(rng.choice([0, 0, 20, 47]))),
                   seed=rng.randrange(0x10000),
                   release=rng.random() < 0.7)
        n = rng.randrange(5, 8)

        def size():
            if rng.random() < 0.7:
                return list(rng.choice(edges))
            return [0, rng.choice([1, 2, 30, 200, 300, 700])]
        out.append({"cfg": cfg, "req": [size() for _ in range(n)],
                    "res": [size() for _ in range(n)]})
        if rng.random() < 0.3:
            cfg["rtox"] = sorted([rng.randrange(0, 3),
                                  rng.choice([1, 2, 59])]
                                 for _ in range(rng.choice([1, 1, 2, 3])))
    return out, rng


def config_slots(tier, seed):
    """[(configuration, number of enumerated frame slots)]"""
    configs, _ = enum_configs(tier, seed)
    out = []
    for c in configs:
        cfg, reqs, ress, _ = materialise(dict(c, script=[]))
        r = dp.converse(cfg, reqs, ress, {})
        out.append((c, min(NMAX, len([f for f in r.frames
                                      if f["code"] == "DEP"]))))
    return out


KINDS = ("lose", "corrupt")


def enum_single(tier, seed):
    for c, n in config_slots(tier, seed):
        yield dict(c, script=[])
        for i in range(n):
            for k in KINDS:
                yield dict(c, script=[[i, k]])


def all_pairs(n):
    return [[[i, a], [j, b]] for i, j in itertools.combinations(range(n), 2)
            for a in KINDS for b in KINDS]


def enum_pairs(tier, seed):
    for c, n in config_slots(tier, seed):
        for p in all_pairs(n):
            yield dict(c, script=p)


def enum_pairs_sample(tier, seed):
    for idx, (c, n) in enumerate(config_slots(tier, seed)):
        rng = _random.Random(derive_seed(seed, PROPERTY, "pairs", idx))
        pairs = all_pairs(n)
        for p in rng.sample(pairs, min(len(pairs), 160)):
            yield dict(c, script=p)


# ------------------------------------------------- the real udp driver legs
def run_udp(case, ctx):
    judge(case, ctx, clean=not case["script"], medium=udpair.frontends)


def udp_configs(tier, seed):
    """every (lri, lrt) x {no DID, DID} (x 3 seeded variants in the thorough
    tier): sizes around multiples of the MIU in both directions"""
    rng = _random.Random(derive_seed(seed, PROPERTY, "udp"))
    edges = [[0, 1], [1, -1], [1, 0], [1, 1], [2, 0], [2, 1], [3, -1],
             [1, -2], [2, -1]]
    out = []
    for _ in range(1 if tier == "quick" else 3):
        for lri in range(4):
            for lrt in range(4):
                for did in (None, rng.randrange(1, 15)):
                    cfg = dict(DEFAULT_CFG)
                    cfg.update(lri=lri, lrt=lrt, did=did,
                               brs=rng.randrange(3),
                               rwt=rng.choice([0, 3, 8, 8, 11, 14]),
                               nad=rng.choice([None, None, None,
                                               rng.randrange(256)]),
                               gbi=bytes(rng.randrange(256) for _ in
                                         range(rng.choice([0, 0, 20, 48]))),
                               gbt=bytes(rng.randrange(256) for _ in
                                         range(rng.choice([0, 0, 20, 47]))),
                               seed=rng.randrange(0x10000),
                               release=rng.random() < 0.7)
                    n = rng.randrange(5, 7)
                    out.append({"cfg": cfg,
                                "req": [list(x) for x in rng.sample(edges, n)],
                                "res": [list(x) for x in rng.sample(edges, n)]})
    return out


def enum_udp(tier, seed):
    for c in udp_configs(tier, seed):
        cfg, reqs, ress, _ = materialise(dict(c, script=[]))
        r = dp.converse(cfg, reqs, ress, {}, medium=udpair.frontends)
        n = min(NMAX, len([f for f in r.frames if f["code"] == "DEP"]))
        yield dict(c, script=[])
        for i in range(n):
            for k in KINDS:
                yield dict(c, script=[[i, k]])


@st.composite
def st_udp_case(draw):
    case = draw(st_case())
    # the driver pair is activated at 106A (Initiator.activate searches the
    # target itself), higher bit rates are reached through PSL (brs)
    case["cfg"]["start"] = "106A"
    return case


CONFIGS = ("8 hand-written + seeded configurations (40 quick / 300 thorough: "
           "brs, start 106A/212F/424F, lri, lrt, rwt, DID on every fifth, "
           "NAD, general bytes, 5-7 exchanges with sizes around multiples of "
           "the MIU)")
NT_RULE = ("non-trivial = a fault hit a chained (I++) PDU, an ACK, an ATN/NAK "
           "recovery frame, or a step after the PNI wrap (step index >= 4).")

LEGS = [
    Leg("single", run=run, enum=enum_single, exhaustive=True,
        shards_quick=8, shards_thorough=8,
        rule=CONFIGS + " x {fault-free run, every single fault in {lose, "
             "corrupt} over the first min(24, length) frame slots of the "
             "fault-free run}; " + NT_RULE),
    Leg("pairs", run=run, enum=enum_pairs, exhaustive=True,
        tiers=("thorough",), shards_thorough=16,
        rule=CONFIGS + " x every pair of faults in {lose, corrupt}^2 over "
             "the first min(24, length) frame slots (slot numbers refer to "
             "the faulty run, so the second fault also lands on recovery "
             "frames); " + NT_RULE),
    Leg("pairs-sample", run=run, enum=enum_pairs_sample, exhaustive=False,
        tiers=("quick",), shards_quick=12,
        rule="as leg pairs, 160 seeded pairs per configuration."),
    Leg("random", run=run, gen=lambda tier: st_case(), quick=3200,
        thorough=30000, shards_quick=8, shards_thorough=16, nt_floor=0.3,
        rule="Hypothesis: brs 0-2 x start 106A/212F/424F x lri/lrt 0-3 x "
             "rwt 0-14 x DID none/1..14 x NAD none/0..255 x general bytes x "
             "1-12 exchanges with sizes k*MIU+{-1,0,1} or <= 1500 x scripts "
             "(sparse: <= 4 faults in slots 0..70, dense: 5-40 % of 100 "
             "slots); same non-trivial rule."),
    Leg("clean", run=run_clean, gen=lambda tier: st_case(faults=False),
        quick=800, thorough=8000, shards_quick=4, shards_thorough=8,
        nt_floor=0.3,
        rule="fault-free conversations over the same configuration space "
             "(complete delivery, LR, framing); non-trivial = at least 5 "
             "protocol steps (PNI wrap) and chaining in some direction."),
    Leg("udp", run=run_udp, enum=enum_udp, exhaustive=True,
        shards_quick=8, shards_thorough=16,
        rule="the same conversations carried by the library's REAL udp "
             "driver on both sides (two ContactlessFrontend('udp:...') whose "
             "socket/select modules are an in-process datagram medium: "
             "ephemeral ports, bind, recvfrom(bufsize) cuts the datagram to "
             "bufsize like the kernel; activation at 106A through the "
             "driver's sense/listen, PSL by brs): every (lri, lrt) in "
             "{64,128,192,254}^2 x {no DID, DID} (x 3 in the thorough tier) "
             "with seeded brs/rwt/NAD/general bytes and 5-6 exchanges whose "
             "sizes are distinct members of k*MIU+{-2..1}, k <= 3, in each "
             "direction x {fault-free run, every single fault in {lose = "
             "datagram dropped, corrupt = datagram with a damaged hex "
             "string} over the first min(24, length) DEP frame slots}; "
             + NT_RULE + " The fault-free runs count as non-trivial when "
             "they chain and pass the PNI wrap."),
    Leg("udp-random", run=run_udp, gen=lambda tier: st_udp_case(), quick=500,
        thorough=5000, shards_quick=4, shards_thorough=8, nt_floor=0.3,
        rule="as leg random (configurations x payload size lists x sparse / "
             "dense lose/corrupt scripts) over the real udp driver pair, "
             "start fixed to 106A; same non-trivial rule (fault-free cases: "
             ">= 5 steps and chaining)."),
]

# the same searches with every nfc logger enabled down to the lowest level
# (code that only runs, or only evaluates its arguments, when logging is on)
_byl = dict((lg.name, lg) for lg in LEGS)
LEGS += [twin_env(_byl[n], "log", {"VERIF_LOG": "debug"}, quick=q, thorough=t,
                  shards_quick=2)
         for n, q, t in [('random', 300, 3000)] if n in _byl]
