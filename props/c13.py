"""C13 - drivers report RF and host-link failures only as documented errors.

For every driver (pn531 pn532 pn533 rcs956 acr122 arygonA arygonB rcs380 udp)
and every target kind the driver supports, a device is built through the
driver's real constructor over a simulated chip (vlib.simchip), a target of
that kind is installed on a real ContactlessFrontend, one fault-free
``exchange()`` teaches the host command sequence, and then

  baseline   the fault-free exchange returns exactly what the simulated RF
             partner sent (anchor of the simulators)
  status     every status / error code 0..255 at each RF exchange command
             (RC-S380: every single status bit, every pair of bits, seeded
             random 32 bit words); for the direct-CIU paths of the PN53x
             family (Type 3 Tag listen, Type 1 Tag READ8) every FIFO fill
             level and the RF-off interrupt
  hostfault  every host-link fault (read timeout, no ACK, missing ACK, EIO /
             ENODEV at write / ACK / response, error frame, every truncation,
             extensions, bit flips, foreign frames, wrong response code,
             well-formed but short payloads, non-zero status of a preparatory
             command) at every host command index of the exchange
  udp        datagram / socket faults of the UDP driver
  mixed      random combinations (two faults, random frames, random bits)
  faultseq   fault sequences: a fault at one host command followed by a
             failing / timing-out write or read among the transport
             operations right behind it (cancel ACK, next command), a link
             that is dead from then on, or a second fault at the next host
             commands
  listen-hist  listen side: histories of 2-4 exchange() calls on one frontend
             (send_data a response, b"" or None = keep silence), a status /
             host-link fault at each call and host command; oracle on every
             call
  race       exchange() while other threads close() / open() / __exit__() the
             frontend or exchange as well (host link working or unplugged),
             under the virtual scheduler with one forced thread switch at
             every scheduling point (lock operations, thread start / exit,
             every host-link frame)
  race-random  the same with random programs and random schedules

oracle: ContactlessFrontend.exchange() returns bytes-like data (None only on
the listen side), or raises an nfc.clf.CommunicationError subclass or IOError;
for unambiguous inputs the subclass is checked as well.
"""
import errno
import hashlib
import os

from hypothesis import strategies as st

import nfc.clf

from vlib import ref_crc, simchip, vsched
from vlib.engine import HarnessError, Leg, Violation, unexpected, twin_O, twin_env

PROPERTY = "C13"
LEVEL = "fault_enumeration"
ASSUMPTIONS = [
    "the chip models in vlib/simchip.py answer the host commands the way "
    "the PN531/PN532/PN533/RC-S956/ACR122U/RC-S380 do as far as the drivers "
    "use them (anchored by the baseline leg and the drivers' own init "
    "sequences running against them)",
    "a transport delivers a non-empty frame or raises IOError(ETIMEDOUT | "
    "EIO | ENODEV), as nfc.clf.transport does; None / empty reads (closed "
    "transport) are not generated because the frontend lock excludes "
    "close() during exchange()",
    "timeouts handed to exchange() are positive numbers",
    "the subclass mapping is only asserted for unambiguous inputs: chip "
    "status 00 (data), 01 on an initiator command (TimeoutError), codes "
    "named in the driver's ERR table (TransmissionError; 29h/31h on the "
    "listen side BrokenLinkError), RC-S380 words without / with only the "
    "RECEIVE_TIMEOUT / RF_OFF bits, host ETIMEDOUT at the RF command of a "
    "PN53x/ACR122 (TimeoutError), EIO/ENODEV (IOError); everything else "
    "may be any CommunicationError subclass or IOError",
    "legs race / race-random: interleavings are explored at the "
    "granularity of synchronisation points (lock acquire / release, thread "
    "start / exit) plus one yield at every frame written to or read from "
    "the host link; byte-code level races are not explored; only the "
    "outcome of exchange() is judged, close() / open() may raise IOError "
    "or nfc.clf.Error",
    "Arygon TTY handshake (arygon.init) and pn532.init serial negotiation "
    "are outside; ChipsetA/B + DeviceA/B are constructed directly",
]

EXCLUDE_CLASSES = set(filter(None, os.environ.get("VERIF_EXCLUDE_C13",
                                                  "").split(",")))


def _load_dev_known():
    """development aid: signatures listed in /verif/.out/known_c13c14.json
    (same shape as known_findings.json) are excused when VERIF_DEV_KNOWN is
    set, so that the search continues past confirmed defects before the
    coordinator has registered them.  Off by default."""
    if not os.environ.get("VERIF_DEV_KNOWN"):
        return []
    import json
    path = os.path.join(os.path.dirname(os.path.dirname(
        os.path.abspath(__file__))), ".out", "known_c13c14.json")
    with open(path) as f:
        return [e["signature"] for e in json.load(f)["findings"]
                if e["property"] == PROPERTY]


DEV_KNOWN = _load_dev_known()


def dev_known(run):
    if not DEV_KNOWN:
        return run

    def wrapped(case, ctx):
        try:
            return run(case, ctx)
        except Violation as v:
            sig = {"cls": ctx.cls or "", "oracle": v.oracle,
                   "exc": v.exc or "", "frame": v.frame or ""}
            for k in DEV_KNOWN:
                if all(sig.get(f, "") == val for f, val in k.items()
                       if f != "leg"):
                    ctx.label("dev-known:%s" % sig["cls"])
                    return None
            raise
    return wrapped


PN53X = ("pn531", "pn532", "pn533", "rcs956", "acr122", "arygonA", "arygonB")
CHIP_OF = {"pn531": "pn531", "pn532": "pn532", "pn533": "pn533",
           "rcs956": "rcs956", "acr122": "pn532", "arygonA": "pn531",
           "arygonB": "pn532"}
RF_CODES = {"pn53x": (0x40, 0x42, 0x88, 0x90), "rcs380": (0x04, 0x48)}
CMDNAME = {0x06: "ReadRegister", 0x08: "WriteRegister",
           0x32: "RFConfiguration", 0x40: "InDataExchange",
           0x42: "InCommunicateThru", 0x88: "TgGetInitiatorCommand",
           0x90: "TgResponseToInitiator"}


def setup():
    simchip.patch_time()
    vsched.patch_nfc()      # leg race; real threading / time when no
    #                         scheduler is active


def family(driver):
    """failure-class family: acr122 and arygon run the pn53x driver code"""
    if driver in ("rcs380", "udp"):
        return driver
    return "pn53x"


def linkfamily(driver):
    """framing on the host link"""
    if driver in ("rcs380", "udp", "acr122"):
        return driver
    return "pn53x"


def hostfamily(driver):
    return "rcs380" if driver == "rcs380" else "pn53x"


# ---------------------------------------------------------------- scenarios
IDM = bytes.fromhex("01fe010203040506")
PMM = bytes.fromhex("0f1e2d3c4b5a6978")
SENSF_RES = b"\x01" + IDM + PMM + b"\x12\xfc"
SENS_RES = bytes.fromhex("4400")
SDD_RES = bytes.fromhex("04a1b2c3d4e5f6")
ATR_RES = bytes.fromhex("d50101fe0102030405060708000000083246666d010111")
ATR_REQ = bytes.fromhex("d40001fe0102030405060708000000323246666d010111")
SENSB_RES = bytes.fromhex("50e8253eec00000011008185")

KINDS = {
    # driver -> kinds
    "pn531": ["T2T", "T3T", "T4A", "DEP-A", "DEP-F", "DEP-ACM",
              "L-T2T", "L-T4A", "L-DEP", "L-T3T"],
    "pn532": ["T1T", "T1T-READ8", "T2T", "T3T", "T4A", "T4B", "DEP-A",
              "DEP-F", "DEP-ACM", "L-T2T", "L-T4A", "L-DEP", "L-T3T"],
    "pn533": ["T1T", "T1T-READ8", "T2T", "T3T", "T4A", "T4B", "DEP-A",
              "DEP-F", "DEP-ACM", "L-T2T", "L-T4A", "L-DEP", "L-T3T"],
    "rcs956": ["T1T", "T1T-READ8", "T2T", "T3T", "T4A", "T4B", "DEP-A",
               "DEP-F", "DEP-ACM", "L-T2T", "L-DEP"],
    "acr122": ["T2T", "T3T", "T4A", "T4B", "DEP-A", "DEP-F", "DEP-ACM"],
    "arygonA": ["T2T", "T3T", "T4A", "DEP-A", "DEP-F", "L-T2T", "L-DEP",
                "L-T3T"],
    "arygonB": ["T1T", "T1T-READ8", "T2T", "T3T", "T4A", "T4B", "DEP-A",
                "DEP-F", "L-T2T", "L-T4A", "L-DEP", "L-T3T"],
    "rcs380": ["T1T", "T2T", "T3T", "T4A", "T4B", "DEP-A", "DEP-F",
               "L-T2T", "L-T3T", "L-T4A", "L-DEP"],
    "udp": ["T2T", "T3T", "T4A", "T4B", "DEP-F", "L-T2T", "L-T3T", "L-DEP"],
}
COMBOS = [(d, k) for d in simchip.DRIVERS for k in KINDS[d]]


class Scenario(object):
    pass


def scenario(driver, kind):
    """target to install, data to send, what the RF partner answers and what
    the exchange must therefore return"""
    sc = Scenario()
    sc.driver, sc.kind = driver, kind
    sc.side = "L" if kind.startswith("L-") else "I"
    sc.timeout = 0.1
    sc.ciu = False
    ba = bytearray
    R, L = nfc.clf.RemoteTarget, nfc.clf.LocalTarget
    extra = {"_addr": ("127.0.0.1", 54321)} if driver == "udp" else {}
    if kind == "T1T":
        sc.target = R("106A", sens_res=ba(b"\x00\x0c"),
                      rid_res=ba.fromhex("114801020304"), **extra)
        sc.send = ba.fromhex("01080001020304")
        sc.answer = bytes.fromhex("0855")
    elif kind == "T1T-READ8":
        sc.target = R("106A", sens_res=ba(b"\x00\x0c"),
                      rid_res=ba.fromhex("124c01020304"), **extra)
        sc.send = ba.fromhex("02030000000000000000" "01020304")
        sc.answer = bytes.fromhex("03a1a2a3a4a5a6a7a8")
        sc.ciu = driver != "rcs956"
    elif kind == "T2T":
        sc.target = R("106A", sens_res=ba(SENS_RES), sel_res=ba(b"\x00"),
                      sdd_res=ba(SDD_RES), **extra)
        sc.send = ba.fromhex("3004")
        sc.answer = bytes.fromhex("0102030405060708090a0b0c0d0e0f10")
    elif kind == "T3T":
        sc.target = R("212F", sensf_res=ba(SENSF_RES), **extra)
        sc.send = ba(b"\x10\x06" + IDM + bytes.fromhex("010b00018000"))
        sc.answer = b"\x1d\x07" + IDM + b"\x00\x00\x01" + bytes(16)
    elif kind == "T4A":
        sc.target = R("106A", sens_res=ba(SENS_RES), sel_res=ba(b"\x20"),
                      sdd_res=ba(SDD_RES), **extra)
        sc.send = ba.fromhex("0200a4040007d276000085010100")
        sc.answer = bytes.fromhex("029000")
    elif kind == "T4B":
        sc.target = R("106B", sensb_res=ba(SENSB_RES), **extra)
        sc.send = ba.fromhex("0200a4040007d276000085010100")
        sc.answer = bytes.fromhex("029000")
    elif kind == "DEP-A":
        sc.target = R("106A", sens_res=ba(SENS_RES), sel_res=ba(b"\x40"),
                      sdd_res=ba(SDD_RES), atr_res=ba(ATR_RES),
                      atr_req=ba(ATR_REQ), **extra)
        sc.send = ba.fromhex("f006d40600000000")[:6]
        sc.answer = bytes.fromhex("f004d50700")
    elif kind == "DEP-F":
        sc.target = R("212F", sensf_res=ba(SENSF_RES), atr_res=ba(ATR_RES),
                      atr_req=ba(ATR_REQ), **extra)
        sc.send = ba.fromhex("06d406000000")
        sc.answer = bytes.fromhex("04d50700")
    elif kind == "DEP-ACM":
        sc.target = R("424F", atr_res=ba(ATR_RES), atr_req=ba(ATR_REQ),
                      **extra)
        sc.send = ba.fromhex("06d406000000")
        sc.answer = bytes.fromhex("04d50700")
    elif kind == "L-T2T":
        sc.target = L("106A", sens_res=ba(SENS_RES), sel_res=ba(b"\x00"),
                      sdd_res=ba(b"\x08\x01\x02\x03"),
                      tt2_cmd=ba.fromhex("3000"), **extra)
        sc.send = ba(bytes(range(16)))
        sc.answer = bytes.fromhex("3004")
    elif kind == "L-T4A":
        sc.target = L("106A", sens_res=ba(SENS_RES), sel_res=ba(b"\x20"),
                      sdd_res=ba(b"\x08\x01\x02\x03"),
                      tt4_cmd=ba.fromhex("0200a4040007d2760000850101"),
                      **extra)
        sc.send = ba.fromhex("029000")
        sc.answer = bytes.fromhex("0300b0000002")
    elif kind == "L-DEP":
        sc.target = L("212F", sensf_res=ba(SENSF_RES), atr_req=ba(ATR_REQ),
                      atr_res=ba(ATR_RES), dep_req=ba.fromhex("d406000000"),
                      **extra)
        sc.send = ba.fromhex("06d507000000")
        sc.answer = bytes.fromhex("06d406010000")
    elif kind == "L-T3T":
        sc.target = L("212F", sensf_res=ba(SENSF_RES),
                      tt3_cmd=ba(b"\x06" + IDM + b"\x01\x0b\x00\x01\x80\x00"),
                      **extra)
        sc.send = ba(b"\x1d\x07" + IDM + b"\x00\x00\x01" + bytes(16))
        sc.answer = b"\x10\x06" + IDM + bytes.fromhex("010b00018001")
        sc.ciu = family(driver) == "pn53x"
    else:
        raise HarnessError("unknown kind " + kind)
    # what reaches / comes from the chip
    sc.rf_answer = sc.answer
    sc.expect = sc.answer
    if kind == "T2T" and driver != "udp":
        sc.rf_answer = ref_crc.add_a(sc.answer)      # driver strips CRC_A
    if kind == "T1T-READ8":
        if driver == "rcs956":
            sc.expect = None                         # always refused
        sc.fifo = simchip.parity_fifo(ref_crc.add_b(sc.answer))
    if kind == "L-T3T" and sc.ciu:
        sc.fifo = sc.answer
    return sc


def install(sc, dev, link):
    drv = sc.driver
    if drv == "udp":
        brty = sc.target.brty
        link.inbox = [("%s %s" % (brty, sc.rf_answer.hex())).encode()]
        return
    chip = link.chip
    chip.rf = lambda code, arg: (0, b"" if code == 0x90 else sc.rf_answer)
    if sc.ciu:
        chip.ciu_rx = sc.fifo


_learned = {}


def learn(driver, kind):
    """[(host command code, fault-free response frame)] of one exchange"""
    key = (driver, kind)
    if key not in _learned:
        sc = scenario(driver, kind)
        dev, link = simchip.build(driver)
        install(sc, dev, link)
        clf = simchip.frontend(dev)
        clf.target = sc.target
        if driver == "udp":
            try:
                got = clf.exchange(sc.send, sc.timeout)
            except Exception as e:
                raise HarnessError("fault-free exchange failed: %s %s: %r"
                                   % (driver, kind, e))
            _learned[key] = ([(0, b"")], got)
        else:
            link.arm()
            try:
                got = clf.exchange(sc.send, sc.timeout)
            except nfc.clf.TransmissionError as e:
                if sc.expect is not None:
                    raise HarnessError("fault-free exchange failed: %s %s: "
                                       "%r" % (driver, kind, e))
                got = None
            except Exception as e:
                raise HarnessError("fault-free exchange failed: %s %s: %r"
                                   % (driver, kind, e))
            _learned[key] = (list(zip([c for c, a in link.cmds],
                                      link.rsps)), got)
    return _learned[key]


def phase_of(driver, sc, code, at=None):
    """rf: the RF exchange command; prep: register / RF configuration
    commands before it; ciu: register traffic that replaces the RF command
    on the direct-CIU paths"""
    if driver == "udp":
        return "rf"
    if code in RF_CODES[hostfamily(driver)]:
        return "rf"
    if sc.ciu and not (sc.side == "I" and at is not None and at < 3):
        return "ciu"
    return "prep"


# ------------------------------------------------------------------ oracle
COMM = ("CommunicationError", "ProtocolError", "TransmissionError",
        "TimeoutError", "BrokenLinkError")
ANY = None


def classify_outcome(fn, what=None):
    """-> (tag, value); unexpected exception types become Violations"""
    try:
        r = fn()
    except nfc.clf.CommunicationError as e:
        return type(e).__name__, e
    except IOError as e:
        return "IOError", e
    except Exception as e:
        raise unexpected(e, oracle="driver-internal-exception", detail=what)
    return "data", r


def check_general(sc, tag, val, what):
    if tag == "data":
        if val is None:
            if sc.side == "I":
                raise Violation("returns-none-to-initiator", what)
            return "none"
        if not isinstance(val, (bytes, bytearray, memoryview)):
            raise Violation("returns-non-bytes", "%s -> %r" % (what, val))
        return "data"
    if tag == "IOError":
        return tag
    if tag not in COMM:
        # a CommunicationError subclass defined elsewhere
        return "CommunicationError"
    return tag


def chip_err_table(driver):
    import importlib
    mod = {"arygonA": "pn531", "arygonB": "pn532"}.get(driver, driver)
    m = importlib.import_module("nfc.clf." + mod)
    return m.Chipset.ERR


def expected_for_status(driver, sc, code, x):
    """set of acceptable outcome tags for chip status x at RF command
    ``code``; ANY when the input is ambiguous"""
    if driver == "rcs380":
        if x == 0:
            return {"data"}
        TIMEOUT, RFOFF = 0x80, 0x400
        named = 0x80000FDF                      # bits the table names
        if x & TIMEOUT or x & RFOFF:
            if x == TIMEOUT:
                return {"TimeoutError"}
            if x == RFOFF and sc.side == "L":
                return {"BrokenLinkError"}
            return ANY
        if x & named:
            return {"TransmissionError"}
        return ANY
    err = chip_err_table(driver)
    if code == 0x40:
        if x & 0x3F == 0:
            return {"data"}
        if x & 0xC0:
            return ANY
    if x == 0:
        return {"data"}
    if sc.side == "I":
        if x == 1:
            return {"TimeoutError"}
        if x in err and x < 0x7F:
            return {"TransmissionError"}
        return ANY
    if x in (0x29, 0x31) and x in err:
        return {"BrokenLinkError"}
    if x in (0x01, 0x0A, 0x2F):
        return ANY
    if x in err and x < 0x7F:
        return {"TransmissionError"}
    return ANY


def expected_for_hostfault(driver, sc, phase, fault):
    kind = fault[0]
    if kind == "ioerr":
        return {"IOError"}
    if kind == "timeout":
        if phase == "rf" and driver != "rcs380":
            return {"TimeoutError"}
        return {"TimeoutError", "IOError"}
    return ANY


def describe(case):
    return "%s %s fault %r at host command %s" % (
        case["driver"], case["kind"], case["fault"], case.get("at"))


SOF = b"\x00\x00\xff"
ERRFRAME = bytes.fromhex("0000ff01ff7f8100")


def _delivered(fault, rsp):
    """the response frame the host reads for a frame-level fault (None when
    the fault is not about the content of the response frame)"""
    kind = fault[0]
    if kind == "trunc":
        return bytes(rsp[:max(1, min(fault[1], len(rsp) - 1))])
    if kind == "random":
        return bytes(fault[1]) or b"\x00"
    if kind == "flip":
        f = bytearray(rsp)
        bit = fault[1] % (8 * len(f))
        f[bit // 8] ^= 1 << (bit % 8)
        return bytes(f)
    return None


def _p100_payload_shape(rsp, k):
    """well-formed Port-100 response whose payload has only k bytes"""
    code = rsp[9] - 1
    status_end = {0x04: 4, 0x48: 7}.get(code)
    if k > 0 and status_end and k < status_end:
        return "short-status"
    return "payload:%d" % min(k, 8)


def fault_shape(driver, fault, rsp):
    """canonical name of a host fault, derived from the frames the host will
    actually read (``rsp`` is the fault-free response frame); a function of
    the case only"""
    kind = fault[0]
    lf = linkfamily(driver)
    d = _delivered(fault, rsp)
    if lf == "pn53x" and d is not None and kind != "flip":
        if d == ERRFRAME:
            return "errframe"
        if d[:5] == SOF + b"\xff\xff" and len(d) < 8:
            return "ext-header-cut"
        if d[:3] == SOF and len(d) < 5:
            return "header-cut"
    if lf == "rcs380":
        # what a receiver that does not verify checksums makes of it
        if kind in ("skipack", "nodata", "errframe", "wrongcode"):
            return "unexpected-frame"
        if d is not None:
            if d[:5] != SOF + b"\xff\xff" or len(d) == 5:
                return "unexpected-frame"
            if len(d) == 6:
                return "frame-cut:6"
            if len(d) <= 9:
                return "frame-cut:7-9"
            data = d[8:8 + (d[5] | d[6] << 8)]
            if len(data) < 2:
                return "data<2"
            if data[:2] != bytes(rsp[8:10]):
                return "unexpected-frame"
            if len(data) < (rsp[5] | rsp[6] << 8):
                return _p100_payload_shape(rsp, len(data) - 2)
        if kind == "payload":
            return _p100_payload_shape(rsp, fault[1])
    if kind == "ioerr":
        return "ioerr:" + fault[2]
    if kind == "payload":
        return "payload:%d" % min(fault[1], 8)
    return kind


def fault_class(driver, phase, fault, rsp=b""):
    return "%s/%s/%s" % (family(driver), phase, fault_shape(driver, fault,
                                                            rsp))


def run_fault(case, ctx):
    drv, kind, fault = case["driver"], case["kind"], case["fault"]
    sc = scenario(drv, kind)
    seq, _ = learn(drv, kind)
    fk = fault[0]
    dev, link = simchip.build(drv)
    install(sc, dev, link)
    chip = link.chip
    if fk in ("fifo", "divirq"):
        # RF-level misbehaviour on the direct CIU paths
        phase, code = "ciu", None
        if fk == "fifo":
            chip.ciu_rx = sc.fifo[:fault[1]] + bytes(fault[2])
        else:
            chip.divirq = fault[1]
        cls = "%s/ciu/%s" % (family(drv), fk)
        if fk == "fifo":
            cls += ":%d" % min(fault[1] + len(fault[2]), 3)
    else:
        at = case["at"] % len(seq)
        code = seq[at][0]
        phase = phase_of(drv, sc, code, at)
        link.script = {at: fault}
        cls = fault_class(drv, phase, fault, seq[at][1])
    ctx.set_class(cls)
    ctx.label("driver:" + drv, "kind:" + kind, "fault:" + fk,
              "phase:" + phase)
    if cls in EXCLUDE_CLASSES:
        ctx.label("excluded-dev:" + cls)
        return
    clf = simchip.frontend(dev)
    clf.target = sc.target
    link.arm()
    what = describe(case)
    tag, val = classify_outcome(lambda: clf.exchange(sc.send, sc.timeout),
                                what)
    tag = check_general(sc, tag, val, what)
    ctx.label("outcome:" + tag)
    # specific mapping
    if fk == "status" and phase == "rf":
        want = expected_for_status(drv, sc, code, fault[1])
        table = None if drv == "rcs380" else chip_err_table(drv)
        outside = table is not None and (fault[1] & 0xFF) not in table \
            and fault[1] != 0
        if drv == "rcs380":
            outside = bool(fault[1] & ~0x80000FDF)
        if outside:
            ctx.nontrivial()
    elif fk == "fifo":
        want = ANY
        full = fault[1] >= len(sc.fifo) and not fault[2]
        if full:
            want = {"data"}
        ctx.nontrivial()
    elif fk == "divirq":
        want = {"BrokenLinkError"} if (fault[1] & 1 and kind == "L-T3T") \
            else ANY
        ctx.nontrivial()
    else:
        want = expected_for_hostfault(drv, sc, phase, fault)
        if phase != "rf":
            ctx.nontrivial()
    if want is not ANY and tag not in want:
        raise Violation("wrong-error-mapping", "%s -> %s (%s), expected %s"
                        % (what, tag, val, "/".join(sorted(want))))
    ctx.note({"outcome": tag})


# ------------------------------------------------------------ leg baseline
def enum_baseline(tier, seed):
    for d, k in COMBOS:
        yield {"driver": d, "kind": k}


def run_baseline(case, ctx):
    drv, kind = case["driver"], case["kind"]
    sc = scenario(drv, kind)
    seq, got = learn(drv, kind)
    ctx.set_class("%s/%s" % (family(drv), kind))
    ctx.label("driver:" + drv, "m=%d" % len(seq))
    ctx.nontrivial()
    if sc.expect is None:
        if got is not None:
            raise HarnessError("%s %s: expected refusal, got %r"
                               % (drv, kind, got))
        return
    if got is None or bytes(got) != sc.expect:
        raise HarnessError("simulator and driver disagree on the fault-free "
                           "exchange %s %s: returned %r, RF partner sent %s"
                           % (drv, kind, got, sc.expect.hex()))
    ctx.note({"host_commands": [CMDNAME.get(c, "%02x" % c) for c, r in seq]})


# -------------------------------------------------------------- leg status
RCS380_BITS = list(range(32))


def det_int(bits, *key):
    h = hashlib.blake2b(("|".join(str(k) for k in key)).encode(),
                        digest_size=8).digest()
    return int.from_bytes(h, "big") & ((1 << bits) - 1)


def keep(seed, frac, *key):
    return det_int(16, seed, "keep", *key) < frac * 65536


def enum_status(tier, seed):
    q = tier == "quick"
    for d, k in COMBOS:
        if d == "udp":
            continue
        sc = scenario(d, k)
        seq, _ = learn(d, k)
        c = {"driver": d, "kind": k}
        for at, (code, rsp) in enumerate(seq):
            if phase_of(d, sc, code, at) != "rf":
                continue
            if d == "rcs380":
                words = [0] + [1 << b for b in RCS380_BITS]
                pairs = [(1 << a) | (1 << b) for a in RCS380_BITS
                         for b in RCS380_BITS if a < b]
                if q:
                    pairs = [w for w in pairs if keep(seed, 0.15, d, k, w)]
                words += pairs
                words += [det_int(32, seed, d, k, i)
                          for i in range(40 if q else 2000)]
                words += [0xFFFFFFFF, 0x80000000, 0x00000480]
                for w in words:
                    yield dict(c, at=at, fault=["status", w])
            else:
                table = chip_err_table(d)
                for x in range(256):
                    boundary = x in table or x in (0, 1, 0x29, 0x31, 0x3F,
                                                   0x40, 0x41, 0x7F, 0x80,
                                                   0x81, 0xFE, 0xFF)
                    if q and not boundary and not keep(seed, 0.15, d, k, x):
                        continue
                    yield dict(c, at=at, fault=["status", x])
        if sc.ciu:
            n = len(sc.fifo)
            for lvl in range(0, n + 1):
                yield dict(c, at=-1, fault=["fifo", lvl, b""])
            for lvl in (0, 1, 2, n // 2, n):
                for tail in (b"\x00", b"\xff\xff", b"\x01\x02\x03"):
                    yield dict(c, at=-1, fault=["fifo", lvl, tail])
            for v in (1, 2, 0x10, 0x11, 0xFF):
                yield dict(c, at=-1, fault=["divirq", v])


# ----------------------------------------------------------- leg hostfault
FOREIGN = [b"\x00", b"\x00\x00\xff", b"\x00\x00\xff\xff\xff",
           bytes.fromhex("0000ff00ff00"), bytes.fromhex("0000ffff0000"),
           bytes.fromhex("0000ff01ff7f8100"), bytes.fromhex("0000ff00ff"),
           bytes.fromhex("0000ffffff0000"), b"\xaa" * 20,
           bytes.fromhex("0000ff02fed5002b00"),
           bytes.fromhex("0000ffffff0200fed7002900"),
           bytes.fromhex("80020000000000008100d500"),
           bytes.fromhex("8000000000000000810000")]


def has_status(driver, code):
    """preparatory commands whose response carries a status byte (the RF
    commands are covered by the status leg)"""
    if driver == "rcs380":
        return code in (0x00, 0x02)
    chip = CHIP_OF[driver]
    return (chip == "pn533" and code in (0x06, 0x08)) or \
        (chip == "rcs956" and code == 0x08)


def host_faults(driver, code, rsp, tier, seed, key):
    """fault list for one host command whose fault-free response is rsp"""
    fam = linkfamily(driver)
    F = [["timeout"], ["errframe"]]
    if fam != "acr122":
        F += [["noack"], ["skipack"]]
    if fam == "rcs380":
        F += [["nodata"]]
    for e in (errno.EIO, errno.ENODEV):
        for w in (("write", "rsp") if fam == "acr122"
                  else ("write", "ack", "rsp")):
            F.append(["ioerr", e, w])
    F += [["extend", b"\x00"], ["extend", b"\xff\x00\x17"]]
    F += [["wrongcode", 1], ["wrongcode", 0x7F], ["wrongcode", 0xFF]]
    F += [["payload", k] for k in range(0, 8) if k < len(rsp)]
    F += [["payload", -1], ["payload", -2], ["payload", -5]]  # surplus bytes
    if has_status(driver, code):
        F += [["status", x] for x in (0x01, 0x13, 0x27, 0x80, 0xFF)]
    F += [["random", f] for f in FOREIGN]
    q = tier == "quick"
    for k in range(1, len(rsp)):
        if q and k > 10 and k < len(rsp) - 2 and not keep(seed, 0.15, key,
                                                          "t", k):
            continue
        F.append(["trunc", k])
    for b in range(8 * len(rsp)):
        if q and not keep(seed, 0.08, key, "f", b):
            continue
        F.append(["flip", b])
    for i in range(2 if q else 12):
        n = 1 + det_int(5, seed, key, "rl", i)
        F.append(["random", hashlib.shake_128(
            ("%s|%s|%d" % (seed, key, i)).encode()).digest(n)])
    return F


def enum_hostfault(tier, seed):
    for d, k in COMBOS:
        if d == "udp":
            continue
        seq, _ = learn(d, k)
        c = {"driver": d, "kind": k}
        idxs = range(len(seq))
        if len(seq) > 12 and tier == "quick":
            idxs = [i for i in idxs if i < 6 or i >= len(seq) - 4]
        for at in idxs:
            code, rsp = seq[at]
            for f in host_faults(d, code, rsp, tier, seed,
                                 "%s|%s|%d" % (d, k, at)):
                yield dict(c, at=at, fault=f)


# ----------------------------------------------------------------- leg udp
def udp_events(sc):
    brty = sc.target.brty.encode()
    good = brty + b" " + sc.rf_answer.hex().encode()
    other = b"848A" + b" " + sc.rf_answer.hex().encode()
    ev = [
        ("valid", [good], {"data"}),
        ("nothing", [None], {"TimeoutError"}),
        ("rfoff", [b"RFOFF"], {"BrokenLinkError"}),
        ("rfoff-arg", [b"RFOFF 00"], {"BrokenLinkError"}),
        ("other-brty-then-valid", [other, good], {"data"}),
        ("other-brty-then-nothing", [other, None], {"TimeoutError"}),
        ("nothing-then-valid", [None, good], ANY),
        ("empty-datagram", [b""], ANY),
        ("one-token", [brty], ANY),
        ("three-tokens", [good + b" 00"], ANY),
        ("nonhex", [brty + b" zz"], ANY),
        ("odd-hex", [brty + b" 012"], ANY),
        ("nonascii-brty", [b"\xff\xfe 00"], ANY),
        ("nonascii-hex", [brty + b" \xff\xfe"], ANY),
        ("binary-garbage", [bytes(range(256))], ANY),
        ("nul", [b"\x00"], ANY),
        ("lowercase-brty", [good.lower()], ANY),
        ("empty-data", [brty + b" "], ANY),
        ("sock-eio", [OSError(errno.EIO, "EIO")], {"IOError"}),
        ("sock-refused", [OSError(errno.ECONNREFUSED, "refused")],
         {"IOError"}),
        ("sock-enodev", [OSError(errno.ENODEV, "ENODEV")], {"IOError"}),
    ]
    return ev


UDP_SEND = [("send-short-1", ["short", 1], ANY),
            ("send-short-all", ["short", 10000], ANY),
            ("send-eio", ["error", errno.EIO], {"IOError"}),
            ("send-enetunreach", ["error", errno.ENETUNREACH], {"IOError"})]


def enum_udp(tier, seed):
    for k in KINDS["udp"]:
        sc = scenario("udp", k)
        for name, _, _ in udp_events(sc):
            yield {"kind": k, "event": name}
        for name, _, _ in UDP_SEND:
            yield {"kind": k, "event": name}
        for i in range(20 if tier == "quick" else 400):
            n = det_int(6, seed, "udp", k, i)
            yield {"kind": k, "event": "random",
                   "datagram": hashlib.shake_128(
                       ("%d|%s|%d" % (seed, k, i)).encode()).digest(n)}
            yield {"kind": k, "event": "random",
                   "datagram": sc.target.brty.encode() + b" "
                   + hashlib.shake_128(("h%d|%s|%d" % (seed, k, i)).encode()
                                       ).digest(n)}


def run_udp(case, ctx):
    kind, event = case["kind"], case["event"]
    sc = scenario("udp", kind)
    dev, net = simchip.build("udp")
    clf = simchip.frontend(dev)
    clf.target = sc.target
    want = ANY
    if event == "random":
        net.inbox = [bytes(case["datagram"]), None]
        cls = "udp/recv/random"
    elif event.startswith("send-"):
        for name, act, w in UDP_SEND:
            if name == event:
                net.send_script = {0: act}
                want = w
        install(sc, dev, net)
        cls = "udp/send/" + event[5:]
    else:
        for name, inbox, w in udp_events(sc):
            if name == event:
                net.inbox = list(inbox) + [None, None]
                want = w
        cls = "udp/recv/" + event
    ctx.set_class(cls)
    ctx.label("kind:" + kind, "event:" + event)
    if cls in EXCLUDE_CLASSES:
        ctx.label("excluded-dev:" + cls)
        return
    what = "udp %s %s %r" % (kind, event, case.get("datagram"))
    tag, val = classify_outcome(lambda: clf.exchange(sc.send, sc.timeout),
                                what)
    tag = check_general(sc, tag, val, what)
    ctx.label("outcome:" + tag)
    if event not in ("valid",):
        ctx.nontrivial()
    if want is not ANY and tag not in want:
        raise Violation("wrong-error-mapping", "%s -> %s (%s), expected %s"
                        % (what, tag, val, "/".join(sorted(want))))
    if event == "valid" and bytes(val) != sc.expect:
        raise HarnessError("udp baseline: %r" % (val,))


# --------------------------------------------------------------- leg mixed
_fault = st.one_of(
    st.just(["timeout"]), st.just(["errframe"]), st.just(["noack"]),
    st.just(["skipack"]),
    st.tuples(st.sampled_from([errno.EIO, errno.ENODEV, errno.ETIMEDOUT,
                               errno.EPIPE]),
              st.sampled_from(["write", "ack", "rsp"])).map(
        lambda t: ["ioerr", t[0], t[1]]),
    st.integers(1, 40).map(lambda k: ["trunc", k]),
    st.binary(min_size=1, max_size=4).map(lambda b: ["extend", b]),
    st.integers(0, 400).map(lambda b: ["flip", b]),
    st.binary(min_size=1, max_size=24).map(lambda b: ["random", b]),
    st.tuples(st.sampled_from([b"\x00\x00\xff", b"\x00\x00\xff\xff\xff",
                               b"\x80"]), st.binary(max_size=12)).map(
        lambda t: ["random", t[0] + t[1]]),
    st.integers(1, 255).map(lambda d: ["wrongcode", d]),
    st.integers(0, 7).map(lambda k: ["payload", k]),
    st.integers(0, 255).map(lambda x: ["status", x]),
    st.integers(0, 0xFFFFFFFF).map(lambda x: ["status", x]))
_mixed = st.fixed_dictionaries({
    "combo": st.integers(0, len(COMBOS) - 1),
    "faults": st.lists(st.tuples(st.integers(0, 7), _fault), min_size=1,
                       max_size=3)})


def run_mixed(case, ctx):
    drv, kind = COMBOS[case["combo"] % len(COMBOS)]
    if drv == "udp":
        ctx.label("skip:udp")
        return
    sc = scenario(drv, kind)
    seq, _ = learn(drv, kind)
    dev, link = simchip.build(drv)
    install(sc, dev, link)
    script = {}
    classes = []
    for at, f in case["faults"]:
        at %= len(seq)
        f = list(f)
        if drv == "acr122" and f[0] in ("noack", "skipack"):
            f = ["timeout"]
        if f[0] == "status" and drv != "rcs380":
            f[1] &= 0xFF
        if f[0] == "status" and phase_of(drv, sc, seq[at][0], at) != "rf" \
                and (f[1] == 0 or not has_status(drv, seq[at][0])):
            f = ["payload", 1]      # no status byte / status without data
        if at not in script:
            script[at] = f
            classes.append(fault_class(drv, phase_of(drv, sc, seq[at][0], at),
                                       f, seq[at][1]))
    first = min(script)
    cls = fault_class(drv, phase_of(drv, sc, seq[first][0], first),
                      script[first], seq[first][1])
    ctx.set_class(cls)
    ctx.label("driver:" + drv, "faults:%d" % len(script))
    if set(classes) & EXCLUDE_CLASSES:
        ctx.label("excluded-dev")
        return
    link.script = script
    clf = simchip.frontend(dev)
    clf.target = sc.target
    link.arm()
    what = "%s %s faults %r" % (drv, kind, sorted(script.items()))
    try:
        tag, val = classify_outcome(lambda: clf.exchange(sc.send,
                                                         sc.timeout), what)
        tag = check_general(sc, tag, val, what)
    finally:
        # the fault that ended the exchange is the last one applied
        applied = [at for at in script if at < len(link.cmds)]
        if applied:
            last = max(applied)
            ctx.set_class(fault_class(
                drv, phase_of(drv, sc, seq[last][0], last), script[last],
                seq[last][1]))
    ctx.label("outcome:" + tag)
    if len(script) > 1 or phase_of(drv, sc, seq[first][0], first) != "rf":
        ctx.nontrivial()


# ------------------------------------------------------------- leg faultseq
# Fault SEQUENCES on the host link.  The legs above put one fault on one host
# command (mixed: 1-3 faults on different commands, at random).  A reader that
# is unplugged, resets or hangs in the middle of a command produces two faults
# in a row: the response read times out AND the cancel / the next command can
# not be written any more; an I/O error is followed by a timeout; the ACK
# stays out and the retry fails ...  Here the first fault is a per-command
# fault as before (host command index ``at``) and the second one strikes the
# transport operations that FOLLOW the frame of that command:
#   ["w", j, errno]     the j-th write() after it raises IOError(errno)
#                       (j = 0: the very next frame the driver writes - the
#                       ACK that cancels the command, or the next command)
#   ["r", j, errno]     the j-th read() after it raises IOError(errno);
#                       ETIMEDOUT = that read times out, what the chip queued
#                       stays queued (a late answer)
#   ["dead", k, errno]  every transport operation from the k-th one on raises
#                       IOError(errno): the reader is gone
#   ["cmd", d, fault]   a second per-command fault at host command at + d
SEQ_ERRNOS = (errno.EIO, errno.ENODEV, errno.ETIMEDOUT)


class OpFaults(object):
    """wraps write() / read() of one link instance: counts the transport
    operations that follow the frame of host command ``at`` and applies the
    second-stage fault ``then`` to them"""

    def __init__(self, link, at, then):
        self.hit = 0
        self.after = False      # the frame of command ``at`` was written
        self.nop = self.nw = self.nr = 0
        inner_w, inner_r = link.write, link.read

        def strike(kind, timeout):
            j = self.nw if kind == "w" else self.nr
            k = self.nop
            self.nop += 1
            if kind == "w":
                self.nw += 1
            else:
                self.nr += 1
            if (then[0] == kind and then[1] == j) or \
                    (then[0] == "dead" and k >= then[1]):
                self.hit += 1
                if kind == "r" and then[2] == errno.ETIMEDOUT:
                    simchip.CLOCK.sleep((timeout or 0) / 1000.0)
                raise IOError(then[2], os.strerror(then[2]))

        def write(frame):
            if self.after:
                strike("w", None)
            try:
                return inner_w(frame)
            finally:
                if link.armed and len(link.cmds) > at:
                    self.after = True

        def read(timeout=0):
            if self.after:
                strike("r", timeout)
            return inner_r(timeout)
        if then[0] in ("w", "r", "dead"):
            link.write, link.read = write, read


def seq_first_faults(driver, code):
    """first faults: what the host link does to the answer of one command"""
    fam = linkfamily(driver)
    F = [["timeout"], ["errframe"], ["ioerr", errno.EIO, "rsp"],
         ["ioerr", errno.ENODEV, "write"], ["trunc", 4], ["payload", 0],
         ["random", b"\x00\x00\xff\x00\xff\x00"]]       # a second ACK
    if fam != "acr122":
        F += [["noack"], ["skipack"], ["ioerr", errno.EIO, "ack"]]
    if has_status(driver, code):
        F += [["status", 0x01]]
    return F


SEQ_SECOND_CMD = (["timeout"], ["ioerr", errno.EIO, "rsp"], ["errframe"],
                  ["noack"], ["ioerr", errno.ENODEV, "write"])


def seq_then(driver):
    G = [["w", j, e] for j in (0, 1) for e in SEQ_ERRNOS]
    G += [["r", j, e] for j in (0, 1, 2) for e in SEQ_ERRNOS]
    G += [["dead", k, e] for k in (0, 1, 2, 3)
          for e in (errno.ENODEV, errno.EIO)]
    for d in (1, 2):
        for f in SEQ_SECOND_CMD:
            if driver == "acr122" and f[0] == "noack":
                continue
            G.append(["cmd", d, list(f)])
    return G


def enum_faultseq(tier, seed):
    q = tier == "quick"
    for d, k in COMBOS:
        if d == "udp":
            continue            # no host link; datagram events: leg udp
        seq, _ = learn(d, k)
        idxs = list(range(len(seq)))
        if len(seq) > 8 and q:
            idxs = [i for i in idxs if i < 4 or i >= len(seq) - 3]
        for at in idxs:
            for f in seq_first_faults(d, seq[at][0]):
                for g in seq_then(d):
                    # the reader disappearing right behind a fault (next
                    # write / read, dead link) is always run; the rest of the
                    # grid is thinned in the quick tier
                    near = g[0] != "cmd" and g[1] <= 1 or \
                        (g[0] == "dead" and g[1] <= 2)
                    if q and not near and not keep(seed, 0.4, d, k, at,
                                                   f, g):
                        continue
                    yield {"driver": d, "kind": k, "at": at, "fault": f,
                           "then": g}


def run_faultseq(case, ctx):
    drv, kind = case["driver"], case["kind"]
    fault, then = case["fault"], case["then"]
    sc = scenario(drv, kind)
    seq, _ = learn(drv, kind)
    at = case["at"] % len(seq)
    dev, link = simchip.build(drv)
    install(sc, dev, link)
    phase = phase_of(drv, sc, seq[at][0], at)
    cls = "%s/seq/%s+%s" % (fault_class(drv, phase, fault, seq[at][1]),
                            then[0], then[2][0] if then[0] == "cmd" else
                            {errno.ETIMEDOUT: "timeout"}.get(then[2], "ioerr"))
    ctx.set_class(cls)
    ctx.label("driver:" + drv, "first:" + fault[0], "then:" + then[0],
              "phase:" + phase)
    script = {at: fault}
    if then[0] == "cmd":
        script[at + then[1]] = then[2]
    link.script = script
    ops = OpFaults(link, at, then)
    clf = simchip.frontend(dev)
    clf.target = sc.target
    link.arm()
    what = "%s %s fault %r at host command %d, then %r" % (drv, kind, fault,
                                                           at, then)
    tag, val = classify_outcome(lambda: clf.exchange(sc.send, sc.timeout),
                                what)
    tag = check_general(sc, tag, val, what)
    ctx.label("outcome:" + tag)
    second = ops.hit > 0 or (then[0] == "cmd"
                             and len(link.cmds) > at + then[1])
    if second:
        ctx.label("second-fault-applied")
        ctx.nontrivial()
    else:
        # only the first fault happened: the single-fault mapping applies
        want = expected_for_hostfault(drv, sc, phase, fault)
        if fault[0] != "status" and want is not ANY and tag not in want:
            raise Violation("wrong-error-mapping", "%s -> %s (%s), expected "
                            "%s" % (what, tag, val, "/".join(sorted(want))))
    ctx.note({"outcome": tag, "second_applied": second,
              "ops_after": ops.nop})


# ---------------------------------------------------------- leg listen-hist
# Histories on the listen side.  After activation as a LocalTarget the upper
# layers call exchange() again and again on the same frontend: with a response
# to send, with b"" (nothing to send, receive only) and - after an RF error -
# with None: "data may be none as target keeps silence on error" (udp.py),
# which is what nfc.dep.Target.send_res_recv_req and
# ContactlessFrontend._card_connect do (frame = None / tag_rsp = None) before
# they wait for the initiator's retransmission.  Every call of the history is
# judged by the property's outcome oracle; one call carries a fault.
SENDS = ("rsp", "empty", "none")
HIST_STATUS = {"pn53x": (0x01, 0x02, 0x03, 0x05, 0x0A, 0x13, 0x29, 0x31, 0x7F,
                         0xFF),
               "rcs380": (0x80, 0x400, 0x04, 0x02, 0x800, 0x80000000, 0x484,
                          0x40000000)}
HIST_HOST = [["timeout"], ["errframe"], ["noack"], ["skipack"],
             ["ioerr", errno.EIO, "rsp"], ["ioerr", errno.ENODEV, "write"],
             ["ioerr", errno.EIO, "ack"], ["trunc", 4], ["trunc", 7],
             ["payload", 0], ["wrongcode", 1],
             ["random", bytes.fromhex("0000ff00ff00")]]
HIST_UDP = ("nothing", "rfoff", "other-brty-then-nothing", "nonhex",
            "empty-datagram", "sock-eio", "send-eio", "send-short-1")
LISTEN_COMBOS = [(d, k) for d, k in COMBOS if k.startswith("L-")]


def hist_command(sc, i):
    """the command the initiator sends before call i returns (all distinct,
    same length as the scenario's command)"""
    return sc.answer[:-1] + bytes([(sc.answer[-1] + 1 + i) & 0xFF])


def hist_send(sc, how):
    return {"rsp": sc.send, "empty": bytearray(), "none": None}[how]


def hist_feed(sc, link, i, event=None):
    """the RF partner's part of call i"""
    cmd = hist_command(sc, i)
    if sc.driver == "udp":
        brty = sc.target.brty
        good = ("%s %s" % (brty, cmd.hex())).encode()
        link.inbox = [good]
        if event is not None and not event.startswith("send-"):
            for name, inbox, w in udp_events(sc):
                if name == event:
                    link.inbox = [good if x is not None and x == (
                        "%s %s" % (brty, sc.rf_answer.hex())).encode() else x
                        for x in inbox] + [None, None]
        return cmd
    link.chip.rf = lambda code, arg: (0, b"" if code == 0x90 else cmd)
    if sc.ciu:
        link.chip.ciu_rx = cmd
    return cmd


_hist_learned = {}


def learn_hist(driver, kind):
    """{send kind: [(host command code, fault-free response frame)]} of one
    listen-side exchange() in a running history (None for a send kind whose
    fault-free call does not return the initiator's command - the fault-free
    history cases report that); a harness error if the command sequence
    depended on more than the kind of send_data"""
    key = (driver, kind)
    if key in _hist_learned:
        return _hist_learned[key]
    sc = scenario(driver, kind)
    seqs = {}
    for how in SENDS:
        dev, link = simchip.build(driver)
        clf = simchip.frontend(dev)
        clf.target = sc.target
        if driver != "udp":
            link.arm()
        seen = []
        for i, h in enumerate(("rsp", how, how)):
            cmd = hist_feed(sc, link, i)
            n = 0 if driver == "udp" else len(link.cmds)
            try:
                got = clf.exchange(hist_send(sc, h), sc.timeout)
            except Exception:
                got = None
            if got is None or bytes(got) != cmd:
                seen = None
                break
            seen.append([(0, b"")] if driver == "udp" else
                        list(zip([c for c, a in link.cmds[n:]],
                                 link.rsps[n:])))
        if seen is not None and [c for c, r in seen[1]] != \
                [c for c, r in seen[2]]:
            raise HarnessError("host command sequence of %s %s send=%s is "
                               "not stable" % (driver, kind, how))
        seqs[how] = seen[1] if seen is not None else None
    if seqs["rsp"] is None:
        raise HarnessError("fault-free listen exchange failed: %s %s"
                           % (driver, kind))
    _hist_learned[key] = seqs
    return seqs


def enum_listen_hist(tier, seed):
    import itertools
    q = tier == "quick"
    for d, k in LISTEN_COMBOS:
        sc = scenario(d, k)
        seqs = learn_hist(d, k)
        hf = hostfamily(d)
        pats = [list(p) for n in (2, 3, 4)
                for p in itertools.product(SENDS, repeat=n)]
        for pat in pats:
            key = "%s|%s|%s" % (d, k, "".join(x[0] for x in pat))
            if len(pat) == 3 and q and not keep(seed, 0.35, key):
                continue
            if len(pat) == 4 and not keep(seed, 0.05 if q else 0.5, key):
                continue
            base = {"driver": d, "kind": k, "sends": pat}
            yield dict(base, call=None, at=0, fault=None)
            for call, how in enumerate(pat):
                if d == "udp":
                    for ev in HIST_UDP:
                        if ev.startswith("send-") and how == "none":
                            continue
                        yield dict(base, call=call, at=0, fault=["udp", ev])
                    continue
                seq = seqs[how]
                if seq is None:
                    continue    # the fault-free history reports it
                idxs = list(range(len(seq)))
                if q and len(idxs) > 5:
                    idxs = idxs[:3] + idxs[-2:]
                for at in idxs:
                    code = seq[at][0]
                    if phase_of(d, sc, code) == "rf":
                        for x in HIST_STATUS[hf]:
                            yield dict(base, call=call, at=at,
                                       fault=["status", x])
                    for f in HIST_HOST:
                        if q and len(pat) > 2 and not keep(
                                seed, 0.5, key, call, at, f):
                            continue
                        yield dict(base, call=call, at=at, fault=f)


def run_listen_hist(case, ctx):
    drv, kind, pat = case["driver"], case["kind"], case["sends"]
    fault, fcall = case["fault"], case["call"]
    sc = scenario(drv, kind)
    seqs = learn_hist(drv, kind)
    dev, link = simchip.build(drv)
    clf = simchip.frontend(dev)
    clf.target = sc.target
    udp = drv == "udp"
    if not udp:
        link.arm()
    want_f, phase, code = ANY, "rf", None
    if fault is None:
        cls = "%s/hist/%s" % (family(drv), kind)
    elif udp:
        cls = "udp/%s/%s" % ("send" if fault[1].startswith("send-") else
                             "recv", fault[1].replace("send-", ""))
        for name, x, w in list(udp_events(sc)) + UDP_SEND:
            if name == fault[1]:
                want_f = w
    elif seqs[pat[fcall]] is None:
        at, cls = case["at"], "%s/hist/%s" % (family(drv), kind)
    else:
        seq = seqs[pat[fcall]]
        at = case["at"] % len(seq)
        code = seq[at][0]
        phase = phase_of(drv, sc, code)
        cls = fault_class(drv, phase, fault, seq[at][1])
        if fault[0] == "status" and phase == "rf":
            want_f = expected_for_status(drv, sc, code, fault[1])
        else:
            want_f = expected_for_hostfault(drv, sc, phase, fault)
    ctx.set_class(cls)
    ctx.label("driver:" + drv, "kind:" + kind, "calls:%d" % len(pat),
              "fault:" + (fault[0] if fault else "none"))
    if cls in EXCLUDE_CLASSES:
        ctx.label("excluded-dev:" + cls)
        return
    in_sync = True          # the host link and the RF partner are where a
    #                         fault-free history would have left them
    outcomes = []
    for i, how in enumerate(pat):
        faulted = fault is not None and i == fcall
        cmd = hist_feed(sc, link, i, fault[1] if faulted and udp else None)
        if faulted and udp and fault[1].startswith("send-"):
            for name, act, w in UDP_SEND:
                if name == fault[1]:
                    link.send_script = {len(link.sent): act}
        elif faulted and not udp:
            link.script = {len(link.cmds) + at: fault}
        what = "%s %s listen history %r call %d (send %s)%s" % (
            drv, kind, pat, i, how,
            "" if fault is None else ", fault %r at host command %s of call %d"
            % (fault, case["at"], fcall))
        send = hist_send(sc, how)
        tag, val = classify_outcome(
            lambda: clf.exchange(send, sc.timeout), what)
        tag = check_general(sc, tag, val, what)
        outcomes.append("%s:%s" % (how, tag))
        ctx.label("outcome:" + tag)
        if faulted:
            if want_f is not ANY and tag not in want_f:
                raise Violation("wrong-error-mapping", "%s -> %s (%s), "
                                "expected %s" % (what, tag, val,
                                                 "/".join(sorted(want_f))))
            if udp:
                in_sync = not [x for x in link.inbox if x is not None]
            else:
                in_sync = fault[0] == "status" and phase == "rf"
            if i + 1 < len(pat):
                ctx.nontrivial()
        elif in_sync:
            # no fault in this call and nothing left over from an earlier one:
            # the call returns the received data
            if tag != "data" or bytes(val) != cmd:
                raise Violation("fault-free-call-fails", "%s -> %s (%r), the "
                                "initiator sent %s" % (what, tag, val,
                                                       cmd.hex()))
    ctx.note({"outcomes": outcomes})


# ---------------------------------------------------------------- leg race
# exchange() while other threads close / reopen the frontend or exchange as
# well, under the virtual scheduler: the real driver over the simulated chip,
# the host link yields at every frame written (and read) so that a thread can
# be caught inside a driver call, with the frontend lock held.
RACE_OPS = ("exchange", "close", "open", "exit", "max-send")
RACE_PROGRAMS = [
    [["exchange"], ["close"]],
    [["close"], ["exchange"]],
    [["exchange", "exchange"], ["close", "open"]],
    [["exchange"], ["open", "exchange"]],
    [["exchange"], ["exchange"], ["exit"]],
]


def _yielding(fn, world):
    def call(*a, **k):
        s = vsched.current()
        if s is not None and not s.abort:
            lock = world["clf"].lock if world.get("clf") else None
            if lock is not None and any(
                    t.state == vsched.BLOCKED and t.wait_on is lock
                    for t in s.threads):
                world["contended"] = True
            s.yield_()
        return fn(*a, **k)
    return call


def _dead(*a, **k):
    raise IOError(errno.ENODEV, os.strerror(errno.ENODEV))


def race_device(sc, link_state, world):
    """a device of the scenario's driver through its real constructor, RF
    partner installed; link_state: "ok", or "dead" = the reader is unplugged
    after initialisation (every host-link operation fails with ENODEV)"""
    dev, link = simchip.build(sc.driver)
    install(sc, dev, link)
    if sc.driver == "udp":
        if link_state == "dead":
            link.send_script = dict((i, ["error", errno.ENODEV])
                                    for i in range(64))
            link.inbox = [OSError(errno.ENODEV, "ENODEV")] * 8
        link.select = _yielding(link.select, world)
    else:
        link.arm()
        if link_state == "dead":
            link.write = link.read = _dead
        link.write = _yielding(link.write, world)
        link.read = _yielding(link.read, world)
    return dev


def run_race(case, ctx):
    drv, kind = case["driver"], case["kind"]
    state = case.get("link", "ok")
    sc = scenario(drv, kind)
    ctx.set_class("%s/race/%s" % (family(drv), sc.side))
    ctx.label("driver:" + drv, "side:" + sc.side, "link:" + state)
    s = vsched.Sched(case.get("choices", []), seed=0, step_budget=200000)
    if case.get("force"):
        s.forced = dict((int(p), int(k)) for p, k in case["force"])
    vsched.activate(s)
    outcomes = []           # (thread, op index, tag) of every exchange()
    problems = []           # Violations / foreign exceptions, in order
    saved_connect = nfc.clf.device.connect
    try:
        world = {}
        nfc.clf.device.connect = lambda path: race_device(sc, state, world)
        clf = world["clf"] = nfc.clf.ContactlessFrontend()
        if not clf.open("usb"):
            raise HarnessError("open over the simulated chip failed")
        clf.target = sc.target

        def thread(i, prog):
            def body():
                for n, op in enumerate(prog):
                    what = "%s %s link %s: thread %d op %d %s of %r" % (
                        drv, kind, state, i, n, op, case["programs"])
                    try:
                        if op == "exchange":
                            tag, val = classify_outcome(
                                lambda: clf.exchange(sc.send, sc.timeout),
                                what)
                            tag = check_general(sc, tag, val, what)
                            outcomes.append((i, n, tag))
                        elif op == "close":
                            clf.close()
                        elif op == "exit":
                            clf.__exit__(None, None, None)
                        elif op == "open":
                            clf.open("usb")
                        elif op == "max-send":
                            clf.max_send_data_size
                        else:
                            raise HarnessError("unknown op %r" % op)
                    except (vsched.Abort, vsched.StepBudget):
                        raise
                    except Violation as v:
                        problems.append(v)
                    except (IOError, nfc.clf.Error):
                        pass        # only exchange() is judged here
                    except Exception as e:
                        problems.append(e)
            return body
        for i, prog in enumerate(case["programs"]):
            s.spawn(thread(i, prog), "app%d" % i)
        s.settle()
        s.sleep(30.0)
        s.settle()
        alive = [t.name for t in s.alive()]
        failed = s.failures()
        points = s.points
    finally:
        nfc.clf.device.connect = saved_connect
        s.shutdown()
        vsched.activate(None)
    for i, n, tag in outcomes:
        ctx.label("outcome:" + tag)
    if problems:
        raise problems[0]
    if failed:
        raise failed[0][1]
    if alive:
        raise Violation("exchange-did-not-return", "%s %s %r: still running "
                        "%r" % (drv, kind, case["programs"], alive))
    if world.get("contended"):
        ctx.nontrivial()
        ctx.label("lock-contended")
    ctx.note({"scheduling_points": points,
              "outcomes": ["%d.%d:%s" % o for o in outcomes]})
    return points


class _NoCtx(object):
    def __getattr__(self, name):
        return lambda *a, **k: None


def race_combos(tier, seed):
    """thorough: every driver x kind; quick: per driver one initiator-side
    and one listen-side kind, rotating with the seed"""
    if tier != "quick":
        return list(COMBOS)
    out = []
    for d in simchip.DRIVERS:
        ini = [k for k in KINDS[d] if not k.startswith("L-")]
        lis = [k for k in KINDS[d] if k.startswith("L-")]
        for ks in (ini, lis):
            if ks:
                out.append((d, ks[det_int(16, seed, "race", d) % len(ks)]))
    return out


def enum_race(tier, seed):
    for d, k in race_combos(tier, seed):
        for state in ("ok", "dead"):
            for progs in RACE_PROGRAMS:
                base = {"driver": d, "kind": k, "link": state,
                        "programs": progs}
                yield base
                try:
                    points = run_race(dict(base), _NoCtx())
                except Exception:
                    continue        # the unforced case above reports it
                for p in range(1, points + 1):
                    for pick in range(1, len(progs) + 1):
                        yield dict(base, force=[[p, pick]])


_race_case = st.fixed_dictionaries({
    "combo": st.integers(0, len(COMBOS) - 1),
    "link": st.sampled_from(["ok", "ok", "dead"]),
    "programs": st.lists(st.lists(st.sampled_from(
        ["exchange", "exchange", "close", "open", "exit", "max-send"]),
        min_size=1, max_size=3), min_size=2, max_size=3),
    "choices": st.lists(st.integers(0, 2), min_size=6, max_size=40)})


def run_race_random(case, ctx):
    drv, kind = COMBOS[case["combo"] % len(COMBOS)]
    return run_race(dict(case, driver=drv, kind=kind), ctx)


LEGS = [
    Leg("baseline", run=run_baseline, enum=enum_baseline, exhaustive=True,
        rule="every driver x supported target kind (%d combinations): the "
             "fault-free exchange over the simulated chip returns what the "
             "simulated RF partner sent." % len(COMBOS)),
    Leg("status", run=dev_known(run_fault), enum=enum_status, exhaustive=True,
        shards_quick=8, shards_thorough=16,
        rule="every status code 0..255 at every RF exchange command of "
             "every PN53x-family driver x kind (quick: all codes of the "
             "driver's ERR table and the boundary codes plus a seeded 15 % "
             "of the rest; thorough: all 256); RC-S380: zero, every single "
             "bit, every pair of bits (quick: seeded 15 %), 2000 (quick 40) "
             "seeded random words; direct-CIU paths: every FIFO fill level, "
             "trailing garbage, RF-off interrupt bits; non-trivial = code "
             "outside the driver's ERR / status-bit table or a CIU-level "
             "fault."),
    Leg("hostfault", run=dev_known(run_fault), enum=enum_hostfault,
        exhaustive=True,
        shards_quick=16, shards_thorough=16,
        rule="every host command index of every driver x kind x {read "
             "timeout, no ACK, missing ACK, EIO/ENODEV at write/ACK/"
             "response, error frame, every truncation, two extensions, every "
             "single bit flip, 13 foreign frames + seeded random frames, "
             "wrong response code, short well-formed payloads, non-zero "
             "status}; quick runs all of these except a seeded 8 % of the "
             "bit flips and 15 % of the truncations beyond 10 bytes; "
             "non-trivial = fault at a preparatory (register / RF "
             "configuration / InSetRF / InSetProtocol) command."),
    Leg("udp", run=dev_known(run_udp), enum=enum_udp, exhaustive=True,
        rule="UDP driver x 8 target kinds x {valid datagram, nothing, RFOFF, "
             "wrong bitrate, malformed datagrams of 12 shapes, socket "
             "errors, short and failing sends, seeded random datagrams}; "
             "non-trivial = anything but the valid datagram."),
    Leg("mixed", run=dev_known(run_mixed), gen=lambda tier: _mixed, quick=3000,
        thorough=150000, shards_quick=8, shards_thorough=16, nt_floor=0.3,
        rule="random driver x kind with 1-3 random faults (random frames, "
             "random bits, random status bytes / words, further errno "
             "values) at random host command indices; general oracle only; "
             "non-trivial = more than one fault or a fault at a preparatory "
             "command."),
    Leg("faultseq", run=dev_known(run_faultseq), enum=enum_faultseq,
        exhaustive=True, shards_quick=16, shards_thorough=16,
        rule="host-link fault SEQUENCES: every driver x kind (no udp) x "
             "every host command index of the exchange (quick: first 4 and "
             "last 3 of sequences longer than 8) x first fault {read "
             "timeout, no ACK, missing ACK, second ACK, error frame, EIO at "
             "ACK / response, ENODEV at write, truncated frame, empty "
             "payload, non-zero status} x second fault {the j-th write (j = "
             "0, 1) / the j-th read (j = 0..2) that follows the frame of the "
             "faulted command raises IOError(EIO | ENODEV | ETIMEDOUT; a "
             "read timeout leaves the chip's frames queued = late answer), "
             "the link is dead (ENODEV / EIO on every operation) from the "
             "k-th following operation on (k = 0..3), a second per-command "
             "fault {timeout, EIO at response, error frame, no ACK, ENODEV "
             "at write} at the next or next-but-one host command}; the quick "
             "tier runs every combination whose second fault strikes within "
             "the next two writes / reads or kills the link within three "
             "operations and a seeded 40 % of the rest.  General oracle of "
             "the property (bytes-like data / CommunicationError subclass / "
             "IOError); when the exchange ended before the second fault "
             "could strike, the single-fault mapping of leg hostfault.  "
             "Non-trivial = the second fault was applied."),
    Leg("listen-hist", run=dev_known(run_listen_hist), enum=enum_listen_hist,
        exhaustive=True, shards_quick=16, shards_thorough=16,
        rule="listen-side histories on one frontend: every driver x listen "
             "kind (%d combinations) x every sequence of 2 exchange() calls "
             "(quick: plus a seeded 35 %% of the 3-call and 5 %% of the 4-call "
             "sequences; thorough: all 3-call, half of the 4-call ones) whose "
             "send_data is a response, b'' or None (target keeps silence and "
             "waits for the retransmission) x {no fault; at each call and "
             "each host command of that call (quick: first 3 and last 2): %d "
             "status codes at the RF commands, %d host-link faults (quick: "
             "half of them for 3+ calls); udp: %d datagram / socket events}. "
             "Oracle on EVERY call: bytes-like data / None or "
             "CommunicationError subclass or IOError; the faulted call also "
             "by the unambiguous-mapping table; calls before the fault, and "
             "after an RF status fault, return exactly the command the "
             "simulated initiator sent. Non-trivial = a faulted call that is "
             "followed by at least one more call."
             % (len(LISTEN_COMBOS), len(HIST_STATUS["pn53x"]),
                len(HIST_HOST), len(HIST_UDP))),
    Leg("race", run=dev_known(run_race), enum=enum_race, exhaustive=True,
        shards_quick=16, shards_thorough=16,
        rule="exchange() concurrent with close() / open() / __exit__() / "
             "another exchange() of other threads under the virtual "
             "scheduler: real driver over the simulated chip (quick: per "
             "driver one initiator-side and one listen-side kind chosen by "
             "the seed; thorough: all %d driver x kind combinations) x host "
             "link {working, unplugged after open = ENODEV everywhere} x %d "
             "fixed 2-3 thread programs x {default schedule, one forced "
             "switch to each thread at every scheduling point}; scheduling "
             "points are lock operations, thread start/exit and every frame "
             "written to / read from the host link. Oracle of the property "
             "on every exchange(): bytes-like data (None only on the listen "
             "side) or nfc.clf.CommunicationError subclass or IOError, and "
             "it returns. Non-trivial = a thread waited for the frontend "
             "lock while another one was inside a driver call."
             % (len(COMBOS), len(RACE_PROGRAMS))),
    Leg("race-random", run=dev_known(run_race_random),
        gen=lambda tier: _race_case, quick=1200, thorough=30000,
        shards_quick=8, shards_thorough=16, nt_floor=0.15,
        rule="the same with 2-3 random programs of 1-3 operations out of "
             "{exchange, close, open, __exit__, max_send_data_size} over a "
             "random driver x kind, working or unplugged link, and a random "
             "schedule choice list of up to 40 entries; same oracle and "
             "non-trivial rule."),
]

# the same searches under "python -O": a check of peer / device data that
# rests on an assert statement validates nothing there
_by = dict((lg.name, lg) for lg in LEGS)
LEGS += [
    twin_O(_by['status']),
    twin_O(_by['hostfault']),
    twin_O(_by['udp']),
]

# the same searches with every nfc logger enabled down to the lowest level
# (code that only runs, or only evaluates its arguments, when logging is on)
_byl = dict((lg.name, lg) for lg in LEGS)
LEGS += [twin_env(_byl[n], "log", {"VERIF_LOG": "debug"}, quick=q, thorough=t,
                  shards_quick=2)
         for n, q, t in [('mixed', 500, 5000)] if n in _byl]
