"""C19 - peer-to-peer activation negotiates limits both sides then obey.

Two complete stacks (ContactlessFrontend.connect(llcp=...)) are activated
against each other over SimAir under the virtual scheduler (vlib/p2p.Pair).
Every option combination is a case; after both connect() calls handed out
their LogicalLinkController the negotiated parameters of both sides are
compared with what the *other* side was told to announce, then traffic sized
to the limits (UI datagrams at MIU-1/MIU/MIU+1, optionally a SNEP put) is run
and every frame on the air is checked against the LR, the bit rate and the
LLCP MIU of its receiver.

legs
  grid     the complete grid role x brs x lri x lrt x rwt x miu(4 values each
           side) = 23040 activations (thorough; quick: sub-grid of 144),
           remaining parameters seeded
  pairwise seeded pairwise-covering arrays over role x brs x lri x lrt x rwt
           x miu(8 values, each side) x lto x agf x lsc x bound services,
           DID on every fifth row, with traffic
  random   Hypothesis over all of it, including omitted options (defaults),
           acm, traffic shapes and SNEP lengths
  lookups  small and asymmetric link MIUs; on BOTH sides several application
           threads call llc.resolve() at link-up for names of varied length
           (bound on the peer or unknown) in addition to the datagram
           traffic, so that service discovery responses and requests share
           SNL PDUs (also inside AGF PDUs) that must fit the receiver's MIU
  connections  data link connections set up WHILE near-MIU datagrams are
           pending: on either side connection-oriented sockets with generated
           options (receive window 0..15 - 0 = "accepts no I PDUs" -,
           SO_RCVMIU 128..2175) connect to / are accepted by listening
           sockets of the peer (by address or by service name), the caller
           having queued a datagram of (peer MIU - 0..20) octets just before
           connect() / right after accept(), from a socket whose address is
           below or above the connection's; one message each way over the
           connection where the receive windows allow it; with the usual
           datagram traffic

oracles
  activation-failed   both sides must get their controller (perfect medium)
  llcp-param          send-miu / recv-lto / send-wks / send-lsc of each side
                      equal the peer's option (and its recv-miu / send-lto)
  dep-param           initiator miu == LR(lrt)-3-[DID], target miu ==
                      LR(lri)-3-[DID], rwt == 4096/13.56e6*2^wt on both sides,
                      bit rate == the selected one
  announce            ATR_REQ/ATR_RES/PSL_REQ on the air carry the options
  frame-exceeds-lr    DEP frame transport data <= LR of the receiver
  chain-not-at-lr     a chained (MI) frame fills the receiver's LR exactly
  wrong-bitrate       every DEP frame is sent at the selected bit rate
  pdu-exceeds-miu     information field of every LLCP PDU (also inside AGF)
                      <= link MIU announced by its receiver
"""
import itertools
import random as _random
import struct

from hypothesis import strategies as st

import nfc
import nfc.clf
import nfc.dep
import nfc.llcp
import nfc.llcp.llc
import nfc.snep

from vlib import deppair as dp
from vlib import udpair
from vlib import vsched
from vlib import ref_llcp as ref
from vlib.engine import Leg, Violation, derive_seed, unexpected, twin_env

PROPERTY = "C19"
LEVEL = "exploration"
ASSUMPTIONS = [
    "SimAir is a perfect medium here (no faults); passive communication "
    "mode only, discovery always starts at 106A (sense_tta finds the "
    "listener first), so brs > 0 always means a PSL exchange",
    "option values are taken from the documented ranges (brs 0-2, lri/lrt "
    "0-3, rwt 0-14, miu 128..2175, lto multiples of 10 ms up to 2550, lsc "
    "0-3); None = option omitted (documented / constructor default)",
    "connect() does not pass a DID; the DID dimension uses an on-startup "
    "callback returning a LogicalLinkController subclass whose activate() "
    "adds did=N to the options of nfc.dep.Initiator.activate",
    "LLCP secure data transfer is unreachable (no OpenSSL in the sandbox)",
    "link survival is not judged: with lto < 60 ms nfcpy's own 50 ms idle "
    "delay ends the link after ten SYMM rounds; traffic seen until then is "
    "checked",
    "link survival is not judged either when the target's response waiting "
    "time (rwt 0..3: 0.3 - 2.4 ms) is shorter than the time the simulated "
    "target takes to answer a long frame: the initiator then ends the link "
    "with ATN / DSL_REQ; the connections leg therefore uses rwt >= 4",
    "reference LLCP decoder vlib/ref_llcp.py; NFC-DEP framing per "
    "vlib/deppair.parse (independent reading)",
]

# development aid ("oracle|cls|exc"); MUST be empty in the final module
EXCLUDE_CLASSES = set()

DEFAULTS = {"brs": 2, "lri": 3, "lrt": 3, "rwt": 8, "miu": 248, "lto": 500,
            "lsc": 3, "agf": True}
MIUS = [128, 129, 248, 255, 256, 1000, 2174, 2175]
MIUS4 = [128, 248, 1000, 2175]
LTOS = [10, 100, 500, 1000, 2550]
KEYS = ("brs", "lri", "lrt", "rwt", "miu", "lto", "lsc", "agf")
ROLES = {"fixed": ("initiator", "target"), "i-auto": (None, "target"),
         "t-auto": ("initiator", None)}
RX_SAP = 33


def setup():
    vsched.patch_nfc()


def eff(case, side, key):
    v = case[side].get(key)
    return DEFAULTS[key] if v is None else v


def other(side):
    return "t" if side == "i" else "i"


class DidLLC(nfc.llcp.llc.LogicalLinkController):
    """hands a DID to nfc.dep.Initiator.activate (connect() has no option
    for it); nfc.dep.Target.activate ignores the keyword"""
    did = None

    def activate(self, mac, **options):
        if isinstance(mac, nfc.dep.Initiator):
            options["did"] = self.did
        return super(DidLLC, self).activate(mac, **options)


class PutServer(nfc.snep.SnepServer):
    def __init__(self, llc, sink):
        nfc.snep.SnepServer.__init__(self, llc)
        self.sink = sink

    def process_put_request(self, ndef_message):
        self.sink.append(sum(len(r.data) for r in ndef_message))
        return nfc.snep.Success


def ndef_octets(n):
    """one NDEF record (TNF unknown, long form) with an n byte payload"""
    return bytes([0xC5, 0x00]) + struct.pack(">L", n) + bytes(
        (i * 7 + 1) & 0xFF for i in range(n))


# -------------------------------------------------------------- execution
def execute(case):
    did = case.get("did")
    o = {"snap": {}, "ui": {"i": [], "t": []}, "rx": {"i": [], "t": []},
         "notes": [], "snep": None, "put": [], "exc": {}, "result": {},
         "resolved": {"i": [], "t": []}, "dlc": []}
    conns = case.get("dlc", [])
    opts = {}
    for side in ("i", "t"):
        opts[side] = {k: v for k, v in case[side].items()
                      if k in KEYS and v is not None}
        if case[side].get("acm") is not None:
            opts[side]["acm"] = case[side]["acm"]
    pair = dp.Pair((), seed=case.get("seed", 0), opts_i=opts["i"],
                   opts_t=opts["t"], step_budget=150000,
                   medium=udpair.frontends if case.get("medium") == "udp"
                   else None)
    o["busy"] = False
    try:
        s = pair.sched
        cv = vsched.VCondition()
        running = {"n": 0}
        ri, rt = ROLES[case.get("role", "fixed")]
        pair.opts["i"]["role"] = ri
        pair.opts["t"]["role"] = rt
        socks, servers = {}, {}

        def startup(side):
            def fn(llc):
                if did is not None:
                    llc = DidLLC(**pair.opts[side])
                    llc.did = did
                for name in case["svc"][side]:
                    if name == "snep":
                        servers[side] = PutServer(llc, o["put"])
                    else:
                        sk = nfc.llcp.Socket(llc, nfc.llcp.LOGICAL_DATA_LINK)
                        sk.bind("urn:nfc:sn:" + name)
                rx = nfc.llcp.Socket(llc, nfc.llcp.LOGICAL_DATA_LINK)
                rx.bind(RX_SAP)
                socks[side] = rx
                # a socket that exists before the link is up and is bound
                # only when it is first used
                socks[(side, "early")] = nfc.llcp.Socket(
                    llc, nfc.llcp.LOGICAL_DATA_LINK)
                for k, e in enumerate(conns):
                    if other(e["client"]) != side:
                        continue
                    # the listening socket of connection k and the datagram
                    # socket its acceptor sends from
                    srv = nfc.llcp.Socket(llc, nfc.llcp.DATA_LINK_CONNECTION)
                    srv.setsockopt(nfc.llcp.SO_RCVMIU, e["s_miu"])
                    srv.setsockopt(nfc.llcp.SO_RCVBUF, e["s_rw"])
                    srv.bind(e["s_sap"] if e["s_sap"] is not None
                             else "urn:nfc:sn:c%d" % k)
                    srv.listen(1)
                    dl = nfc.llcp.Socket(llc, nfc.llcp.LOGICAL_DATA_LINK)
                    dl.bind(e["s_ui_sap"])
                    socks[(side, k)] = (srv, dl)
                return llc
            return fn

        def done():
            with cv:
                running["n"] -= 1
                cv.notify_all()

        def guarded(fn):
            def run():
                try:
                    fn()
                except (vsched.Abort, vsched.StepBudget):
                    raise
                except nfc.llcp.Error as e:
                    o["notes"].append("llcp-error:%s" % e.errno)
                except nfc.snep.SnepError as e:
                    o["notes"].append("snep-error:%r" % (e,))
                except Exception as e:      # not judged here (C09/C06)
                    o["notes"].append("app-exception:" + type(e).__name__)
                finally:
                    done()
            return run

        def sender(side, llc):
            def fn():
                peer_miu = eff(case, other(side), "miu")
                # (every other case sends from the socket made at startup)
                if case.get("seed", 0) & 1 and (side, "early") in socks:
                    tx = socks[(side, "early")]
                else:
                    tx = nfc.llcp.Socket(llc, nfc.llcp.LOGICAL_DATA_LINK)
                # several small datagrams pending at once: with aggregation
                # they travel in one AGF PDU that must respect the peer's MIU
                for n in burst_sizes(case, side, peer_miu):
                    try:
                        tx.sendto(bytes(n), RX_SAP, nfc.llcp.MSG_DONTWAIT)
                    except nfc.llcp.Error as e:
                        o["notes"].append("burst-error:%s" % e.errno)
                for who, base, delta in case["ui"]:
                    if who != side:
                        continue
                    n = max(0, base * peer_miu + delta)
                    data = bytes((side == "t") * 128 + (j & 127)
                                 for j in range(n))
                    try:
                        ok = tx.sendto(data, RX_SAP)
                    except nfc.llcp.Error as e:
                        o["ui"][side].append((n, "E%d" % e.errno))
                        if n <= peer_miu:
                            break
                        continue
                    o["ui"][side].append((n, ok))
                snep = case.get("snep")
                if snep and snep[0] == side:
                    client = nfc.snep.SnepClient(llc)
                    o["snep"] = client.put_octets(ndef_octets(snep[1]),
                                                  timeout=2.0)
            return fn

        def near_miu(side, dl, d, tag):
            """queue a datagram of (peer MIU - d) octets without waiting"""
            if d is None:
                return
            n = max(0, eff(case, other(side), "miu") - d)
            try:
                dl.sendto(bytes(n), RX_SAP, nfc.llcp.MSG_DONTWAIT)
                o["dlc"].append([tag, n])
            except nfc.llcp.Error as e:
                o["notes"].append("near-miu-error:%s" % e.errno)

        def talk(sk, first, own_rw, peer_rw, n):
            """one message each way where the receive windows allow it; the
            acceptor answers, it does not send first (C05's business)"""
            size = min(n, sk.getsockopt(nfc.llcp.SO_SNDMIU))
            if first and peer_rw > 0:
                sk.send(bytes(size))
            if own_rw > 0:
                got = sk.recv()
                o["dlc"].append(["recv", None if got is None else len(got)])
            if not first and peer_rw > 0:
                sk.send(bytes(size))

        def dlc_client(side, llc, k, e):
            def fn():
                dl = nfc.llcp.Socket(llc, nfc.llcp.LOGICAL_DATA_LINK)
                dl.bind(e["c_ui_sap"])
                sk = nfc.llcp.Socket(llc, nfc.llcp.DATA_LINK_CONNECTION)
                sk.setsockopt(nfc.llcp.SO_RCVMIU, e["c_miu"])
                sk.setsockopt(nfc.llcp.SO_RCVBUF, e["c_rw"])
                sk.bind(e["c_sap"])
                # the datagram is pending when the CONNECT PDU is queued
                near_miu(side, dl, e["c_ui"], "ui-before-connect")
                sk.connect(e["s_sap"] if e["s_sap"] is not None
                           else "urn:nfc:sn:c%d" % k)
                o["dlc"].append(["connected", k])
                near_miu(side, dl, e["c_ui2"], "ui-after-connect")
                if e["talk"]:
                    talk(sk, True, e["c_rw"], e["s_rw"], e["msg"])
                if e["close"]:
                    sk.close()
            return fn

        def dlc_server(side, llc, k, e):
            def fn():
                srv, dl = socks[(side, k)]
                near_miu(side, dl, e["s_ui0"], "ui-before-accept")
                conn = srv.accept()
                o["dlc"].append(["accepted", k])
                # the CC PDU is queued: a datagram joins it
                near_miu(side, dl, e["s_ui"], "ui-after-accept")
                if e["talk"]:
                    talk(conn, False, e["s_rw"], e["c_rw"], e["msg"])
            return fn

        def resolver(side, llc, name):
            def fn():
                o["resolved"][side].append([name, llc.resolve(name)])
            return fn

        def receiver(side):
            def fn():
                try:
                    while True:
                        data, sap = socks[side].recvfrom()
                        if data is None:
                            break
                        o["rx"][side].append(len(data))
                except (vsched.Abort, vsched.StepBudget):
                    raise
                except Exception as e:      # link gone; not judged here
                    o["notes"].append("rx-ended:" + type(e).__name__)
            return fn

        def on_connect(side):
            def fn(llc):
                mac = llc.mac
                o["snap"][side] = {
                    "cfg": dict(llc.cfg),
                    "role": "initiator" if isinstance(
                        mac, nfc.dep.Initiator) else "target",
                    "miu": mac.miu, "rwt": mac.rwt, "did": mac.did,
                    "brty": mac.target.brty, "t": s.now}
                if side in servers:
                    servers[side].start()
                with cv:
                    running["n"] += 1
                    cv.notify_all()
                # name lookups outstanding while the traffic runs: started
                # first, so that they are pending in the first collect cycles
                for k, name in enumerate(case.get("lookups", {}).get(side, [])):
                    with cv:
                        running["n"] += 1
                    s.spawn(guarded(resolver(side, llc, name)),
                            "sdp-%s%d" % (side, k))
                for k, e in enumerate(conns):
                    body = dlc_client if e["client"] == side else dlc_server
                    with cv:
                        running["n"] += 1
                    s.spawn(guarded(body(side, llc, k, e)),
                            "dlc-%s%d" % (side, k))
                s.spawn(guarded(sender(side, llc)), "tx-" + side)
                s.spawn(receiver(side), "rx-" + side)
            return fn

        for side in ("i", "t"):
            pair.opts[side]["on-startup"] = startup(side)
            pair.on_connect[side] = on_connect(side)
        pair.start()

        def wait(pred, limit):
            end = s.now + limit
            with cv:
                while not pred() and s.now < end:
                    if not cv.wait(end - s.now):
                        break
            return pred()

        try:
            wait(lambda: len(o["snap"]) == 2 or pair.exc, 8.0)
            if len(o["snap"]) == 2:
                wait(lambda: running["n"] == 0 or pair.exc, 6.0)
                # let queued datagrams drain through the run loops
                s.sleep(0.08)
            o["traffic_done"] = running["n"] == 0
            pair.terminate["i"] = pair.terminate["t"] = lambda: True
            end = s.now + 8.0
            while s.now < end and not all(
                    x in pair.result or x in pair.exc for x in ("i", "t")):
                s.sleep(0.25)
        except vsched.StepBudget:
            o["busy"] = True
        o["connected"] = sorted(o["snap"])
        o.setdefault("traffic_done", False)
        o["exc"] = dict(pair.exc)
        o["result"] = dict(pair.result)
        o["log"] = [dict(e) for e in pair.air.log]
        o["vtime"] = s.now
    finally:
        pair.close()
    return o


# ------------------------------------------------------------------ judge
class Excluded(Exception):
    pass


def flag(ctx, cls, v):
    ctx.set_class(cls)
    key = "%s|%s|%s" % (v.oracle, cls, v.exc or "")
    if key in EXCLUDE_CLASSES:
        ctx.label("excluded-class:" + key)
        raise Excluded()
    raise v


def rwt_of(wt):
    return 4096 / 13.56E6 * 2 ** min(wt, 14)


def burst_sizes(case, side, peer_miu):
    """2..7 datagrams of 1/5 .. 1/2 of the peer's MIU, a function of the case
    seed (so every leg, also the grid, has them)"""
    x = (case.get("seed", 0) * 2654435761 + (side == "t") * 40503) & 0xFFFFFFFF
    k = 2 + x % 6
    return [max(1, peer_miu // (2 + (x >> (4 + 3 * j)) % 4) - (x >> j) % 3)
            for j in range(k)]


def pdu_infos(raw):
    """[(type, information field length)] of a top-level PDU and, for an
    AGF, of every aggregated PDU"""
    out = []
    try:
        p = ref.decode(raw)
    except ref.RefReject as r:
        return [("undecodable:" + r.reason, len(raw) - 2)]
    out.append((p["type"], ref.info_len(raw)))
    if p["type"] == "AGF":
        pos = 2
        while pos + 2 <= len(raw):
            ln = struct.unpack_from(">H", raw, pos)[0]
            sub = raw[pos + 2:pos + 2 + ln]
            if len(sub) >= 2:
                try:
                    name = ref.decode(sub)["type"]
                except ref.RefReject as r:
                    name = "undecodable:" + r.reason
                out.append(("AGF/" + name, ref.info_len(sub)))
            pos += 2 + ln
    return out


def conn_pdus(raw):
    """the CONNECT and CC PDUs (reference decoder's dicts) in a top-level PDU
    (the PDU itself or aggregated in an AGF)"""
    try:
        p = ref.decode(raw)
    except ref.RefReject:
        return []
    return [q for q in (p["pdus"] if p["type"] == "AGF" else [p])
            if q["type"] in ("CONNECT", "CC")]


def snl_shapes(raw):
    """[(responses, requests)] of every SNL PDU in a top-level PDU (the PDU
    itself or aggregated in an AGF)"""
    try:
        p = ref.decode(raw)
    except ref.RefReject:
        return []
    return [(len(q["sdres"]), len(q["sdreq"]))
            for q in (p["pdus"] if p["type"] == "AGF" else [p])
            if q["type"] == "SNL"]


def judge(case, ctx):
    did = case.get("did")
    base = "did" if did is not None else "nodid"
    ctx.set_class(base)
    o = execute(case)
    snap = o["snap"]
    ctx.label("role=" + case.get("role", "fixed"), base,
              "snep" if case.get("snep") else "nosnep")
    try:
        for side in ("i", "t"):
            e = o["exc"].get(side)
            if e is not None:
                flag(ctx, base, unexpected(
                    e, detail="connect() on side %s" % side))
        if o["busy"]:
            flag(ctx, base, Violation(
                "no-termination", "scheduler step budget exhausted at %.3f s "
                "virtual time: a thread loops without waiting" % o["vtime"]))
        if len(snap) != 2:
            flag(ctx, base, Violation(
                "activation-failed", "controllers handed out on sides %r "
                "after %.1f s virtual time over a perfect medium"
                % (o["connected"], o["vtime"])))
        roles = {snap[x]["role"]: x for x in snap}
        if sorted(roles) != ["initiator", "target"]:
            flag(ctx, base, Violation("activation-failed",
                                      "roles %r" % {x: snap[x]["role"]
                                                    for x in snap}))
        I, T = roles["initiator"], roles["target"]
        brs, lri = eff(case, I, "brs"), eff(case, I, "lri")
        lrt, wt = eff(case, T, "lrt"), eff(case, T, "rwt")
        ctx.label("brs=%d" % brs, "lri=%d" % lri, "lrt=%d" % lrt)
        differ = (eff(case, "i", "miu") != eff(case, "t", "miu") or lri != lrt
                  or eff(case, "i", "lto") != eff(case, "t", "lto"))
        if (differ or brs > 0) and not case.get("lookups_leg") and \
                not case.get("dlc_leg"):
            ctx.nontrivial()        # (lookups / connections: own rules)

        # --- LLCP parameters
        for a in ("i", "t"):
            b = other(a)
            cfg = snap[a]["cfg"]
            wks = 0x0003 | (0x0010 if "snep" in case["svc"][b] else 0)
            want = {"send-miu": eff(case, b, "miu"),
                    "recv-lto": eff(case, b, "lto"),
                    "send-lsc": eff(case, b, "lsc"),
                    "send-wks": wks,
                    "recv-miu": eff(case, a, "miu"),
                    "send-lto": eff(case, a, "lto"),
                    "send-agf": eff(case, a, "agf")}
            for k in sorted(want):
                if cfg.get(k) != want[k]:
                    flag(ctx, base, Violation(
                        "llcp-param", "side %s (%s): cfg[%r] = %r, the peer "
                        "was configured to announce / local option is %r"
                        % (a, snap[a]["role"], k, cfg.get(k), want[k])))
            if cfg["send-miu"] != snap[b]["cfg"]["recv-miu"] or \
                    cfg["recv-lto"] != snap[b]["cfg"]["send-lto"]:
                flag(ctx, base, Violation(
                    "llcp-param", "side %s send-miu/recv-lto %r/%r vs peer "
                    "recv-miu/send-lto %r/%r" % (
                        a, cfg["send-miu"], cfg["recv-lto"],
                        snap[b]["cfg"]["recv-miu"],
                        snap[b]["cfg"]["send-lto"])))

        # --- NFC-DEP parameters
        nd = int(did is not None)
        want_i = dp.LR[lrt] - 3 - nd
        want_t = dp.LR[lri] - 3 - nd
        if snap[I]["miu"] != want_i:
            flag(ctx, base + "/initiator", Violation(
                "dep-param", "initiator miu %r, target announced LR %d -> %d"
                % (snap[I]["miu"], dp.LR[lrt], want_i)))
        if snap[T]["miu"] != want_t:
            flag(ctx, base + "/target", Violation(
                "dep-param", "target miu %r, initiator announced LR %d%s -> "
                "%d" % (snap[T]["miu"], dp.LR[lri],
                        " and DID" if nd else "", want_t)))
        for x in (I, T):
            if abs(snap[x]["rwt"] - rwt_of(wt)) > 1e-12:
                flag(ctx, base, Violation(
                    "dep-param", "%s rwt %r, wt=%d -> %r"
                    % (snap[x]["role"], snap[x]["rwt"], wt, rwt_of(wt))))
            if snap[x]["brty"] != dp.BRTY[brs]:
                flag(ctx, base, Violation(
                    "dep-param", "%s runs at %s, selected brs=%d (%s)"
                    % (snap[x]["role"], snap[x]["brty"], brs, dp.BRTY[brs])))
        if snap[I]["did"] != did or snap[T]["did"] != did:
            flag(ctx, base, Violation(
                "dep-param", "DID %r: initiator %r target %r"
                % (did, snap[I]["did"], snap[T]["did"])))

        # --- the air
        atr_req = atr_res = psl = None
        buf = {"I>T": b"", "T>I": b""}
        limit_lr = {"I>T": dp.LR[lrt], "T>I": dp.LR[lri]}
        limit_miu = {"I>T": eff(case, T, "miu"), "T>I": eff(case, I, "miu")}
        seen = {"chain": 0, "dep": 0, "pdu": 0, "at-miu": 0, "agf": 0,
                "snl": 0, "snl-res+req": 0, "snl-near-miu": 0,
                "conn": 0, "conn-rw0": 0, "agf-conn": 0, "agf-conn-tight": 0}
        for e in o["log"]:
            f = dp.parse(e["brty"], e["data"])
            if f["code"] in ("ATR", "PSL"):
                a = dp.parse_activation(e["brty"], e["data"])
                if a and a["pdu"] == "ATR_REQ":
                    atr_req, atr_res, psl = a, None, None
                elif a and a["pdu"] == "ATR_RES":
                    atr_res = a
                elif a and a["pdu"] == "PSL_REQ":
                    psl = a
                continue
            if f["code"] != "DEP":
                continue
            seen["dep"] += 1
            d = e["dir"]
            if e["brty"] != dp.BRTY[brs]:
                flag(ctx, base, Violation(
                    "wrong-bitrate", "frame %d %s sent at %s, selected %s"
                    % (e["n"], d, e["brty"], dp.BRTY[brs])))
            if not f["ok"] or f["len"] > 255 or f["tlen"] > limit_lr[d]:
                flag(ctx, "%s/%s" % (base, d), Violation(
                    "frame-exceeds-lr", "frame %d %s %s: LEN %r, %d transport "
                    "data bytes, receiver announced LR %d"
                    % (e["n"], d, f["kind"], f["len"], f["tlen"],
                       limit_lr[d])))
            if f["kind"] == "I++":
                seen["chain"] += 1
                if f["tlen"] != limit_lr[d]:
                    flag(ctx, "%s/%s" % (base, d), Violation(
                        "chain-not-at-lr", "frame %d %s: chained frame with "
                        "%d transport data bytes, receiver announced LR %d"
                        % (e["n"], d, f["tlen"], limit_lr[d])))
            if f["kind"] in ("INF", "I++"):
                buf[d] += f["inf"]
                if f["kind"] == "INF":
                    raw, buf[d] = buf[d], b""
                    for nres, nreq in snl_shapes(raw):
                        seen["snl"] += 1
                        seen["snl-res+req"] += bool(nres and nreq)
                    infos = pdu_infos(raw)
                    setup = [x for x in infos
                             if x[0] in ("AGF/CONNECT", "AGF/CC")]
                    if setup:
                        # a connection is set up in an aggregated frame
                        seen["agf-conn"] += 1
                        seen["agf-conn-tight"] += \
                            infos[0][1] >= limit_miu[d] - 3
                    for q in conn_pdus(raw):
                        seen["conn"] += 1
                        seen["conn-rw0"] += q["rw"] == 0
                    for name, n in infos:
                        seen["pdu"] += 1
                        seen["snl-near-miu"] += name.endswith("SNL") and \
                            limit_miu[d] - 40 <= n <= limit_miu[d]
                        seen["agf"] += name.startswith("AGF/")
                        seen["at-miu"] += n == limit_miu[d]
                        if n > limit_miu[d]:
                            flag(ctx, "%s/%s" % (base, name), Violation(
                                "pdu-exceeds-miu", "%s %s PDU with %d byte "
                                "information field, receiver announced MIU "
                                "%d" % (d, name, n, limit_miu[d])))
        if atr_req is None or atr_res is None:
            flag(ctx, base, Violation("announce", "no ATR exchange on the "
                                                  "air"))
        bad = []
        if atr_req["lr"] != lri:
            bad.append("ATR_REQ LRi %d, option lri %d" % (atr_req["lr"], lri))
        if atr_res["lr"] != lrt:
            bad.append("ATR_RES LRt %d, option lrt %d" % (atr_res["lr"], lrt))
        if atr_res["wt"] != wt:
            bad.append("ATR_RES WT %d, option rwt %d" % (atr_res["wt"], wt))
        if atr_req["did"] != (did or 0):
            bad.append("ATR_REQ DID %d, option %r" % (atr_req["did"], did))
        if brs > 0 and (psl is None or psl["dsi"] != brs or psl["dri"] != brs):
            bad.append("PSL_REQ %r, option brs %d" % (psl, brs))
        if brs == 0 and psl is not None:
            bad.append("PSL_REQ %r although brs 0" % (psl,))
        for who, a, side in (("ATR_REQ", atr_req, I), ("ATR_RES", atr_res, T)):
            gb = bytes(a["gb"])
            if gb[:3] != b"Ffm":
                bad.append("%s general bytes %s" % (who, gb.hex()))
                continue
            pax = ref.decode(b"\x00\x40" + gb[3:])
            miu = 128 + (pax["miux"] or 0)
            lto = 10 * (pax["lto"] if pax["lto"] is not None else 10)
            lsc = (pax["opt"] or 0) & 3
            if (miu, lto, lsc) != (eff(case, side, "miu"),
                                   eff(case, side, "lto"),
                                   eff(case, side, "lsc")):
                bad.append("%s announces miu/lto/lsc %r, options %r" % (
                    who, (miu, lto, lsc), (eff(case, side, "miu"),
                                           eff(case, side, "lto"),
                                           eff(case, side, "lsc"))))
        if bad:
            flag(ctx, base, Violation("announce", "; ".join(bad)))

        for k in ("chain", "at-miu", "agf", "snl-res+req", "snl-near-miu",
                  "conn", "conn-rw0", "agf-conn", "agf-conn-tight"):
            if seen[k]:
                ctx.label("seen:" + k)
        if case.get("dlc_leg"):
            # the connections leg: a CONNECT / CC PDU shared an AGF PDU
            if seen["agf-conn"]:
                ctx.nontrivial()
            done = [x[0] for x in o["dlc"]]
            ctx.label("connections:%d-of-%d-established" % (
                done.count("connected"), len(case["dlc"])))
        if case.get("lookups"):
            # the lookups leg: responses and requests shared an SNL PDU
            nlook = sum(len(v) for v in case["lookups"].values())
            if len(o["resolved"]["i"]) + len(o["resolved"]["t"]) < nlook:
                ctx.label("lookups-unfinished")
            if seen["snl-res+req"] and case.get("lookups_leg"):
                ctx.nontrivial()
        if o["snep"]:
            ctx.label("snep-put-ok")
        # the sending limit of a datagram socket IS the peer's receive MIU:
        # a datagram of that size is taken, one octet more is refused
        import errno as _errno
        for side in ("i", "t"):
            peer_miu = eff(case, other(side), "miu")
            for n, res in o["ui"][side]:
                if res == "E%d" % _errno.EMSGSIZE and n <= peer_miu:
                    flag(ctx, base, Violation(
                        "send-limit-below-announced-miu", "%s: sendto() of "
                        "%d octets refused with EMSGSIZE, the peer announced "
                        "a receive MIU of %d" % (side, n, peer_miu)))
                if res is True and n > peer_miu:
                    flag(ctx, base, Violation(
                        "send-limit-above-announced-miu", "%s: sendto() of "
                        "%d octets accepted, the peer announced a receive "
                        "MIU of %d" % (side, n, peer_miu)))
        if not o["traffic_done"]:
            ctx.label("traffic-unfinished")
        for n in sorted(set(o["notes"])):
            ctx.label(n)
        ctx.note({"roles": {x: snap[x]["role"] for x in snap},
                  "send-miu": {x: snap[x]["cfg"]["send-miu"] for x in snap},
                  "dep-miu": {x: snap[x]["miu"] for x in snap},
                  "frames": seen["dep"], "pdus": seen["pdu"],
                  "chained": seen["chain"], "pdus-at-miu": seen["at-miu"],
                  "ui": {x: [list(y) for y in o["ui"][x]] for x in o["ui"]},
                  "rx": o["rx"], "snep": o["snep"], "put": o["put"],
                  "snl": [seen["snl"], seen["snl-res+req"],
                          seen["snl-near-miu"]],
                  "resolved": {x: len(o["resolved"][x]) for x in ("i", "t")},
                  "dlc": o["dlc"][:12],
                  "conn-pdus": [seen["conn"], seen["conn-rw0"],
                                seen["agf-conn"], seen["agf-conn-tight"]],
                  "vtime": round(o["vtime"], 3)})
    except Excluded:
        return


def run(case, ctx):
    judge(case, ctx)


# ------------------------------------------------------------- generators
def optional(s):
    return st.one_of(s, s, s, st.none())


def st_side():
    return st.fixed_dictionaries({
        "brs": optional(st.integers(0, 2)),
        "lri": optional(st.integers(0, 3)),
        "lrt": optional(st.integers(0, 3)),
        "rwt": optional(st.integers(0, 14)),
        "miu": optional(st.one_of(st.sampled_from(MIUS),
                                  st.integers(128, 2175))),
        "lto": optional(st.sampled_from(LTOS + [20, 60, 250])),
        "lsc": optional(st.integers(0, 3)),
        "agf": optional(st.booleans()),
        "acm": st.one_of(st.none(), st.booleans()),
    })


UI_SHAPES = [[1, 0], [1, -1], [1, 1], [0, 1], [0, 0], [0, 100], [1, -3]]


@st.composite
def st_case(draw):
    svc = {x: draw(st.lists(st.sampled_from(["snep", "x", "y.z"]),
                            unique=True, max_size=3)) for x in ("i", "t")}
    ui = draw(st.lists(st.tuples(st.sampled_from(["i", "t"]),
                                 st.sampled_from(UI_SHAPES)).map(
        lambda p: [p[0], p[1][0], p[1][1]]), max_size=6))
    snep = None
    if draw(st.integers(0, 2)) == 0:
        client = draw(st.sampled_from(["i", "t"]))
        if "snep" not in svc[other(client)]:
            svc[other(client)].append("snep")
        snep = [client, draw(st.one_of(st.integers(0, 300),
                                       st.integers(0, 3000)))]
    return {"i": draw(st_side()), "t": draw(st_side()),
            "role": draw(st.sampled_from(["fixed", "fixed", "i-auto",
                                          "t-auto"])),
            "did": draw(st.one_of(st.none(), st.none(), st.none(),
                                  st.integers(1, 14))),
            "svc": svc, "ui": ui, "snep": snep,
            "seed": draw(st.integers(0, 0xFFFF))}


SMALL_MIUS = [128, 128, 129, 131, 140, 160, 200, 248]


@st.composite
def st_lookup_case(draw):
    """st_case with small, asymmetric MIUs and name lookups on both sides"""
    case = draw(st_case())
    case["i"]["miu"] = draw(st.one_of(st.sampled_from(SMALL_MIUS),
                                      st.sampled_from(MIUS)))
    case["t"]["miu"] = draw(st.one_of(st.sampled_from(SMALL_MIUS),
                                      st.sampled_from(SMALL_MIUS),
                                      st.sampled_from(MIUS)))
    if draw(st.booleans()):
        case["snep"] = None         # keep most of the air time for SNL PDUs
    lookups = {}
    for side in ("i", "t"):
        known = ["urn:nfc:sn:" + n for n in case["svc"][other(side)]]
        name = st.one_of(
            st.tuples(st.integers(0, 47), st.integers(0, 25)).map(
                lambda t: "urn:nfc:sn:" + "abcdefghijklmnopqrstuvwxyz"[
                    t[1]] * t[0]),
            st.tuples(st.integers(1, 60), st.integers(0, 25)).map(
                lambda t: "nopqrstuvwxyzabcdefghijklm"[t[1]] * t[0]),
            *([st.sampled_from(known)] if known else []))
        lookups[side] = draw(st.lists(name, min_size=1, max_size=9))
    case["lookups"] = lookups
    case["lookups_leg"] = True
    return case


def conn_tlvs(miu, rw, named):
    """octets of parameters a CONNECT / CC PDU carries for these socket
    options (MIUX TLV unless 128, RW TLV unless 1, SN TLV when by name)"""
    return (4 if miu > 128 else 0) + (3 if rw != 1 else 0) + \
        (2 + len("urn:nfc:sn:c0") if named else 0)


@st.composite
def st_dlc_case(draw):
    """st_case with aggregation mostly on and 1..3 data link connections set
    up while near-MIU datagrams are pending"""
    case = draw(st_case())
    for side in ("i", "t"):
        case[side]["agf"] = draw(st.sampled_from([True, True, None, False]))
        # the link has to live long enough for the connections (link
        # survival with lto < 60 ms / a response waiting time below the
        # target's processing time is not judged, see ASSUMPTIONS)
        if case[side]["lto"] is not None and case[side]["lto"] < 100:
            case[side]["lto"] = 100
        if case[side]["rwt"] is not None and case[side]["rwt"] < 4:
            case[side]["rwt"] += 4
    if draw(st.booleans()):
        case["snep"] = None
    case["ui"] = case["ui"][:3]
    rw = st.one_of(st.sampled_from([0, 0, 1, 2, 15]), st.integers(0, 15))
    miu = st.one_of(st.sampled_from([128, 128, 129, 248, 2175]),
                    st.integers(128, 2175))
    saps = {x: draw(st.permutations(list(range(40, 64)))) for x in ("i", "t")}
    conns = []
    for k in range(draw(st.integers(1, 3))):
        client = draw(st.sampled_from(["i", "t"]))
        server = other(client)
        named = draw(st.booleans())
        e = {"client": client,
             "c_rw": draw(rw), "c_miu": draw(miu),
             "s_rw": draw(rw), "s_miu": draw(miu),
             "c_sap": saps[client].pop(), "c_ui_sap": saps[client].pop(),
             "s_sap": None if named else saps[server].pop(),
             "s_ui_sap": saps[server].pop(),
             "talk": draw(st.booleans()), "close": draw(st.booleans()),
             "msg": draw(st.one_of(st.integers(0, 140),
                                   st.integers(0, 2200)))}
        # datagram sizes: the peer's MIU minus 0..12 octets, or minus the
        # room an aggregated CONNECT / CC PDU with these options needs
        # (AGF length prefixes, header, parameter TLVs) -6 .. +6
        eff_miu = {x: min(e[x + "_miu"], eff(case, c, "miu"))
                   for x, c in (("c", client), ("s", server))}
        c_need = conn_tlvs(eff_miu["c"], e["c_rw"], named)
        s_need = conn_tlvs(eff_miu["s"], e["s_rw"], False)

        def delta(need):
            return st.one_of(st.integers(0, 12),
                             st.integers(need, need + 12))
        e["c_ui"] = draw(st.one_of(delta(c_need), delta(c_need), st.none()))
        e["s_ui"] = draw(st.one_of(delta(s_need), delta(s_need), st.none()))
        e["c_ui2"] = draw(st.one_of(st.none(), st.none(), delta(0)))
        e["s_ui0"] = draw(st.one_of(st.none(), st.none(), delta(0)))
        conns.append(e)
    case["dlc"] = conns
    case["dlc_leg"] = True
    return case


# ---------------------------------------------------------------- the grid
GRID_PARAMS = [
    ("i.brs", [0, 1, 2]), ("i.lri", [0, 1, 2, 3]), ("t.lrt", [0, 1, 2, 3]),
    ("t.rwt", list(range(15))), ("i.miu", MIUS), ("t.miu", MIUS),
    ("i.lto", LTOS), ("t.lto", LTOS), ("i.agf", [True, False]),
    ("t.agf", [True, False]), ("i.lsc", [0, 1, 2, 3]),
    ("t.lsc", [0, 1, 2, 3]),
    ("role", ["fixed", "i-auto", "t-auto"]),
    ("i.snep", [False, True]), ("t.snep", [False, True]),
]


def grid_case(values, rng, traffic):
    """values: dict name -> value for (a subset of) GRID_PARAMS"""
    def pick(name, dom):
        return values[name] if name in values else rng.choice(dom)
    v = {name: pick(name, dom) for name, dom in GRID_PARAMS}
    case = {"i": {}, "t": {}}
    for side in ("i", "t"):
        for k, dom in (("brs", 3), ("lri", 4), ("lrt", 4), ("rwt", 15)):
            case[side][k] = v.get("%s.%s" % (side, k), rng.randrange(dom))
        for k in ("miu", "lto", "agf", "lsc"):
            case[side][k] = v["%s.%s" % (side, k)]
    case["role"] = v["role"]
    # DID is kept out of the covering array (1 row in 5, seeded)
    case["did"] = rng.choice([1, 7, 14]) if rng.random() < 0.2 else None
    case["svc"] = {x: (["snep"] if v[x + ".snep"] else []) +
                   (["x"] if rng.random() < 0.3 else []) for x in ("i", "t")}
    case["ui"] = [["i", 1, 0], ["t", 1, 0]]
    case["snep"] = None
    if traffic:
        case["ui"] += [["i", 1, 1], ["t", 1, -1], ["t", 0, 1]]
        servers = [x for x in ("i", "t") if v[x + ".snep"]]
        if servers:
            srv = rng.choice(servers)
            n = 2 * case[srv]["miu"] + 10
            case["snep"] = [other(srv), n if n < 900 else 300]
    case["seed"] = rng.randrange(0x10000)
    return case


def pairwise_rows(rng):
    """greedy seeded covering array: every value pair of every two grid
    parameters occurs in at least one row"""
    names = [n for n, _ in GRID_PARAMS]
    doms = dict(GRID_PARAMS)
    todo = set()
    for a, b in itertools.combinations(range(len(names)), 2):
        for x in range(len(doms[names[a]])):
            for y in range(len(doms[names[b]])):
                todo.add((a, x, b, y))
    rows = []
    while todo:
        best, best_cov = None, -1
        seed_pair = min(todo)
        for _ in range(24):
            idx = [rng.randrange(len(doms[n])) for n in names]
            idx[seed_pair[0]], idx[seed_pair[2]] = seed_pair[1], seed_pair[3]
            cov = sum(1 for a, b in itertools.combinations(
                range(len(names)), 2) if (a, idx[a], b, idx[b]) in todo)
            if cov > best_cov:
                best, best_cov = idx, cov
        for a, b in itertools.combinations(range(len(names)), 2):
            todo.discard((a, best[a], b, best[b]))
        rows.append({n: doms[n][best[i]] for i, n in enumerate(names)})
    return rows


def enum_pairwise(tier, seed):
    rng = _random.Random(derive_seed(seed, PROPERTY, "pairwise"))
    for _ in range(2 if tier == "quick" else 6):   # independent arrays
        for row in pairwise_rows(rng):
            yield grid_case(row, rng, traffic=True)


def enum_udp_grid(tier, seed):
    """the grid over the library's real udp driver on both sides"""
    for case in enum_grid(tier, seed) if tier == "quick" else \
            itertools.islice(enum_grid(tier, seed), 0, None, 7):
        yield dict(case, medium="udp")


def enum_grid(tier, seed):
    rng = _random.Random(derive_seed(seed, PROPERTY, "grid", tier))
    if tier == "quick":
        axes = (["fixed"], range(3), range(4), range(4), [0, 8, 14], [248],
                [248])
    else:
        axes = (["fixed", "i-auto"], range(3), range(4), range(4), range(15),
                MIUS4, MIUS4)
    for role, brs, lri, lrt, rwt, mi, mt in itertools.product(*axes):
        yield grid_case({"role": role, "i.brs": brs, "i.lri": lri,
                         "t.lrt": lrt, "t.rwt": rwt, "i.miu": mi,
                         "t.miu": mt}, rng, traffic=False)


LEGS = [
    Leg("grid", run=run, enum=enum_grid, exhaustive=True, shards_quick=4,
        shards_thorough=16,
        rule="complete grid; thorough: role{fixed, i-auto} x brs x lri x lrt "
             "x rwt 0..14 x miu{128,248,1000,2175}^2 = 23040 activations, "
             "quick: the sub-grid brs x lri x lrt x rwt{0,8,14} = 144; the "
             "remaining parameters (lto, agf, lsc, services, DID on every "
             "fifth point) are seeded; one MIU-sized datagram each way; "
             "non-trivial = sides differ in miu, lr or lto, or brs > 0."),
    Leg("udp-grid", run=run, enum=enum_udp_grid, exhaustive=True,
        shards_quick=4, shards_thorough=16,
        rule="the grid of leg grid (quick: all 144 points, thorough: every "
             "7th of the 23040) with the library's real udp driver on both "
             "sides (vlib/udpair.py stands in for socket / select): the "
             "driver's own ATR / PSL handling and bit rate switch decide "
             "what is negotiated; same judge, the air log is the datagram "
             "log."),
    Leg("pairwise", run=run, enum=enum_pairwise, exhaustive=False,
        shards_quick=8, shards_thorough=8,
        rule="greedy seeded pairwise-covering arrays (2 quick / 6 thorough) "
             "over role(3) x brs x lri x lrt x rwt(15) x miu(8, each side) x "
             "lto(5, each side) x agf x lsc(4) (each side) x SNEP service "
             "bound (each side), DID {1, 7, 14} on every fifth row, with UI "
             "datagrams at MIU-1/MIU/MIU+1 and a SNEP put; same rule."),
    Leg("random", run=run, gen=lambda tier: st_case(), quick=1200,
        thorough=16000, shards_quick=8, shards_thorough=16, nt_floor=0.5,
        rule="Hypothesis: every option present or omitted (defaults), miu "
             "128..2175, acm, roles fixed/auto, DID none/1..14, bound "
             "services, <= 6 datagrams around the peer's MIU, SNEP put of "
             "0..3000 bytes; same non-trivial rule."),
    Leg("lookups", run=run, gen=lambda tier: st_lookup_case(), quick=400,
        thorough=8000, shards_quick=8, shards_thorough=16, nt_floor=0.3,
        rule="the random leg's cases with link MIUs mostly 128..248 and "
             "asymmetric, and on both sides 1..9 application threads that "
             "call llc.resolve() at link-up (service names bound on the peer, "
             "unknown urn:nfc:sn: names of 11..58 characters, unknown short "
             "and long names of 1..60 characters) while the datagram / SNEP "
             "traffic runs, so that lookups are outstanding in both "
             "directions in the same collect cycles; all oracles as before, "
             "in particular every SNL PDU and every AGF PDU <= the "
             "receiver's MIU; non-trivial = at least one SNL PDU on the air "
             "carried responses and requests together."),
    Leg("connections", run=run, gen=lambda tier: st_dlc_case(), quick=500,
        thorough=10000, shards_quick=8, shards_thorough=16, nt_floor=0.3,
        rule="the random leg's cases (aggregation mostly on, lto >= 100 ms, "
             "rwt >= 4 so that the link outlives the set-up) with 1..3 data "
             "link connections set up right after link-up, client on either "
             "side (so both NFC-DEP roles connect and accept): socket options "
             "receive window 0..15 (0 and 1 weighted up) and SO_RCVMIU "
             "128..2175 on the connecting and on the listening socket, the "
             "listener addressed by SAP (40..63) or by service name, the "
             "sockets bound to generated distinct addresses 40..63 so that "
             "the datagram socket comes before or after the connection's in "
             "the send order; a datagram of (peer MIU - d) octets, d in 0..12 "
             "or around the room the CONNECT / CC parameters take, is queued "
             "just before connect() / right after accept() returned (and "
             "optionally after connect / before accept), then optionally one "
             "message each way over the connection where the receive windows "
             "allow it, optionally close; all oracles as before, in "
             "particular every PDU and every AGF PDU <= the receiver's MIU; "
             "non-trivial = a CONNECT or CC PDU travelled inside an AGF PDU."),
]

# the same searches with every nfc logger enabled down to the lowest level
# (code that only runs, or only evaluates its arguments, when logging is on)
_byl = dict((lg.name, lg) for lg in LEGS)
LEGS += [twin_env(_byl[n], "log", {"VERIF_LOG": "debug"}, quick=q, thorough=t,
                  shards_quick=2)
         for n, q, t in [('random', 100, 1000)] if n in _byl]
