"""C01 - NDEF write then read round-trips on every tag type and layout.

legs: t1t, t2t, t3t, t3e (library's Type3TagEmulation is the tag), t4t; plus
`lengths`: every message length 0..cap+1 for a fixed set of small layouts
(bounded exhaustive).

Oracle per case (layout, old message, new length):
 1. the tag activates and tag.ndef exists (layouts are well formed)
 2. reported capacity <= true capacity of the layout (independent model)
 3. the old message written by the reference writer is what the library reads
 4. L <= reported capacity: assignment raises nothing; a FRESH frontend and
    activation read exactly the new octets (length too), and the independent
    reference reader decodes the same octets from the raw memory image
 5. L = capacity+1: ValueError and not a single command reached the tag
"""
from hypothesis import strategies as st

import nfc.tag

from vlib.engine import Leg, Violation, unexpected
from props import tagcommon as tc

PROPERTY = "C01"
LEVEL = "exploration"
ASSUMPTIONS = [
    "tag simulators (vlib/simtags.py, vlib/isodep_card.py) and the layout "
    "model vlib/ref_tlv.py are faithful to the NFC Forum tag specifications",
    "layouts never put reserved bytes on TLV tag/length bytes up to and "
    "including the NDEF TLV's four header bytes (the quantifier's exclusion); "
    "control TLVs only reserve bytes behind themselves",
    "Type 4 Tag uses short-length APDUs only (no extended length support in "
    "the library); FeliCa Lite personalities are covered by C20/C16",
]


def case_strategy(desc):
    return st.fixed_dictionaries({
        "tag": desc, "old": tc.len_spec(False), "old_seed": st.integers(0, 255),
        "new": tc.len_spec(True), "new_seed": st.integers(0, 255)})


def nontrivial(b, desc, L, cap):
    if L == 0:
        return False
    k = desc["kind"]
    if L >= 255 or L >= cap - 1:
        return True
    if k in ("t1t", "t2t"):
        off = b.info["tlv_off"]
        span = range(off, off + L + 12)
        if any(a in b.info["reserved"] for a in span):
            return True
        return L > 1000
    if k in ("t3t", "t3e"):
        return desc["nmaxb"] > 255 or L > 16 * desc["nbw"]
    if k == "t4t":
        nl = 4 if desc["ver"] >> 4 == 3 else 2
        fsc = (16, 24, 32, 40, 48, 64, 96, 128, 256)[desc["fsci"]]
        return L + nl > desc["mlc"] or fsc < min(L, desc["mlc"]) + 8
    return False


def input_class(desc, L, cap):
    k = tc.classify(desc)
    if desc["kind"] in ("t1t", "t2t") and L == 0:
        return k + "/len=0"
    if desc["kind"] == "t4t":
        if desc["ver"] == 0x30 and desc["fsize"] > 0xFFFF:
            return "t4t/v3/file>64k"
        if desc["mle"] > 256 and desc["mlc"] > 255:
            return k + "/mle>256,mlc>255"
        if desc["mle"] > 256:
            return k + "/mle>256"
        if desc["mlc"] > 255:
            return k + "/mlc>255"
    return k


def run(case, ctx):
    desc = case["tag"]
    b = tc.build(desc, case["old"], case["old_seed"])
    if b is None:
        ctx.label("layout-without-room")
        return
    kind = tc.classify(desc)
    ctx.label(kind)
    ctx.set_class(input_class(desc, -1, b.cap))
    try:
        clf, tag = tc.activate(b)
    except Exception as e:
        raise unexpected(e, "activation-raises")
    if tag is None:
        raise Violation("activation-failed", repr(desc))
    try:
        ndef = tag.ndef
    except Exception as e:
        raise unexpected(e, "ndef-read-raises")
    if ndef is None:
        raise Violation("ndef-not-found", "%r" % (desc,))
    cap = ndef.capacity
    if cap > b.cap:
        raise Violation("capacity-overreported",
                        "reported %d, layout holds %d: %r" % (cap, b.cap, desc))
    if cap < b.cap:
        ctx.label("capacity-underreported")
    if not ndef.is_writeable:
        raise Violation("not-writeable", repr(desc))
    if ndef.octets != b.old or ndef.length != len(b.old):
        raise Violation("initial-read-mismatch",
                        "reference wrote %d bytes, library read %d: %r"
                        % (len(b.old), ndef.length, desc))
    L = tc.resolve_len(case["new"], cap)
    data = tc.message(L, case["new_seed"])
    ctx.set_class(input_class(desc, L, cap))
    n0 = clf.device.exchanges
    if L > cap:
        ctx.label("over-capacity")
        try:
            ndef.octets = data
        except ValueError:
            pass
        except Exception as e:
            raise unexpected(e, "oversize-wrong-exception")
        else:
            raise Violation("oversize-accepted", "L=%d cap=%d" % (L, cap))
        if clf.device.exchanges != n0:
            raise Violation("oversize-sent-commands",
                            "%d commands" % (clf.device.exchanges - n0))
        ctx.nontrivial()
        return
    if nontrivial(b, desc, L, cap):
        ctx.nontrivial()
    if L == 0:
        ctx.label("len=0")
    if L >= 255:
        ctx.label("len>=255")
    if L == cap:
        ctx.label("len=cap")
    try:
        ndef.octets = data
    except Exception as e:
        raise unexpected(e, "write-raises",
                         detail="L=%d cap=%d %r" % (L, cap, desc))
    if getattr(b.tag, "exc", None) is not None:
        raise unexpected(b.tag.exc, "emulation-raises")
    try:
        clf2, tag2 = tc.activate(b)
        ndef2 = tag2.ndef if tag2 is not None else None
    except Exception as e:
        raise unexpected(e, "fresh-read-raises")
    if ndef2 is None:
        raise Violation("fresh-read-none", "after writing %d bytes: %r"
                        % (L, desc))
    got = ndef2.octets
    if got != data or ndef2.length != L:
        raise Violation("roundtrip-mismatch", "wrote %d bytes, fresh reader "
                        "got %d (first diff at %s): %r"
                        % (L, len(got), _firstdiff(got, data), desc))
    ref = b.ref_read()
    if ref != data:
        raise Violation("reference-reader-disagrees",
                        "wrote %d bytes, reference reads %s: %r"
                        % (L, "None" if ref is None else len(ref), desc))
    ctx.note({"capacity": cap, "true_capacity": b.cap, "L": L,
              "commands": clf.device.exchanges})


def _firstdiff(a, b):
    for i, (x, y) in enumerate(zip(a, b)):
        if x != y:
            return i
    return min(len(a), len(b))


# bounded exhaustive: all lengths for a few small layouts ----------------------
SMALL = [
    {"kind": "t2t", "size": 6, "extra": 0, "ctrl": [], "nulls": 0,
     "filler": 0},
    {"kind": "t2t", "size": 12, "extra": 8, "nulls": 1, "filler": 0xFF,
     "ctrl": [{"t": 2, "page": 2, "offs": 8, "size": 5, "bpp": 4},
              {"t": 1, "page": 7, "offs": 0, "size": 12, "bpp": 4}]},
    {"kind": "t2t", "size": 36, "extra": 4, "nulls": 0, "filler": 0,
     "ctrl": [{"t": 1, "page": 11, "offs": 8, "size": 40, "bpp": 4}]},
    {"kind": "t1t", "size": 14, "extra": 0, "hr1": 0x48, "ctrl": [],
     "nulls": 0, "filler": 0},
    {"kind": "t1t", "size": 40, "extra": 0, "hr1": 0, "nulls": 2,
     "filler": 0x5A,
     "ctrl": [{"t": 2, "page": 9, "offs": 3, "size": 7, "bpp": 4}]},
    {"kind": "t3t", "ver": 0x10, "nbr": 3, "nbw": 2, "nmaxb": 18,
     "phys_extra": 1, "nbr_extra": 0, "nbw_extra": 0, "filler": 0},
    {"kind": "t3e", "ver": 0x10, "nbr": 4, "nbw": 3, "nmaxb": 17,
     "phys_extra": 0, "nbr_extra": 0, "nbw_extra": 0, "filler": 0xFF},
    {"kind": "t4t", "tech": "A", "ver": 0x20, "mle": 40, "mlc": 30,
     "fsize": 280, "phys_extra": 8, "fsci": 2, "fwi": 4, "chunk": 11,
     "wtx": 0, "max_send": 290, "max_recv": 290, "filler": 0},
    {"kind": "t4t", "tech": "B", "ver": 0x30, "mle": 255, "mlc": 255,
     "fsize": 300, "phys_extra": 8, "fsci": 8, "fwi": 4, "chunk": None,
     "wtx": 1, "max_send": 290, "max_recv": 290, "filler": 0xFF},
]


def enum_lengths(tier, seed):
    layouts = SMALL if tier == "thorough" else SMALL[::2]
    for desc in layouts:
        b = tc.build(desc)
        for L in range(0, b.cap + 2):
            yield {"tag": desc, "old": ["abs", (L * 7) % (b.cap + 1)],
                   "old_seed": L & 255, "new": ["abs", L],
                   "new_seed": (L * 3) & 255}


def _leg(name, desc, quick, thorough):
    return Leg(name, run=run, gen=lambda tier: case_strategy(desc),
               quick=quick, thorough=thorough, shards_quick=3,
               shards_thorough=16, nt_floor=0.15,
               rule="constructed %s layouts/configurations x old message x "
                    "new length from {0,1,253..256,cap-3..cap+1} u uniform; "
                    "non-trivial = L>0 and (reserved range inside/adjacent to "
                    "the value, L>=255, L>=cap-1, >1 KiB, Nmaxb>255, chained "
                    "UPDATE BINARY, FSC smaller than the APDU) or the "
                    "capacity+1 rejection; distinct by case hash." % name)


LEGS = [
    _leg("t2t", st.one_of(tc.t2t_desc(), tc.t2t_desc(), tc.t2t_desc(),
                          tc.t2t_room()), 2400, 40000),
    _leg("t1t", st.one_of(tc.t1t_desc(), tc.t1t_desc(), tc.t1t_desc(),
                          tc.t1t_room()), 1800, 30000),
    _leg("t3t", tc.t3t_desc("t3t"), 1500, 30000),
    _leg("t3e", tc.t3t_desc("t3e"), 1200, 20000),
    _leg("t4t", tc.t4t_desc(), 1500, 30000),
    Leg("lengths", run=run, enum=enum_lengths, exhaustive=True,
        shards_quick=4, shards_thorough=16,
        rule="every message length 0..capacity+1 on fixed small layouts of "
             "each tag type (5 layouts quick, 9 thorough)."),
]
