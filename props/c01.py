"""C01 - NDEF write then read round-trips on every tag type and layout.

legs: t1t, t2t, t3t, t3e (library's Type3TagEmulation is the tag), t4t; plus
`t2t-sectors`: Type 2 Tags of more than one 1 KiB sector whose control TLVs
reserve ranges near / across the sector boundaries, message lengths derived
from the layout (ending around every reserved range, sector boundary and the
end of the data area) - see run_sectors; plus
`lengths`: every message length 0..cap+1 for a fixed set of small layouts
(bounded exhaustive); plus `history`: several operations on ONE tag object
(read, has_changed, assignments, repeated assignments, format), any of them
with a communication fault at a command position, judged against a model of
the tag content - see run_history; plus `t4t-fault` / `t4t-fault-enum`: the
Type 4 round trip with ONE lost or corrupted ISO-DEP block (either direction)
at a block position of the assignment or of the fresh read - see run_t4fault.

Oracle per case (layout, old message, new length):
 1. the tag activates and tag.ndef exists (layouts are well formed)
 2. reported capacity <= true capacity of the layout (independent model)
 3. the old message written by the reference writer is what the library reads
 4. L <= reported capacity: assignment raises nothing; a FRESH frontend and
    activation read exactly the new octets (length too), and the independent
    reference reader decodes the same octets from the raw memory image
 5. L = capacity+1: ValueError and not a single command reached the tag
"""
from hypothesis import strategies as st

import nfc.tag

from vlib import tagdev
from vlib.engine import Leg, Violation, unexpected, twin_env
from props import tagcommon as tc

PROPERTY = "C01"
LEVEL = "exploration"
ASSUMPTIONS = [
    "tag simulators (vlib/simtags.py, vlib/isodep_card.py) and the layout "
    "model vlib/ref_tlv.py are faithful to the NFC Forum tag specifications",
    "layouts never put reserved bytes on TLV tag/length bytes up to and "
    "including the NDEF TLV's four header bytes (the quantifier's exclusion); "
    "control TLVs only reserve bytes behind themselves",
    "Type 4 Tag uses short-length APDUs only (no extended length support in "
    "the library); FeliCa Lite personalities are covered by C20/C16",
    "history leg: faults are never injected on the second packet of the "
    "Type 2 SECTOR SELECT (acknowledged by silence, same exemption as C16); "
    "a Type 4 history ends after the first operation that met an injected "
    "fault (that operation is still judged) because the ISO-DEP session "
    "state after a given-up APDU is the known finding "
    "C12-no-resync-after-error; a history ends when format() raised (the "
    "management data may be half rewritten, not a well-formed layout); the "
    "fresh activation reads a copy of the tag's persistent memory so that "
    "the session of the tag object under test is not disturbed",
    "t4t-fault legs: one fault per case, injected after activation: the "
    "reader's block is lost (a corrupted reader block is ignored by the card, "
    "same thing), the card's block is lost, or the card's block is corrupted "
    "(reader sees a transmission error); FWI <= 11 so that the library's own "
    "retry policy (min(int(1/FWT), 5) >= 1) admits one retransmission; an "
    "assignment that raises nfc.tag.TagCommandError and a fresh tag.ndef that "
    "is None under the fault are accepted here (whether a recoverable fault "
    "must be absorbed is C12 / C16), everything that RETURNS is judged by the "
    "round trip oracle",
]


def case_strategy(desc):
    return st.fixed_dictionaries({
        "tag": desc, "old": tc.len_spec(False), "old_seed": st.integers(0, 255),
        "new": tc.len_spec(True), "new_seed": st.integers(0, 255)})


def t3t_big_case():
    """Type 3 Tags whose NDEF area goes beyond 64 KiB (Nmaxb >= 4097: the
    24 bit Ln needs its top byte) with lengths around 65536"""
    desc = st.fixed_dictionaries({
        "kind": st.just("t3t"), "ver": st.just(0x10),
        "nbr": st.sampled_from([12, 15]), "nbw": st.sampled_from([8, 12]),
        "nmaxb": st.sampled_from([4096, 4097, 4100, 4200]),
        "phys_extra": st.just(0), "nbr_extra": st.just(0),
        "nbw_extra": st.just(0), "filler": st.sampled_from([0x00, 0xA5])})
    ln = st.sampled_from([["abs", 65535], ["abs", 65536], ["abs", 65537],
                          ["abs", 65600], ["cap", 0], ["abs", 300]])
    return st.fixed_dictionaries({
        "tag": desc, "old": ln, "old_seed": st.integers(0, 255),
        "new": ln, "new_seed": st.integers(0, 255)})


def nontrivial(b, desc, L, cap):
    if L == 0:
        return False
    k = desc["kind"]
    if L >= 255 or L >= cap - 1:
        return True
    if k in ("t1t", "t2t"):
        off = b.info["tlv_off"]
        span = range(off, off + L + 12)
        if any(a in b.info["reserved"] for a in span):
            return True
        return L > 1000
    if k in ("t3t", "t3e"):
        return desc["nmaxb"] > 255 or L > 16 * desc["nbw"]
    if k == "t4t":
        nl = 4 if desc["ver"] >> 4 == 3 else 2
        fsc = (16, 24, 32, 40, 48, 64, 96, 128, 256)[desc["fsci"]]
        return L + nl > desc["mlc"] or fsc < min(L, desc["mlc"]) + 8
    return False


def input_class(desc, L, cap):
    k = tc.classify(desc)
    if desc["kind"] in ("t1t", "t2t") and L == 0:
        return k + "/len=0"
    if desc["kind"] == "t4t":
        if desc["ver"] == 0x30 and desc["fsize"] > 0xFFFF:
            return "t4t/v3/file>64k"
        if desc["mle"] > 256 and desc["mlc"] > 255:
            return k + "/mle>256,mlc>255"
        if desc["mle"] > 256:
            return k + "/mle>256"
        if desc["mlc"] > 255:
            return k + "/mlc>255"
    return k


def run(case, ctx, nontrivial=nontrivial):
    desc = case["tag"]
    b = tc.build(desc, case["old"], case["old_seed"])
    if b is None:
        ctx.label("layout-without-room")
        return
    kind = tc.classify(desc)
    ctx.label(kind)
    ctx.set_class(input_class(desc, -1, b.cap))
    try:
        clf, tag = tc.activate(b)
    except Exception as e:
        raise unexpected(e, "activation-raises")
    if tag is None:
        raise Violation("activation-failed", repr(desc))
    try:
        ndef = tag.ndef
    except Exception as e:
        raise unexpected(e, "ndef-read-raises")
    if ndef is None:
        raise Violation("ndef-not-found", "%r" % (desc,))
    cap = ndef.capacity
    if cap > b.cap:
        raise Violation("capacity-overreported",
                        "reported %d, layout holds %d: %r" % (cap, b.cap, desc))
    if cap < b.cap:
        ctx.label("capacity-underreported")
    if not ndef.is_writeable:
        raise Violation("not-writeable", repr(desc))
    if ndef.octets != b.old or ndef.length != len(b.old):
        raise Violation("initial-read-mismatch",
                        "reference wrote %d bytes, library read %d: %r"
                        % (len(b.old), ndef.length, desc))
    L = tc.resolve_len(case["new"], cap)
    data = tc.message(L, case["new_seed"])
    ctx.set_class(input_class(desc, L, cap))
    n0 = clf.device.exchanges
    if L > cap:
        ctx.label("over-capacity")
        try:
            ndef.octets = data
        except ValueError:
            pass
        except Exception as e:
            raise unexpected(e, "oversize-wrong-exception")
        else:
            raise Violation("oversize-accepted", "L=%d cap=%d" % (L, cap))
        if clf.device.exchanges != n0:
            raise Violation("oversize-sent-commands",
                            "%d commands" % (clf.device.exchanges - n0))
        ctx.nontrivial()
        return
    if nontrivial(b, desc, L, cap):
        ctx.nontrivial()
    if L == 0:
        ctx.label("len=0")
    if L >= 255:
        ctx.label("len>=255")
    if L == cap:
        ctx.label("len=cap")
    if desc["kind"] == "t4t":
        # exchanges this write legitimately needs: one UPDATE BINARY per MLc
        # bytes, each chained over FSC-3 byte blocks, plus WTX rounds and
        # chunked answers; histories beyond the device budget are skipped
        fsc = (16, 24, 32, 40, 48, 64, 96, 128, 256)[min(desc["fsci"], 8)]
        mlc = max(1, min(desc["mlc"], 255))
        per_cmd = -(-(mlc + 7) // max(1, fsc - 3)) + desc.get("wtx", 0) + 4
        if (L // mlc + 4) * per_cmd > clf.device.budget // 2:
            ctx.label("skipped:write-longer-than-command-budget")
            return
    try:
        # documented: bytes or bytearray; both forms are exercised
        ndef.octets = bytearray(data) if len(data) & 1 else data
    except tagdev.BudgetExceeded:
        raise Violation("unbounded-commands", "writing %d bytes took more "
                        "than %d commands: %r" % (L, clf.device.budget, desc))
    except Exception as e:
        raise unexpected(e, "write-raises",
                         detail="L=%d cap=%d %r" % (L, cap, desc))
    if getattr(b.tag, "exc", None) is not None:
        raise unexpected(b.tag.exc, "emulation-raises")
    try:
        clf2, tag2 = tc.activate(b)
        ndef2 = tag2.ndef if tag2 is not None else None
    except Exception as e:
        raise unexpected(e, "fresh-read-raises")
    if ndef2 is None:
        raise Violation("fresh-read-none", "after writing %d bytes: %r"
                        % (L, desc))
    got = ndef2.octets
    if got != data or ndef2.length != L:
        raise Violation("roundtrip-mismatch", "wrote %d bytes, fresh reader "
                        "got %d (first diff at %s): %r"
                        % (L, len(got), _firstdiff(got, data), desc))
    ref = b.ref_read()
    if ref != data:
        raise Violation("reference-reader-disagrees",
                        "wrote %d bytes, reference reads %s: %r"
                        % (L, "None" if ref is None else len(ref), desc))
    ctx.note({"capacity": cap, "true_capacity": b.cap, "L": L,
              "commands": clf.device.exchanges})


def _firstdiff(a, b):
    for i, (x, y) in enumerate(zip(a, b)):
        if x != y:
            return i
    return min(len(a), len(b))


# Type 2 Tags of more than one sector, lengths relative to the layout ----------
def _spec(spec, info, cap):
    """["anchor", i, d] -> ["abs", length] (see tc.anchor_len), others as is"""
    if spec[0] == "anchor":
        return ["abs", tc.anchor_len(info, cap, spec[1], spec[2])]
    return spec


def _tlv_span(info, L):
    """first and last address the NDEF TLV of an L byte message occupies,
    the terminator TLV behind it included when there is room for one"""
    avail = info["avail"]
    n = (2 if L < 255 else 4) + L
    return avail[0], avail[min(n, len(avail) - 1)]


def nontrivial_sectors(b, desc, L, cap):
    if L == 0:
        return False
    first, last = _tlv_span(b.info, L)
    return any(first < a <= last + 16 for a in tc.layout_anchors(b.info))


def run_sectors(case, ctx):
    """Oracle: run() unchanged (C01 round trip).  The old and the new message
    length may be given relative to the layout: ["anchor", i, d] = the NDEF
    TLV ends d available bytes behind the i-th anchor (border of a reserved
    range, sector boundary, end of the data area) of the layout."""
    desc = case["tag"]
    probe = tc.build(desc)
    if probe is None:
        ctx.label("layout-without-room")
        return
    info, cap = probe.info, probe.cap
    rsvd, end = info["reserved"], info["data_end"]
    old, new = _spec(case["old"], info, cap), _spec(case["new"], info, cap)
    ctx.label("sectors=%d" % (-(-info["phys"] // tc.T2_SECTOR)))
    ctx.label("data-area-ends:" + (
        "sector-0" if end < 1024 else "at-1024" if end == 1024 else
        "sector-1" if end < 2048 else "at-2048" if end == 2048
        else "sector-2"))
    L = tc.resolve_len(new, cap)
    for k in (1, 2):
        s = k * tc.T2_SECTOR
        if info["tlv_off"] < s < end and s in rsvd and (s - 1) in rsvd:
            ctx.label("reserved-range-across-boundary-%d" % s)
            if L and _tlv_span(info, min(L, cap))[1] > s:
                ctx.label("message-continues-behind-range-across-%d" % s)
                r0 = s
                while (r0 - 1) in rsvd:
                    r0 -= 1
                if r0 <= s - 16:
                    ctx.label("message-jumps-from-sector-%d-to-%d" % (k - 1, k))
    if L and 0 < L <= cap:
        last = _tlv_span(info, L)[1]
        ctx.label("message-ends-in-sector-%d" % (last // tc.T2_SECTOR))
    run(dict(case, old=old, new=new), ctx, nontrivial_sectors)


def sectors_strategy(tier):
    def length(over, share):
        # 1 of ``share`` from the t2t leg's length set, the others anchored
        # (weights through sampled_from: one_of flattens and drops repeats)
        anchor = st.tuples(st.just("anchor"), st.integers(0, 15), st.one_of(
            st.integers(-3, 3), st.integers(-20, 20)))
        return st.sampled_from([0] + [1] * (share - 1)).flatmap(
            lambda k: anchor if k else tc.len_spec(over))
    return st.fixed_dictionaries({
        "tag": tc.t2t_sector_desc(),
        "old": length(False, 2), "old_seed": st.integers(0, 255),
        "new": length(True, 4), "new_seed": st.integers(0, 255)})


# histories on one tag object --------------------------------------------------
class _Model(object):
    """what C01 promises along a history.  ``expected`` is the message the tag
    holds as far as the model knows (None = not known), ``exact`` says that
    tag object and tag are in a state the property speaks about: the last
    thing that happened was a verified assignment (or nothing happened yet)
    and no operation raised since."""

    def __init__(self, b, desc, ctx):
        self.b, self.desc, self.ctx = b, desc, ctx
        self.expected, self.exact = b.old, True
        self.attempts = 0           # assignments / formats tried so far
        self.verified = 0
        self.after_trouble = 0      # verified after an earlier raise/format
        self.trouble = False

    def before(self, i, op, tag):
        pass

    def after(self, i, op, out):
        r = self._after(i, op, out)
        if r is None and tc.session_undefined(self.b, out):
            self.ctx.label("history-ends:t4t-fault")
            return "stop"
        return r

    def _after(self, i, op, out):
        name, st_ = out["op"], out["status"]
        ctx, desc = self.ctx, self.desc
        ctx.label("%s:%s" % (name, st_))
        if out.get("again"):
            ctx.label("write-again:%s" % st_)
        clean = out["hits"] == 0
        if st_ == "oversize-accepted":
            raise Violation("oversize-accepted", "op %d: %d bytes, capacity "
                            "%d" % (i, len(out.get("data", b"")), out["cap"]))
        if st_ == "oversize":
            if out["oversize_commands"]:
                raise Violation("oversize-sent-commands", "op %d: %d commands"
                                % (i, out["oversize_commands"]))
            return
        if st_ == "skipped":
            if clean and self.exact:
                raise Violation("ndef-not-found", "op %d (%s) found no "
                                "writeable ndef although nothing went wrong "
                                "before: %r" % (i, name, desc))
            self.exact = False          # an error was swallowed by tag.ndef
            return
        if name == "write":
            self._capacity(i, out)
        if st_ == "error":
            if clean and self.exact:
                raise unexpected(out["error"], name + "-raises",
                                 detail="op %d, no fault injected" % i)
            self.exact = False
            self.trouble = True
            if name in ("write", "format"):
                self.expected = None
                self.attempts += 1
            if name == "write" and out["hits"] and op["fault"][3] == "rsp":
                # the tag may have executed a write command whose response
                # the reader never saw (coverage label only)
                ctx.label("assignment-raised:write-response-lost")
            if name == "format":
                # the management data may be half rewritten: not a layout
                # the property quantifies over
                ctx.label("history-ends:format-raised")
                return "stop"
            return
        if name in ("read", "changed") and out["result"] is None and \
                not clean:
            self.exact = False          # an error was swallowed by tag.ndef
        elif name == "read":
            if clean and self.exact and out["result"] != self.expected:
                raise Violation("read-mismatch", "op %d: tag object reports "
                                "%s, tag holds %d bytes: %r"
                                % (i, _len(out["result"]), len(self.expected),
                                   desc))
        elif name == "changed":
            if clean and self.exact and (out["changed"] or
                                         out["result"] != self.expected):
                raise Violation("has-changed-after-verified-write",
                                "op %d: has_changed=%r, octets %s, tag holds "
                                "%d bytes: %r" % (i, out["changed"],
                                                  _len(out["result"]),
                                                  len(self.expected), desc))
        elif name == "format":
            self.attempts += 1
            if out["result"] is None and out["exchanges"] == 0:
                return                  # not supported, nothing was sent
            self.expected, self.exact = None, False
            if out["result"] is True:
                self.trouble = True
        else:
            self._verify(i, out)

    def _capacity(self, i, out):
        area = tc.current_area(self.b)
        if area is not None and out["cap"] > area[1]:
            raise Violation("capacity-overreported", "op %d: reported %d, "
                            "layout holds %d: %r" % (i, out["cap"], area[1],
                                                     self.desc))

    def _verify(self, i, out):
        """an assignment returned: a fresh activation must read the octets"""
        data, desc = out["data"], self.desc
        L = len(data)
        try:
            c = tc.clone(self.b)
            clf2, tag2 = tc.activate(c)
            ndef2 = tag2.ndef if tag2 is not None else None
        except Exception as e:
            raise unexpected(e, "fresh-read-raises")
        if ndef2 is None:
            raise Violation("fresh-read-none", "op %d: after writing %d "
                            "bytes: %r" % (i, L, desc))
        got = ndef2.octets
        if got != data or ndef2.length != L:
            raise Violation("roundtrip-mismatch", "op %d: wrote %d bytes, "
                            "fresh reader got %d (first diff at %s): %r"
                            % (i, L, len(got), _firstdiff(got, data), desc))
        ref = self.b.ref_read()
        if ref != data:
            raise Violation("reference-reader-disagrees",
                            "op %d: wrote %d bytes, reference reads %s: %r"
                            % (i, L, _len(ref), desc))
        self.verified += 1
        if self.attempts and L > 0:
            self.ctx.nontrivial()
        if self.trouble:
            self.after_trouble += 1
            self.ctx.label("verified-after-raise-or-format")
        self.attempts += 1
        self.expected, self.exact = data, True


def _len(x):
    return "None" if x is None else "%d bytes" % len(x)


def run_history(case, ctx):
    """Oracle along the history (model in _Model): every assignment that
    RETURNED (with or without injected faults, after whatever happened
    before on this tag object) is followed by a fresh activation of a copy of
    the tag memory, which must read exactly the assigned octets, and the
    reference reader must agree.  While nothing has gone wrong since the
    last verified assignment: tag.ndef reports the model's octets,
    has_changed is False, an assignment without injected fault does not
    raise.  Always: reported capacity <= true capacity of the layout the tag
    holds now; over-capacity data raises ValueError without any command.
    Operations with an injected fault may raise nfc.tag.TagCommandError and
    nothing else."""
    desc = case["tag"]
    b = tc.build(desc, case["old"], case["old_seed"])
    if b is None:
        ctx.label("layout-without-room")
        return
    ctx.label(tc.classify(desc))
    ctx.set_class("history/" + input_class(desc, -1, b.cap))
    m = _Model(b, desc, ctx)
    counts = tc.rehearse(desc, case["old"], case["old_seed"], case["ops"])
    tc.play(b, case["ops"], m, counts)
    ctx.note({"verified": m.verified, "after_trouble": m.after_trouble})


# Type 4 round trip under one survivable ISO-DEP fault -------------------------
T4FAULTS = {"LC": ("timeout", "cmd"), "LR": ("timeout", "rsp"),
            "CR": ("transmission", "rsp")}
FSC = (16, 24, 32, 40, 48, 64, 96, 128, 256)


def _t4_write_cost(desc, L, budget):
    """exchanges a write of L bytes legitimately needs (as in run)"""
    fsc = FSC[min(desc["fsci"], 8)]
    mlc = max(1, min(desc["mlc"], 255))
    per_cmd = -(-(mlc + 7) // max(1, fsc - 3)) + desc.get("wtx", 0) + 4
    return (L // mlc + 4) * per_cmd > budget // 2


def _t4_start(desc, old, old_seed):
    """built tag, activated, tag.ndef read -> (b, clf, ndef)"""
    b = tc.build(desc, old, old_seed)
    try:
        clf, tag = tc.activate(b)
    except Exception as e:
        raise unexpected(e, "activation-raises")
    if tag is None:
        raise Violation("activation-failed", repr(desc))
    try:
        ndef = tag.ndef
    except Exception as e:
        raise unexpected(e, "ndef-read-raises")
    if ndef is None:
        raise Violation("ndef-not-found", "%r" % (desc,))
    return b, clf, ndef


def _t4_fresh(b, fault=None):
    """fresh activation of the tag, then tag.ndef with an optional fault
    (k, kind) at the k-th block exchange that follows the activation
    -> (ndef or None, device, number of exchanges of tag.ndef)"""
    try:
        clf2, tag2 = tc.activate(b)
        if tag2 is None:
            raise Violation("activation-failed", repr(b.desc))
        dev = clf2.device
        base = dev.exchanges
        if fault is not None:
            dev.script = {base + 1 + fault[0]: T4FAULTS[fault[1]]}
        ndef2 = tag2.ndef
        dev.script = {}
    except tagdev.BudgetExceeded:
        raise Violation("unbounded-commands", "fresh read: %r" % (b.desc,))
    except Violation:
        raise
    except Exception as e:
        raise unexpected(e, "fresh-read-raises")
    return ndef2, dev, dev.exchanges - base


def _t4_hit(ctx, dev, since):
    """label what kind of block the injected fault hit -> True when hit"""
    prev = None
    for idx, cmd, rsp, phase in dev.xlog:
        if idx > since and isinstance(rsp, str) and rsp.startswith("ERR:"):
            pcb = cmd[0] if cmd else 0
            if pcb & 0xE2 == 0x02:
                cont = prev is not None and prev[0][0] & 0xF2 == 0x12 \
                    and isinstance(prev[1], bytes)
                what = "i-block" + ("-chained" if pcb & 0x10 else "") + \
                    ("-continuation" if cont else "")
            elif pcb & 0xE6 == 0xA2:
                what = "r-nak" if pcb & 0x10 else "r-ack"
            elif pcb & 0xC7 == 0xC2:
                what = "s-block"
            else:
                what = "other"
            ctx.label("hit:%s:%s" % (what, "reader-block-lost"
                                     if phase == "cmd" else "card-block-lost"))
            return True
        if cmd:
            prev = (cmd, rsp)
    return False


def run_t4fault(case, ctx):
    """Oracle: C01's round trip, unchanged.  where = "write": the assignment
    meets one lost / corrupted block at its k-th block exchange (k modulo the
    number of exchanges of the same assignment without fault); when it
    RETURNED a fresh, fault-free activation must read exactly the assigned
    octets (length too) and the reference reader must agree.  where =
    "read": the assignment is fault-free, the fresh activation's tag.ndef
    meets the fault; when it delivers an NDEF object that must carry exactly
    the assigned octets.  An assignment that raises TagCommandError / a
    tag.ndef that is None under the fault is labelled, not judged."""
    desc = case["tag"]
    ctx.label(tc.classify(desc))
    ctx.set_class("t4fault/" + input_class(desc, -1, 0))
    where, kind = case["where"], case["kind"]
    b, clf, ndef = _t4_start(desc, case["old"], case["old_seed"])
    cap = ndef.capacity
    if cap > b.cap:
        raise Violation("capacity-overreported",
                        "reported %d, layout holds %d: %r" % (cap, b.cap, desc))
    if not ndef.is_writeable:
        raise Violation("not-writeable", repr(desc))
    L = min(tc.resolve_len(case["new"], cap), cap)
    data = tc.message(L, case["new_seed"])
    dev = clf.device
    if _t4_write_cost(desc, L, dev.budget):
        ctx.label("skipped:write-longer-than-command-budget")
        return
    ctx.label("fault-in-" + where)
    hit = False
    if where == "write":
        # rehearsal on a tag of its own: number of exchanges
        b0, clf0, nd0 = _t4_start(desc, case["old"], case["old_seed"])
        e0 = clf0.device.exchanges
        try:
            nd0.octets = data
        except Exception as e:
            raise unexpected(e, "write-raises",
                             detail="L=%d cap=%d %r" % (L, cap, desc))
        n = clf0.device.exchanges - e0
        k = case["k"] % max(n, 1)
        base = dev.exchanges
        dev.script = {base + 1 + k: T4FAULTS[kind]}
    try:
        ndef.octets = data
    except tagdev.BudgetExceeded:
        raise Violation("unbounded-commands", "writing %d bytes took more "
                        "than %d commands: %r" % (L, dev.budget, desc))
    except nfc.tag.TagCommandError as e:
        if where != "write":
            raise unexpected(e, "write-raises",
                             detail="L=%d cap=%d %r" % (L, cap, desc))
        _t4_hit(ctx, dev, base)
        ctx.label("assignment-raised-under-fault")
        ctx.note({"L": L, "exchanges": n, "k": k, "kind": kind,
                  "error": str(e)})
        return
    except Exception as e:
        raise unexpected(e, "write-raises",
                         detail="L=%d cap=%d %r" % (L, cap, desc))
    finally:
        dev.script = {}
    if where == "write":
        hit = _t4_hit(ctx, dev, base)
        ndef2, dev2, n2 = _t4_fresh(b)
    else:
        nd1, dev1, n = _t4_fresh(b)              # rehearsal of the read
        if nd1 is None:
            raise Violation("fresh-read-none", "after writing %d bytes: %r"
                            % (L, desc))
        k = case["k"] % max(n, 1)
        ndef2, dev2, n2 = _t4_fresh(b, (k, kind))
        hit = _t4_hit(ctx, dev2, 0)
        if ndef2 is None:
            if not hit:
                raise Violation("fresh-read-none", "after writing %d bytes: "
                                "%r" % (L, desc))
            ctx.label("fresh-read-none-under-fault")
            ctx.note({"L": L, "exchanges": n, "k": k, "kind": kind})
            return
    if ndef2 is None:
        raise Violation("fresh-read-none", "after writing %d bytes with a "
                        "fault (%s) at block exchange %d of %d: %r"
                        % (L, kind, k, n, desc))
    got = ndef2.octets
    if got != data or ndef2.length != L:
        raise Violation("roundtrip-mismatch", "wrote %d bytes, fresh reader "
                        "got %d (first diff at %s); one fault (%s) at block "
                        "exchange %d of %d of the %s: %r"
                        % (L, len(got), _firstdiff(got, data), kind, k, n,
                           where, desc))
    ref = b.ref_read()
    if ref != data:
        raise Violation("reference-reader-disagrees",
                        "wrote %d bytes, reference reads %s; one fault (%s) "
                        "at block exchange %d of %d of the %s: %r"
                        % (L, _len(ref), kind, k, n, where, desc))
    ctx.label("survived" if hit else "fault-not-hit")
    if hit and L > 0:
        ctx.nontrivial()
    ctx.note({"L": L, "exchanges": n, "k": k, "kind": kind, "hit": hit})


def t4fault_desc():
    def fix(d):
        d = dict(d, fwi=d["fwi"] % 12, fsize=min(d["fsize"], 1500))
        if d["ver"] == 0x30:
            d["fsize"] = max(d["fsize"], 6)
        return d
    return tc.t4t_desc().map(fix)


def t4fault_strategy(tier):
    # command / response sizes that make the reader (UPDATE BINARY) and the
    # card (READ BINARY answer) chain over several blocks
    chaining = t4fault_desc().map(lambda d: dict(
        d, mlc=(255, 253, 128, 300)[d["mlc"] % 4],
        mle=(255, 256, 128, 300)[d["mle"] % 4],
        fsci=d["fsci"] % 7, chunk=d["chunk"] and min(d["chunk"], 61)))
    return st.fixed_dictionaries({
        "tag": st.one_of(t4fault_desc(), chaining),
        "old": tc.len_spec(False), "old_seed": st.integers(0, 255),
        "new": st.one_of(tc.len_spec(False),
                         st.tuples(st.just("abs"), st.integers(200, 1500))),
        "new_seed": st.integers(0, 255),
        "where": st.sampled_from(["write", "write", "read"]),
        "k": st.one_of(st.integers(0, 12), st.integers(0, 2000)),
        "kind": st.sampled_from(["LC", "LR", "CR"])})


T4FIXED = [
    ({"kind": "t4t", "tech": "A", "ver": 0x20, "mle": 240, "mlc": 255,
      "fsize": 1024, "phys_extra": 8, "fsci": 5, "fwi": 4, "chunk": 29,
      "wtx": 0, "max_send": 290, "max_recv": 290, "filler": 0}, 600),
    ({"kind": "t4t", "tech": "B", "ver": 0x20, "mle": 59, "mlc": 52,
      "fsize": 300, "phys_extra": 8, "fsci": 2, "fwi": 8, "chunk": 11,
      "wtx": 0, "max_send": 290, "max_recv": 290, "filler": 0xFF}, 130),
    ({"kind": "t4t", "tech": "A", "ver": 0x10, "mle": 40, "mlc": 30,
      "fsize": 120, "phys_extra": 0, "fsci": 0, "fwi": 10, "chunk": 5,
      "wtx": 0, "max_send": 290, "max_recv": 290, "filler": 0}, 70),
    ({"kind": "t4t", "tech": "B", "ver": 0x30, "mle": 255, "mlc": 255,
      "fsize": 700, "phys_extra": 8, "fsci": 8, "fwi": 2, "chunk": 100,
      "wtx": 0, "max_send": 290, "max_recv": 290, "filler": 0}, 520),
    ({"kind": "t4t", "tech": "A", "ver": 0x20, "mle": 128, "mlc": 128,
      "fsize": 400, "phys_extra": 8, "fsci": 4, "fwi": 11, "chunk": None,
      "wtx": 1, "max_send": 64, "max_recv": 64, "filler": 0}, 300),
]


def enum_t4fault(tier, seed):
    fixed = T4FIXED if tier == "thorough" else T4FIXED[:3]
    for desc, L in fixed:
        # exchange counts of the fault-free assignment and fresh read
        b, clf, ndef = _t4_start(desc, ["abs", 10], 1)
        e0 = clf.device.exchanges
        ndef.octets = tc.message(L, 7)
        n_w = clf.device.exchanges - e0
        n_r = _t4_fresh(b)[2]
        for where, n in (("write", n_w), ("read", n_r)):
            for k in range(n):
                for kind in ("LC", "LR", "CR"):
                    yield {"tag": desc, "old": ["abs", 10], "old_seed": 1,
                           "new": ["abs", L], "new_seed": 7, "where": where,
                           "k": k, "kind": kind}


# bounded exhaustive: all lengths for a few small layouts ----------------------
SMALL = [
    {"kind": "t2t", "size": 6, "extra": 0, "ctrl": [], "nulls": 0,
     "filler": 0},
    {"kind": "t2t", "size": 12, "extra": 8, "nulls": 1, "filler": 0xFF,
     "ctrl": [{"t": 2, "page": 2, "offs": 8, "size": 5, "bpp": 4},
              {"t": 1, "page": 7, "offs": 0, "size": 12, "bpp": 4}]},
    {"kind": "t2t", "size": 36, "extra": 4, "nulls": 0, "filler": 0,
     "ctrl": [{"t": 1, "page": 11, "offs": 8, "size": 40, "bpp": 4}]},
    {"kind": "t1t", "size": 14, "extra": 0, "hr1": 0x48, "ctrl": [],
     "nulls": 0, "filler": 0},
    {"kind": "t1t", "size": 40, "extra": 0, "hr1": 0, "nulls": 2,
     "filler": 0x5A,
     "ctrl": [{"t": 2, "page": 9, "offs": 3, "size": 7, "bpp": 4}]},
    {"kind": "t3t", "ver": 0x10, "nbr": 3, "nbw": 2, "nmaxb": 18,
     "phys_extra": 1, "nbr_extra": 0, "nbw_extra": 0, "filler": 0},
    {"kind": "t3e", "ver": 0x10, "nbr": 4, "nbw": 3, "nmaxb": 17,
     "phys_extra": 0, "nbr_extra": 0, "nbw_extra": 0, "filler": 0xFF},
    {"kind": "t4t", "tech": "A", "ver": 0x20, "mle": 40, "mlc": 30,
     "fsize": 280, "phys_extra": 8, "fsci": 2, "fwi": 4, "chunk": 11,
     "wtx": 0, "max_send": 290, "max_recv": 290, "filler": 0},
    {"kind": "t4t", "tech": "B", "ver": 0x30, "mle": 255, "mlc": 255,
     "fsize": 300, "phys_extra": 8, "fsci": 8, "fwi": 4, "chunk": None,
     "wtx": 1, "max_send": 290, "max_recv": 290, "filler": 0xFF},
]


def enum_lengths(tier, seed):
    layouts = SMALL if tier == "thorough" else SMALL[::2]
    for desc in layouts:
        b = tc.build(desc)
        for L in range(0, b.cap + 2):
            yield {"tag": desc, "old": ["abs", (L * 7) % (b.cap + 1)],
                   "old_seed": L & 255, "new": ["abs", L],
                   "new_seed": (L * 3) & 255}


def _leg(name, desc, quick, thorough):
    return Leg(name, run=run, gen=lambda tier: case_strategy(desc),
               quick=quick, thorough=thorough, shards_quick=3,
               shards_thorough=16, nt_floor=0.15,
               rule="constructed %s layouts/configurations x old message x "
                    "new length from {0,1,253..256,cap-3..cap+1} u uniform; "
                    "non-trivial = L>0 and (reserved range inside/adjacent to "
                    "the value, L>=255, L>=cap-1, >1 KiB, Nmaxb>255, chained "
                    "UPDATE BINARY, FSC smaller than the APDU) or the "
                    "capacity+1 rejection; distinct by case hash." % name)


LEGS = [
    _leg("t2t", st.one_of(tc.t2t_desc(), tc.t2t_desc(), tc.t2t_desc(),
                          tc.t2t_room()), 2400, 40000),
    Leg("t2t-sectors", run=run_sectors, gen=sectors_strategy, quick=480,
        thorough=12000, shards_quick=4, shards_thorough=16, nt_floor=0.3,
        rule="constructed Type 2 Tag layouts at and beyond the 1 KiB sector "
             "size (CC2 125..255: the data area ends just in front of / at / "
             "behind the sector boundary 1024, in the second sector, at 2048 "
             "or in the third sector; physical memory 0..40 bytes longer) "
             "with 1..3 lock / memory control TLVs whose reserved range "
             "starts up to 272 bytes in front of or 63 bytes behind a sector "
             "boundary (every page address / byte offset / bytes-per-page "
             "exponent 6..11 that addresses such a start) and has any size "
             "(1..256 bytes, lock bytes 1..32) or ends -32..+48 bytes from "
             "the boundary, optionally one arbitrary control / NULL / "
             "proprietary TLV in front; x old and new message length either "
             "from the t2t leg's set or RELATIVE TO THE LAYOUT: the NDEF TLV "
             "ends d (-20..20, mostly -3..3) available bytes from an anchor "
             "= first / one-past-last address of a reserved run, sector "
             "boundary, end of the data area (so also capacity-d). Oracle "
             "as leg t2t.  non-trivial = L>0 and the NDEF TLV (header, "
             "value, terminator) crosses an anchor or ends within 16 bytes "
             "in front of one, or the capacity+1 rejection; distinct by "
             "case hash."),
    _leg("t1t", st.one_of(tc.t1t_desc(), tc.t1t_desc(), tc.t1t_desc(),
                          tc.t1t_room()), 1800, 30000),
    _leg("t3t", tc.t3t_desc("t3t"), 1500, 30000),
    _leg("t3e", tc.t3t_desc("t3e"), 1200, 20000),
    Leg("t3t-64k", run=run, gen=lambda tier: t3t_big_case(), quick=24,
        thorough=200, shards_quick=8, shards_thorough=16, nt_floor=0.3,
        rule="Type 3 Tags with Nmaxb 4096..4200 (NDEF area at / beyond 64 "
             "KiB, where the 24 bit length needs its top byte) x old / new "
             "lengths 65535, 65536, 65537, 65600, capacity, 300; same round "
             "trip oracle; non-trivial as in the other legs."),
    _leg("t4t", tc.t4t_desc(), 1500, 30000),
    Leg("history-sectors", run=run_history,
        gen=lambda tier: tc.sector_hist(), quick=1200, thorough=20000,
        shards_quick=8, shards_thorough=16, nt_floor=0.05,
        rule="histories as in leg history on Type 2 Tags of more than one "
             "sector (layouts of t2t-sectors), 2..5 operations that are "
             "mostly assignments reaching beyond the first sector, with "
             "communication faults or the tag refusing a command (NAK, "
             "halted afterwards) anywhere in an operation; same judge and "
             "non-trivial rule as history."),
    Leg("history", run=run_history,
        gen=lambda tier: st.fixed_dictionaries({
            "tag": tc.hist_desc(), "old": tc.hist_len(False),
            "old_seed": st.integers(0, 3), "ops": tc.hist_ops(True)}),
        quick=4800, thorough=60000, shards_quick=8, shards_thorough=16,
        nt_floor=0.1,
        rule="constructed layouts of every tag type (Topaz / Topaz-512 with "
             "their real memory size) x old message x 2..7 operations on ONE "
             "tag object from {tag.ndef, has_changed, assign octets (seed "
             "from 4 values, or the last attempted octets again), "
             "format(version, wipe)}, each optionally with a communication "
             "fault (timeout / transmission / protocol; command or response "
             "lost; burst 1, 2, 3 or until the operation ends) starting at "
             "its k-th exchange, k reduced modulo the operation's exchange "
             "count in a fault-free rehearsal; non-trivial = a non-empty assignment that "
             "returned was verified by a fresh activation after at least "
             "one earlier assignment attempt or format on the same tag "
             "object; distinct by case hash."),
    Leg("t4t-fault", run=run_t4fault, gen=t4fault_strategy, quick=2400,
        thorough=40000, shards_quick=8, shards_thorough=16, nt_floor=0.2,
        rule="Type 4 configurations (4A/4B, mapping 1.0-3.0, FSCI 0-8, FWI "
             "0-11, MLe/MLc, card chunk size, S(WTX), device frame limits; "
             "half of them with MLc/MLe >= 128 and FSC <= 96 so that commands "
             "and responses chain over several blocks) x old message x new "
             "length x ONE fault {reader block lost, card block lost, card "
             "block corrupted} at the k-th block exchange (k modulo the "
             "fault-free exchange count) of the assignment (2 of 3) or of "
             "the fresh activation's tag.ndef (1 of 3); non-trivial = the "
             "fault was hit, the operation survived it (the assignment "
             "returned / tag.ndef delivered an NDEF object), L>0, and the "
             "round trip was verified; distinct by case hash."),
    Leg("t4t-fault-enum", run=run_t4fault, enum=enum_t4fault,
        exhaustive=True, shards_quick=4, shards_thorough=16,
        rule="fixed Type 4 configurations (3 quick, 5 thorough: FSC 16..256, "
             "MLc 30..255, chained commands and chained responses, 4A/4B, "
             "mapping 1.0/2.0/3.0) with one message each x EVERY block "
             "exchange position of the assignment and of the fresh read x "
             "{reader block lost, card block lost, card block corrupted}; "
             "oracle and non-trivial rule as t4t-fault."),
    Leg("lengths", run=run, enum=enum_lengths, exhaustive=True,
        shards_quick=4, shards_thorough=16,
        rule="every message length 0..capacity+1 on fixed small layouts of "
             "each tag type (5 layouts quick, 9 thorough)."),
]

# the same searches with every nfc logger enabled down to the lowest level
# (code that only runs, or only evaluates its arguments, when logging is on)
_byl = dict((lg.name, lg) for lg in LEGS)
LEGS += [twin_env(_byl[n], "log", {"VERIF_LOG": "debug"}, quick=q, thorough=t,
                  shards_quick=2)
         for n, q, t in [('t2t', 300, 3000), ('t4t', 200, 2000)] if n in _byl]
