"""C05 - an LLCP data link connection delivers in order, exactly once, inside
the receive window.

legs
  machine   two link controllers pumped by the harness (vlib.llcpair), one
            connection set up through the real connect/listen/accept path;
            a generated history of non-blocking application calls and single
            link exchanges is interpreted step by step; the wire is watched
            by the sliding window monitor (vlib.ref_window); final drain
  enum      every history of length <= 4 (quick) / <= 6 (thorough) over
            {send a, send b, recv a, recv b, exchange a->b, exchange b->a}
            for RW(a), RW(b) in {1,2} x {1,2}, same interpreter and oracles
  history   connection histories on one listening socket: successive and
            overlapping connections from one client controller whose
            addresses come back after close + reconnect, either end closing
            first / later / never, traffic on the live connections; each
            connection judged on its own (history-enum: all short histories)
  threads   two complete stacks (ContactlessFrontend.connect(llcp=..)) over
            the simulated medium, blocking send/recv application threads,
            Hypothesis-drawn schedule choice lists; monitor fed from the
            controllers' collect()/dispatch()
"""
import itertools
import os

from hypothesis import strategies as st

import nfc.llcp

from vlib import p2p, ref_llcp as ref, ref_window, vsched
from vlib.engine import HarnessError, Leg, Violation, unexpected, twin_env
from vlib.llcpair import DATA_LINK_CONNECTION, LlcPair, other

PROPERTY = "C05"
LEVEL = "exploration"
ASSUMPTIONS = [
    "vlib/ref_window.py is a correct reading of the numbered-PDU rules of "
    "LLCP 1.3 section 5.6; vlib/ref_llcp.py of the frame formats",
    "machine/enum/history legs: the link is lossless and one exchange is "
    "atomic (collect, encode, decode, dispatch on one thread); the run "
    "loops, NFC-DEP and thread schedules are only exercised by leg threads",
    "after an application close() only the prefix property (in order, at "
    "most once) and freedom from crashes/FRMR are judged: messages in flight "
    "at a disconnect are lost by design",
    "thread schedules are explored at synchronisation point granularity "
    "(vlib/vsched.py)",
    "poll('acks') is judged against its docstring (counter of received "
    "acknowledgements)",
    "history legs: a connect() refused with reason 0x20 while more connection "
    "requests were waiting than listen(backlog) keeps is documented "
    "behaviour (Socket.listen); whether close() returns is not judged here",
]

# Confirmed-defect classes the generator/interpreter can avoid by
# construction.  Empty in the committed module; the coordinator wires it to
# the known-findings register (VERIF_EXCLUDE_CLASSES is a development aid).
EXCLUDE_CLASSES = set()
EXCLUDE_CLASSES |= set(filter(None, os.environ.get(
    "VERIF_EXCLUDE_CLASSES", "").split(",")))

SERVICE = "urn:nfc:xsn:verif.example:c05"
E = nfc.llcp.errno


def setup():
    vsched.patch_nfc()


# ------------------------------------------------------------------ helpers
def message(index, size):
    """payload of the index-th message of a direction: recognisable, of the
    requested size"""
    stamp = bytes([index >> 8 & 255, index & 255])
    return (stamp * (size // 2 + 1))[:size]


def send_size(kind, val, smiu):
    if kind == 0:
        return val % (smiu + 1)
    if kind == 1:
        return smiu
    if kind == 2:
        return smiu - 1
    if kind == 3:
        return smiu + 1
    if kind == 4:
        return 0
    if kind == 5:
        return 1 + val % 8
    return smiu + 1 + val % 300


class Conn(object):
    """the connection under test and everything the oracles remember"""

    def __init__(self, case):
        self.miu = {"a": case["miu"][0], "b": case["miu"][1]}
        self.rw = {"a": case["rw"][0], "b": case["rw"][1]}
        want = {"a": case["smiu"][0], "b": case["smiu"][1]}
        # connection MIU an end announces: its request, capped by its own
        # link MIU (Socket.setsockopt docstring: value may be corrected)
        self.rmiu = dict((s, min(want[s], self.miu[s])) for s in "ab")
        self.sock = {}
        self.sent = {"a": [], "b": []}      # accepted by send()
        self.rcvd = {"a": [], "b": []}      # returned by recv()
        self.acks = {"a": 0, "b": 0}        # successful poll("acks")
        self.closed = set()                 # sides whose app called close()
        self.wouldblock = 0
        self.refused = 0
        self.eof = set()                    # sides where recv() gave None
        self.base = 0                       # number of the first message

    def smiu(self, side):
        """largest message side may send = MIU announced by the other end"""
        return self.rmiu[other(side)]


def attach_monitor(pair, ctx):
    mon = ref_window.Monitor()

    def tap(frame):
        try:
            mon.on_wire(frame.src, other(frame.src), frame.ref)
        except ref_window.WindowViolation as w:
            raise Violation(w.oracle, w.detail)
        finally:
            if mon.before_cc:
                # data overtook the CC PDU: everything after is one class
                ctx.set_class("accept/send-before-cc")
    pair.taps.append(tap)
    return mon


def establish(pair, case, c, ctx, mon):
    """one data link connection through connect/listen/accept; the client is
    side case['client'], by service name or by address"""
    cl = case.get("client", "a")
    sv = other(cl)
    srv = pair.socket(sv, DATA_LINK_CONNECTION)
    cli = pair.socket(cl, DATA_LINK_CONNECTION)
    for sock, side in ((srv, sv), (cli, cl)):
        sock.setsockopt(nfc.llcp.SO_RCVBUF, c.rw[side])
        got = sock.setsockopt(nfc.llcp.SO_RCVMIU, case["smiu"]["ab".index(side)])
        if got != c.rmiu[side]:
            raise Violation("rcvmiu-not-capped", "SO_RCVMIU %d on link MIU %d "
                            "gives %r" % (case["smiu"]["ab".index(side)],
                                          c.miu[side], got))
    if case.get("by_name", True):
        srv.bind(SERVICE)
        dest = SERVICE
    else:
        srv.bind(40)
        dest = 40
    srv.listen(1)
    acc = pair.call(srv.accept, "accept")
    con = pair.call(lambda: cli.connect(dest), "connect")
    early = case.get("early", 0)
    if early and "accept/send-before-cc" in EXCLUDE_CLASSES:
        ctx.label("excluded:accept/send-before-cc")
        early = 0
    for _ in range(8):
        if acc.done and con.done:
            break
        pair.xfer(cl)
        if acc.done and early:
            # the server application talks as soon as accept() returns
            c.sock[sv] = acc.value
            for k in range(early):
                do_send(c, sv, 5, k, ctx, mon)
            early = 0
            ctx.label("server-sends-at-once")
        pair.xfer(sv)
    for box in (acc, con):
        if box.exc is not None:
            raise unexpected(box.exc, oracle="connection-setup-failed")
        if not box.done:
            raise Violation("connection-setup-stuck", "%s did not return after"
                            " 8 exchange rounds" % box.name)
    c.sock[cl] = cli
    c.sock[sv] = acc.value
    return srv


def check_prefix(c, side):
    got, want = c.rcvd[side], c.sent[other(side)]
    n = len(got)
    if n > len(want) or got[n - 1] != want[n - 1]:
        # locate the first difference for the message
        k = 0
        while k < n and k < len(want) and got[k] == want[k]:
            k += 1
        raise Violation("delivery-order", "recv() number %d at %s returned %s"
                        " but message %d accepted at %s is %s" % (
                            k, side, got[k][:8].hex() if k < n else None, k,
                            other(side),
                            want[k][:8].hex() if k < len(want) else None))


def do_send(c, side, kind, val, ctx, mon):
    smiu = c.smiu(side)
    n = send_size(kind, val, smiu)
    msg = message(c.base + len(c.sent[side]), n)
    after_close = bool(c.closed) or bool(c.eof)
    try:
        # (messages are handed over as bytes or bytearray)
        ok = c.sock[side].send(bytearray(msg) if len(msg) & 1 else msg,
                               nfc.llcp.MSG_DONTWAIT)
    except nfc.llcp.Error as err:
        if after_close:
            return
        if err.errno == E.EMSGSIZE:
            if n <= smiu:
                raise Violation("fitting-message-refused", "send of %d byte "
                                "with connection MIU %d -> EMSGSIZE" % (n, smiu))
            c.refused += 1
            return
        if err.errno == E.EWOULDBLOCK and n <= smiu:
            c.wouldblock += 1
            return
        raise unexpected(err, oracle="send-error")
    if n > smiu:
        raise Violation("oversize-accepted", "send of %d byte accepted on a "
                        "connection whose peer announced MIU %d" % (n, smiu))
    if ok is True:
        c.sent[side].append(msg)
    elif not after_close:
        raise Violation("send-returned-false", "send() -> %r on a live "
                        "connection" % (ok,))


def do_recv(c, side, ctx, drain=False):
    """non-blocking receive of what is queued; returns number received"""
    after_close = bool(c.closed) or bool(c.eof)
    n = 0
    while True:
        try:
            if side in c.eof or not c.sock[side].poll("recv", 0):
                return n
            m = c.sock[side].recv()
        except nfc.llcp.Error as err:
            if after_close:
                return n
            raise unexpected(err, oracle="recv-error")
        if m is None:
            if not after_close:
                raise Violation("recv-none", "recv() -> None on a live "
                                "connection after poll('recv') was true")
            c.eof.add(side)
            return n
        c.rcvd[side].append(bytes(m))
        check_prefix(c, side)
        n += 1
        if not drain:
            return n


def end_of(mon, c, side):
    """the monitor's endpoint object of side (None before/after)"""
    for e in mon.all_ends():
        if e.key[0] == side:
            return e
    return None


def do_poll(c, side, ev, ctx, mon):
    after_close = bool(c.closed) or bool(c.eof)
    try:
        r = c.sock[side].poll(ev, 0)
    except nfc.llcp.Error as err:
        if after_close:
            return
        raise unexpected(err, oracle="poll-error")
    if ev == "acks" and r:
        c.acks[side] += 1
        e = end_of(mon, c, side)
        seen = e.acked_in if e is not None else 0
        if c.acks[side] > seen:
            raise Violation("acks-overcount", "poll('acks') at %s was true %d"
                            " times, %d I PDUs were acknowledged to it"
                            % (side, c.acks[side], seen))


def unsent(c, mon, side):
    e = end_of(mon, c, side)
    return len(c.sent[side]) - (e.sent_i if e is not None else 0)


def do_close(pair, c, side, ctx, mon):
    if side in c.closed:
        return
    if unsent(c, mon, side) > 0:
        if "close/unsent-data" in EXCLUDE_CLASSES:
            ctx.label("excluded:close/unsent-data")
            return
        ctx.set_class("close/unsent-data")
        ctx.label("close-with-unsent-data")
    c.closed.add(side)
    box = pair.call(c.sock[side].close, "close-" + side)
    return box


def check_threads(pair, boxes):
    for name, exc in pair.failures():
        raise unexpected(exc, oracle="thread-died")
    for box in boxes:
        if box is not None and box.exc is not None:
            if isinstance(box.exc, nfc.llcp.Error):
                continue
            raise unexpected(box.exc, oracle="close-raised")


def step(pair, c, mon, op, ctx, boxes):
    name, side = op[0], op[1]
    f = None
    if name == "send":
        do_send(c, side, op[2], op[3], ctx, mon)
    elif name == "recv":
        do_recv(c, side, ctx)
    elif name == "poll":
        do_poll(c, side, op[2], ctx, mon)
    elif name == "busy":
        try:
            c.sock[side].setsockopt(nfc.llcp.SO_RCVBSY, bool(op[2]))
        except nfc.llcp.Error as err:
            if not (c.closed or c.eof):
                raise unexpected(err, oracle="setsockopt-error")
    elif name == "x":
        f = pair.xfer(side)
    elif name == "close":
        boxes.append(do_close(pair, c, side, ctx, mon))
    else:
        raise HarnessError("unknown op %r" % (op,))
    check_threads(pair, boxes)
    return f


def drain(pair, c, mon, ctx, boxes):
    if not (c.closed or c.eof):
        for side in "ab":
            c.sock[side].setsockopt(nfc.llcp.SO_RCVBSY, False)
    idle = 0
    for _ in range(200):
        moved = pair.pump(1)
        got = 0
        for side in "ab":
            got += do_recv(c, side, ctx, drain=True)
        check_threads(pair, boxes)
        idle = 0 if (moved or got) else idle + 1
        if idle >= 3:
            break
    else:
        raise Violation("link-never-quiescent", "controllers still exchange "
                        "PDUs after 200 rounds without application calls")
    if c.closed or c.eof:
        return
    for side in "ab":
        want = c.sent[other(side)]
        if c.rcvd[side] != want:
            raise Violation("message-lost", "%s received %d of the %d messages"
                            " accepted at %s, nothing more arrives"
                            % (side, len(c.rcvd[side]), len(want),
                               other(side)))
    for side in "ab":
        while c.sock[side].poll("acks", 0):
            c.acks[side] += 1
            if c.acks[side] > len(c.sent[side]):
                break
        if c.acks[side] != len(c.sent[side]):
            raise Violation("acks-miscount", "%s sent %d messages, all were "
                            "received, poll('acks') was true %d times"
                            % (side, len(c.sent[side]), c.acks[side]))


def summarize(c, mon, ctx, frames_agf, duplex):
    nmax = max(len(c.sent["a"]), len(c.sent["b"]))
    ends = mon.all_ends()
    wrap = nmax >= 17
    full = any(e.full for e in ends if True)
    full_big = any(e.full and p.rw >= 2 for e in ends for p in ends
                   if p.key == (other(e.key[0]), e.key[2], e.key[1]))
    rnr = any(e.rnr for e in ends)
    piggy = any(e.piggy for e in ends)
    if wrap:
        ctx.label("wrap-around")
    if nmax >= 33:
        ctx.label("wrap-twice")
    if full:
        ctx.label("window-full")
    if full_big:
        ctx.label("window-full(rw>=2)")
    if c.wouldblock:
        ctx.label("send-wouldblock")
    if rnr:
        ctx.label("rnr-on-wire")
    if piggy:
        ctx.label("piggyback-ack")
    if c.refused:
        ctx.label("oversize-refused")
    if frames_agf:
        ctx.label("agf>=2")
    if duplex:
        ctx.label("duplex-exchange")
    if c.closed:
        ctx.label("closed")
    if 0 in c.rw.values():
        ctx.label("rw=0")
    if c.sent["a"] and c.sent["b"]:
        ctx.label("both-directions")
    ctx.label("msgs:%s" % ("0" if nmax == 0 else "1-16" if nmax < 17 else
                           "17-48" if nmax < 49 else "49+"))
    if wrap or full_big or c.wouldblock or rnr or duplex:
        ctx.nontrivial()
    ctx.note({"sent": [len(c.sent["a"]), len(c.sent["b"])],
              "rcvd": [len(c.rcvd["a"]), len(c.rcvd["b"])],
              "max_outstanding": [e.max_out for e in ends],
              "wouldblock": c.wouldblock})


def run_machine(case, ctx):
    c = Conn(case)
    ctx.set_class("rw=0" if 0 in case["rw"] else "plain")
    pair = LlcPair(case["miu"][0], case["miu"][1], bool(case["agf"][0]),
                   bool(case["agf"][1]))
    try:
        mon = attach_monitor(pair, ctx)
        establish(pair, case, c, ctx, mon)
        boxes = []
        agf = duplex = 0
        last_i = None       # side whose previous exchange carried an I PDU
        for op in case["ops"]:
            f = step(pair, c, mon, op, ctx, boxes)
            if f is not None:
                if len(f.pdus) >= 2:
                    agf += 1
                has_i = any(q["type"] == "I" for q in f.pdus)
                if has_i and last_i == other(f.src):
                    duplex += 1
                last_i = f.src if has_i else None
            elif op[0] == "x":
                last_i = None
        drain(pair, c, mon, ctx, boxes)
        summarize(c, mon, ctx, agf, duplex)
    finally:
        pair.close()


# --------------------------------------------------------------- generators
def miu_st():
    return st.one_of(st.sampled_from([128, 129, 130, 131, 248, 1000, 2175]),
                     st.integers(128, 2175))


TEMPLATES = {
    "mixed": ["sa", "sb", "ra", "rb", "xa", "xb", "pa", "pb", "ba", "bb",
              "qa", "qb"],
    "a2b": ["sa"] * 4 + ["xa"] * 3 + ["rb"] * 3 + ["xb"] * 2
    + ["pa", "bb", "sb", "ra"],
    "b2a": ["sb"] * 4 + ["xb"] * 3 + ["ra"] * 3 + ["xa"] * 2
    + ["pb", "ba", "sa", "rb"],
    "duplex": ["sa", "sb", "xa", "xb", "ra", "rb"] * 3 + ["pa", "pb"],
    "busy": ["sa", "sb", "xa", "xb", "ra", "rb"] * 2 + ["ba", "bb"] * 3,
}


CYCLES = [
    "sa xa rb xb", "sb xb ra xa", "sa sb xa xb ra rb",
    "sa sa sa xa xa xa rb rb rb xb", "sb sb sb xb xb xb ra ra ra xa",
    "sa xa sb xb rb ra", "sa xa xb rb", "sb xb xa ra", "sa xa rb",
    "sb xb ra", "xa xb", "sa sa xa rb xa rb xb", "sa xa rb pa xb pa",
    "ba sb xb xa ba ra xa", "bb sa xa xb bb rb xb",
]


def _expand(draw, t):
    side = t[1]
    if t[0] == "s":
        kind = draw(st.sampled_from([0, 0, 1, 2, 3, 4, 5, 5, 5, 6]))
        return ["send", side, kind, draw(st.integers(0, 2200))]
    if t[0] == "r":
        return ["recv", side]
    if t[0] == "x":
        return ["x", side]
    if t[0] == "p":
        return ["poll", side, "acks"]
    if t[0] == "q":
        return ["poll", side, draw(st.sampled_from(["send", "recv"]))]
    if t[0] == "b":
        return ["busy", side, draw(st.booleans())]
    return ["close", side]


@st.composite
def pattern_st(draw, profile, allow_close):
    k = draw(st.integers(0, 9))
    if k < 4:
        cyc = draw(st.sampled_from(CYCLES)).split()
        return [_expand(draw, t) for t in cyc]
    if k == 4 and allow_close:
        side = draw(st.sampled_from("ab"))
        return [["x", side], ["x", side], ["close", side]]
    pool = TEMPLATES[profile] + (["ca", "cb"] if allow_close else [])
    return [_expand(draw, draw(st.sampled_from(pool)))
            for _ in range(draw(st.integers(1, 6)))]


@st.composite
def machine_case(draw, max_steps):
    miu = [draw(miu_st()), draw(miu_st())]
    smiu = [draw(st.one_of(st.just(128), st.integers(128, 2175),
                           st.just(miu[i]))) for i in (0, 1)]
    rw = [draw(st.one_of(st.integers(1, 15), st.integers(0, 15),
                         st.sampled_from([1, 2, 15]))) for _ in (0, 1)]
    profile = draw(st.sampled_from(sorted(TEMPLATES)))
    allow_close = draw(st.integers(0, 6)) == 0
    segs = draw(st.lists(st.tuples(
        pattern_st(profile, allow_close),
        st.sampled_from([1, 1, 2, 3, 5, 8, 12, 20, 30])),
        min_size=1, max_size=24))
    ops = []
    for pattern, times in segs:
        for _ in range(times):
            ops.extend(pattern)
    return {"miu": miu, "agf": [draw(st.booleans()), draw(st.booleans())],
            "rw": rw, "smiu": smiu, "client": draw(st.sampled_from("ab")),
            "by_name": draw(st.booleans()),
            "early": draw(st.sampled_from([0] * 13 + [1, 2, 3])),
            "ops": ops[:max_steps]}


# ---------------------------------------------------------------- enum leg
ALPHABET = [["send", "a", 5, 1], ["send", "b", 5, 1], ["recv", "a"],
            ["recv", "b"], ["x", "a"], ["x", "b"]]


def enum_cases(tier, seed):
    maxlen = 4 if tier == "quick" else 6
    for rw in ([1, 1], [1, 2], [2, 1], [2, 2]):
        for n in range(maxlen + 1):
            for seq in itertools.product(range(len(ALPHABET)), repeat=n):
                yield {"miu": [128, 128], "agf": [True, True], "rw": rw,
                       "smiu": [128, 128], "client": "a", "by_name": False,
                       "ops": [ALPHABET[i] for i in seq]}


def run_enum(case, ctx):
    run_machine(case, ctx)
    # every enumerated history with a delivered message counts
    if "msgs:0" not in ctx.labels:
        ctx.nontrivial()


# ------------------------------------------------------------- threads leg
def tap_mac(side, llc, mon, state):
    """feed the monitor from the raw LLCP frames this controller exchanges
    with its MAC (NFC-DEP) layer"""
    mac = llc.mac
    orig = mac.exchange

    def see(kind, data):
        if state["violation"] is not None:
            return
        try:
            r = ref.decode(bytes(data))
            if kind == "send":
                mon.on_send(side, r)
                if r["type"] == "AGF" and len(r["pdus"]) >= 2:
                    state["agf"] += 1
            else:
                mon.on_recv(side, r)
                if state.get("accepting") == side and any(
                        q["type"] == "I" for q in r.get("pdus", [r])):
                    # data reached the accepting side between the CC leaving
                    # the listener's queue and llc.accept() registering the
                    # new socket: it is handed to the listener and dropped
                    state["early_data"] = True
        except ref.RefReject as rr:
            state["violation"] = Violation(
                "frame-not-wellformed", "%s %s %s: %s"
                % (side, kind, bytes(data).hex()[:120], rr))
        except ref_window.WindowViolation as w:
            state["violation"] = Violation(w.oracle, w.detail)

    def exchange(send_data, timeout):
        if send_data is not None:
            see("send", send_data)
        rcvd = orig(send_data, timeout)
        if rcvd is not None:
            see("recv", rcvd)
        return rcvd
    mac.exchange = exchange


# ------------------------------------------ leg: two senders, one socket
def run_senders(case, ctx):
    """two application threads send (blocking) on the same data link
    connection while the peer consumes at its own pace; the choice list
    decides every contest between the threads"""
    full = {"miu": [128, 128], "agf": case["agf"], "rw": case["rw"],
            "smiu": [128, 128], "client": case["src"], "by_name": False,
            "early": 0}
    c = Conn(full)
    ctx.set_class("senders")
    pair = LlcPair(128, 128, bool(case["agf"][0]), bool(case["agf"][1]))
    src = case["src"]
    dst = other(src)
    try:
        mon = attach_monitor(pair, ctx)
        establish(pair, full, c, ctx, mon)
        sent_by = ([], [])
        rcvd = []
        sock = c.sock[src]

        def sender(part):
            for k, n in enumerate(case["plan"][part]):
                msg = message(part * 100 + k, n)
                if sock.send(msg) is not True:
                    raise Violation("send-returned-false", "blocking send() "
                                    "number %d of sender %d" % (k, part))
                sent_by[part].append(msg)
        pair.sched.choices, pair.sched.ci = list(case["choices"]), 0
        p0 = pair.sched.points
        if case.get("force"):
            pair.sched.forced = dict((p0 + int(p_), int(k_))
                                     for p_, k_ in case["force"])
        boxes = [pair.call(lambda: sender(0), "sender0"),
                 pair.call(lambda: sender(1), "sender1")]
        total = len(case["plan"][0]) + len(case["plan"][1])
        take = case["take"]
        for rnd in range(8 * total + 20):
            # the link loop goes from dispatch() of the frame received
            # straight into the next collect(): woken and arriving
            # application threads contend while it does
            pair.autosettle = True
            pair.xfer(src)
            pair.autosettle = False
            # the receiving application takes at most take[...] messages
            for _ in range(take[rnd % len(take)]):
                if not c.sock[dst].poll("recv", 0):
                    break
                m = c.sock[dst].recv()
                if m is None:
                    raise Violation("recv-none", "recv() returned None on a "
                                    "live connection")
                rcvd.append(bytes(m))
            pair.xfer(dst)
            if all(b.done for b in boxes) and len(rcvd) >= total:
                break
        for b in boxes:
            if isinstance(b.exc, (Violation, HarnessError)):
                raise b.exc
            if b.exc is not None:
                raise unexpected(b.exc, oracle="application-call-raised")
        for name, e in pair.failures():
            raise unexpected(e, oracle="thread-died")
        if not all(b.done for b in boxes):
            raise Violation("application-stuck", "senders done: %r, sent %d + "
                            "%d, received %d of %d" % (
                                [b.done for b in boxes], len(sent_by[0]),
                                len(sent_by[1]), len(rcvd), total))
        if not is_interleaving(rcvd, sent_by[0], sent_by[1]):
            raise Violation("message-lost", "%d messages received are not an "
                            "interleaving of the %d + %d accepted from the "
                            "two senders" % (len(rcvd), len(sent_by[0]),
                                             len(sent_by[1])))
        ends = mon.all_ends()
        if any(e.full for e in ends):
            ctx.label("window-full")
            ctx.nontrivial()
        if pair.sched.ci > 0 or case.get("force"):
            ctx.label("contested-schedule")
        ctx.note({"max_outstanding": [e.max_out for e in ends],
                  "choices_used": pair.sched.ci,
                  "race_points": pair.sched.points - p0})
    finally:
        pair.close()


class _Points(object):
    def __init__(self):
        self.n = 0

    def note(self, d):
        self.n = d.get("race_points", 0)

    def __getattr__(self, name):
        return lambda *a, **k: None


def enum_senders(tier, seed):
    """fixed scenarios x one forced pick (thorough: also two) of another
    runnable thread at every scheduling point of the sending phase"""
    bases = []
    for rw in (1, 2, 3):
        for take in ([1], [1, 0, 0], [0, 2], [3]):
            for agf in (False, True):
                bases.append({"src": "a", "agf": [agf, agf], "rw": [rw, rw],
                              "plan": [[2, 3, 4, 5], [6, 7, 8, 9]],
                              "take": take, "choices": []})
    for base in bases:
        probe = _Points()
        try:
            run_senders(dict(base), probe)
        except Violation:
            yield dict(base)
            continue
        for p_ in range(1, probe.n + 1):
            for pick in (1, 2):
                yield dict(base, force=[[p_, pick]])
                if tier != "quick":
                    for q_ in range(p_ + 1, min(p_ + 12, probe.n + 1)):
                        yield dict(base, force=[[p_, pick], [q_, 1]])


def senders_case():
    return st.fixed_dictionaries({
        "src": st.sampled_from("ab"),
        "agf": st.tuples(st.booleans(), st.booleans()).map(list),
        "rw": st.tuples(st.integers(1, 4), st.integers(1, 4)).map(list),
        "plan": st.tuples(st.lists(st.integers(2, 128), min_size=1, max_size=6),
                          st.lists(st.integers(2, 128), min_size=1,
                                   max_size=6)).map(list),
        "take": st.lists(st.integers(0, 3), min_size=1, max_size=4).filter(
            lambda t: any(t)),
        "choices": st.lists(st.integers(0, 3), max_size=40)})


class _Probe(object):
    """ctx stand-in used to learn the number of scheduling points"""
    def __init__(self):
        self.points = None

    def note(self, d):
        self.points = d.get("sched_points")

    def __getattr__(self, name):
        return lambda *a, **k: None


def enum_preempt(tier, seed):
    """fixed two-sender scenarios over two complete stacks x one forced
    pick of another runnable thread at every scheduling point"""
    bases = []
    for rw in (1, 2, 3):
        for nm in ((4,) if tier == "quick" else (4, 7)):
            for agf in (0, 1):
                for both in (0, 1):
                    bases.append({
                        "miu": [128, 128], "agf": [agf, agf], "rw": [rw, rw],
                        "smiu": [128, 128], "client": "it"[both],
                        "by_name": False,
                        "msgs": [[[5, i] for i in range(nm)],
                                 [[5, i] for i in range(nm if both else 0)]],
                        "busy": [[], []], "greet": False, "choices": [],
                        "seed": 0, "stalls": [], "senders2": [1, both]})
    for base in bases:
        probe = _Probe()
        try:
            run_threads(dict(base), probe)
        except Violation:
            yield dict(base)
            continue
        for p_ in range(1, (probe.points or 0) + 1):
            for pick in (1, 2):
                yield dict(base, force=[[p_, pick]])


def is_interleaving(r, a, b):
    """r consists of exactly the elements of a and b, each in its order"""
    if len(r) != len(a) + len(b):
        return False
    reach = {(0, 0)}
    for x in r:
        nxt = set()
        for i, j in reach:
            if i < len(a) and a[i] == x:
                nxt.add((i + 1, j))
            if j < len(b) and b[j] == x:
                nxt.add((i, j + 1))
        if not nxt:
            return False
        reach = nxt
    return True


def run_threads(case, ctx):
    sides = ("i", "t")
    idx = {"i": 0, "t": 1}
    miu = dict((s, case["miu"][idx[s]]) for s in sides)
    rw = dict((s, case["rw"][idx[s]]) for s in sides)
    rmiu = dict((s, min(case["smiu"][idx[s]], miu[s])) for s in sides)
    cl = case["client"]
    sv = "t" if cl == "i" else "i"
    ctx.set_class("threads")
    greet = bool(case.get("greet")) and bool(case["msgs"][idx[sv]])
    if greet and "accept/send-before-cc" in EXCLUDE_CLASSES:
        ctx.label("excluded:accept/send-before-cc")
        greet = False
    if greet:
        ctx.label("server-sends-at-once")
    mon = ref_window.Monitor(sides=sides)
    state = {"violation": None, "agf": 0}
    sent = {"i": [], "t": []}
    rcvd = {"i": [], "t": []}
    done = {}
    errors = []
    plan = dict((s, case["msgs"][idx[s]]) for s in sides)
    busy = dict((s, case["busy"][idx[s]]) for s in sides)
    pair = p2p.Pair(choices=case["choices"], seed=case["seed"],
                    opts_i={"miu": miu["i"], "agf": bool(case["agf"][0]),
                            "sec": False},
                    opts_t={"miu": miu["t"], "agf": bool(case["agf"][1]),
                            "sec": False})
    sched = pair.sched
    sched.stalls = [list(x) for x in case.get("stalls", [])]
    if case.get("force"):
        # forced picks at given scheduling points, default policy elsewhere
        sched.forced = dict((int(p_), int(k_)) for p_, k_ in case["force"])
    import threading

    def guarded(name, fn):
        def run():
            try:
                fn()
                done[name] = True
            except Exception as e:
                errors.append((name, e))
                done[name] = False
        th = threading.Thread(target=run, name=name)
        th.start()

    two = dict((s, bool(case.get("senders2", [0, 0])[idx[s]])
                and len(plan[s]) >= 2) for s in sides)
    sent_by = dict((s, ([], [])) for s in sides)

    def sender(side, sock, part=0, nparts=1):
        """sends the messages part, part+nparts, ... of the side's plan"""
        smiu = rmiu["t" if side == "i" else "i"]
        for k, (kind, val) in enumerate(plan[side]):
            if k % nparts != part:
                continue
            n = send_size(kind, val, smiu)
            msg = message(k, min(n, smiu))
            if sock.send(msg) is True:
                sent[side].append(msg)
                sent_by[side][part].append(msg)
            else:
                raise Violation("send-returned-false", "blocking send() "
                                "number %d at %s" % (k, side))

    def receiver(side, sock):
        o = "t" if side == "i" else "i"
        for k in range(len(plan[o])):
            flag = busy[side][k % len(busy[side])] if busy[side] else 0
            if flag:
                sock.setsockopt(nfc.llcp.SO_RCVBSY, True)
                sched.sleep(0.003 * flag)
                sock.setsockopt(nfc.llcp.SO_RCVBSY, False)
            m = sock.recv()
            if m is None:
                raise Violation("recv-none", "blocking recv() number %d at %s"
                                " returned None" % (k, side))
            rcvd[side].append(bytes(m))

    def options(sock, side):
        sock.setsockopt(nfc.llcp.SO_RCVBUF, rw[side])
        sock.setsockopt(nfc.llcp.SO_RCVMIU, case["smiu"][idx[side]])

    def serve(llc):
        tap_mac(sv, llc, mon, state)
        srv = nfc.llcp.Socket(llc, DATA_LINK_CONNECTION)
        options(srv, sv)
        srv.bind(SERVICE if case["by_name"] else 40)
        srv.listen(1)

        def accept():
            state["accepting"] = sv
            sock = srv.accept()
            state["accepting"] = None
            guarded("recv-" + sv, lambda: receiver(sv, sock))
            if not greet:
                while not mon.ends:     # until the CC PDU went out
                    sched.sleep(0.001)
            if two[sv]:
                # a second application thread sending on the same socket
                guarded("send2-" + sv, lambda: sender(sv, sock, 1, 2))
                sender(sv, sock, 0, 2)
            else:
                sender(sv, sock)
        guarded("send-" + sv, accept)

    def client(llc):
        tap_mac(cl, llc, mon, state)
        sock = nfc.llcp.Socket(llc, DATA_LINK_CONNECTION)
        options(sock, cl)

        def connect():
            sock.connect(SERVICE if case["by_name"] else 40)
            guarded("recv-" + cl, lambda: receiver(cl, sock))
            if two[cl]:
                guarded("send2-" + cl, lambda: sender(cl, sock, 1, 2))
                sender(cl, sock, 0, 2)
            else:
                sender(cl, sock)
        guarded("send-" + cl, connect)

    pair.on_connect[sv] = serve
    pair.on_connect[cl] = client
    names = ["send-i", "send-t", "recv-i", "recv-t"] + [
        "send2-" + x for x in sides if two[x]]
    total = len(plan["i"]) + len(plan["t"])
    try:
        pair.start()
        finished = sched.run_until(
            lambda: all(n in done for n in names) or errors
            or state["violation"] is not None or pair.result or pair.exc,
            limit=10.0 + 0.5 * total)
        if state["violation"] is not None:
            raise state["violation"]
        for name, e in errors:
            if isinstance(e, (Violation, HarnessError)):
                raise e
            raise unexpected(e, oracle="application-call-raised")
        for name, e in sched.failures():
            raise unexpected(e, oracle="thread-died")
        if pair.exc:
            side, e = sorted(pair.exc.items())[0]
            raise unexpected(e, oracle="connect-raised")
        if pair.result:
            raise Violation("link-terminated", "connect() returned %r while "
                            "the application threads were at work; sent %r "
                            "rcvd %r" % (pair.result,
                                         [len(sent[s]) for s in sides],
                                         [len(rcvd[s]) for s in sides]))
        if not finished:
            raise Violation("application-stuck", "after %.0f virtual seconds "
                            "on a live link: done=%r blocked=%r sent=%r "
                            "rcvd=%r" % (sched.now, sorted(done),
                                         [repr(t) for t in sched.blocked()],
                                         [len(sent[s]) for s in sides],
                                         [len(rcvd[s]) for s in sides]))
        for s in sides:
            o = "t" if s == "i" else "i"
            if two[o]:
                # two senders: every accepted message arrives once, each
                # sender's messages in its own order
                if not is_interleaving(rcvd[s], sent_by[o][0], sent_by[o][1]):
                    raise Violation("delivery-order", "%s: the %d messages "
                                    "received are not an interleaving of the "
                                    "%d + %d messages the two senders at %s "
                                    "had accepted" % (
                                        s, len(rcvd[s]), len(sent_by[o][0]),
                                        len(sent_by[o][1]), o))
                continue
            if rcvd[s] != sent[o]:
                k = 0
                while k < len(rcvd[s]) and k < len(sent[o]) and \
                        rcvd[s][k] == sent[o][k]:
                    k += 1
                raise Violation("delivery-order", "%s: recv() number %d "
                                "differs from message %d accepted at %s"
                                % (s, k, k, o))
        # let the last acknowledgements travel, then end the link
        sched.sleep(0.3)
        if state["violation"] is not None:
            raise state["violation"]
        pair.terminate["i"] = lambda: True
        pair.terminate["t"] = lambda: True
        sched.run_until(lambda: len(pair.result) + len(pair.exc) == 2, 10.0)
        ends = mon.all_ends()
        nmax = max(len(sent["i"]), len(sent["t"]))
        if nmax >= 17:
            ctx.label("wrap-around")
        if any(e.full for e in ends):
            ctx.label("window-full")
        if any(e.rnr for e in ends):
            ctx.label("rnr-on-wire")
        if any(e.piggy for e in ends):
            ctx.label("piggyback-ack")
        if state["agf"]:
            ctx.label("agf>=2")
        if sent["i"] and sent["t"]:
            ctx.label("both-directions")
        if case["choices"]:
            ctx.label("preemptive-schedule")
        if sched.stalled:
            ctx.label("stalled-threads")
        if two["i"] or two["t"]:
            ctx.label("two-senders-one-socket")
        ctx.label("points:%s" % ("<200" if sched.points < 200 else "<1000"
                                 if sched.points < 1000 else "1000+"))
        if nmax >= 17 or (sent["i"] and sent["t"]) or any(e.rnr for e in ends):
            ctx.nontrivial()
        ctx.note({"sent": [len(sent["i"]), len(sent["t"])],
                  "max_outstanding": [e.max_out for e in ends],
                  "virtual_s": round(sched.now, 3),
                  "sched_points": sched.points, "frames": pair.air.n})
    except Violation:
        if mon.before_cc or state.get("early_data"):
            # data overtook the CC PDU, or arrived before the socket that
            # accept() creates was registered: one class (the CC is queued
            # on the listener) whatever oracle notices
            ctx.set_class("accept/send-before-cc")
        raise
    finally:
        pair.close()


@st.composite
def threads_case(draw, tier):
    maxn = 24 if tier == "quick" else 48
    miu = [draw(miu_st()), draw(miu_st())]
    smiu = [draw(st.one_of(st.just(128), st.integers(128, 2175),
                           st.just(miu[i]))) for i in (0, 1)]
    msg = st.tuples(st.sampled_from([0, 1, 2, 4, 5, 5, 5]),
                    st.integers(0, 2200))
    n = [draw(st.one_of(st.integers(0, maxn), st.sampled_from([0, 17, 20]))),
         draw(st.one_of(st.integers(0, maxn), st.sampled_from([0, 17, 20])))]
    return {"miu": miu, "agf": [draw(st.booleans()), draw(st.booleans())],
            "rw": [draw(st.one_of(st.integers(1, 15),
                                  st.sampled_from([1, 2]))) for _ in (0, 1)],
            "smiu": smiu, "client": draw(st.sampled_from("it")),
            "by_name": draw(st.booleans()),
            "msgs": [draw(st.lists(msg, min_size=k, max_size=k)) for k in n],
            "busy": [draw(st.lists(st.integers(0, 3), max_size=5))
                     for _ in (0, 1)],
            "greet": draw(st.integers(0, 7)) == 0,
            "choices": draw(st.one_of(
                st.just([]), st.lists(st.integers(0, 5), max_size=60),
                st.lists(st.integers(0, 5), max_size=600))),
            "seed": draw(st.integers(0, 1000)),
            # a second application thread sending on the same socket
            "senders2": [draw(st.sampled_from([0, 0, 1])),
                         draw(st.sampled_from([0, 0, 1]))],
            # application threads lose the CPU (virtual time) at generated
            # scheduling points while they hold no lock
            "stalls": draw(st.one_of(st.just([]), st.lists(st.tuples(
                st.sampled_from(["recv-i", "recv-t", "send-i", "send-t",
                                 "send2-i", "send2-t"]),
                st.integers(1, 200),
                st.sampled_from([0.002, 0.005, 0.02, 0.05])), max_size=8)))}


# ------------------------------------- leg: connection histories, one listener
MAXCONN = 10


class HConn(object):
    """one connection of a history: the client socket, the socket accept()
    returned for it and the per-connection delivery record (a Conn)"""

    def __init__(self, cid, case, cl, sock, box):
        self.cid = cid
        self.c = Conn(case)
        # message k of connection cid carries the stamp (cid + 1, k)
        self.c.base = 256 * (cid + 1)
        self.c.sock[cl] = sock
        self.state = "pending"          # pending -> up
        self.box = box                  # the connect() call
        self.addr = None                # client address (after connect)
        self.reader = {}                # side -> [Box, messages taken]
        self.closing = {}               # side -> Box of close()
        self.again = False              # client address used before
        self.order = []                 # sides in the order they closed
        self.stale = False              # ... and its accepted socket is open


class Hist(object):
    def __init__(self, case, pair, ctx, mon):
        self.case, self.pair, self.ctx, self.mon = case, pair, ctx, mon
        self.cl = case.get("client", "a")
        self.sv = other(self.cl)
        self.conns = []
        self.accepted = []              # sockets returned by accept()
        self.taken = set()              # ... indices assigned to a connect()
        self.boxes = []
        self.srv = None
        self.dest = None
        self.backlog = case.get("backlog", 1)
        self.pending_max = 0            # connect() calls waiting at a time
        self.said = set()

    def side(self, role):
        return self.cl if role == "c" else self.sv

    def once(self, name):
        if name not in self.said:
            self.said.add(name)
            self.ctx.label(name)

    def pick(self, k, state="up"):
        if not self.conns:
            return None
        h = self.conns[k % len(self.conns)]
        return h if h.state == state else None


def h_listen(h):
    case, pair, sv = h.case, h.pair, h.sv
    srv = pair.socket(sv, DATA_LINK_CONNECTION)
    h_options(h, srv, sv)
    if case.get("by_name", True):
        srv.bind(SERVICE)
        h.dest = SERVICE
    else:
        srv.bind(40)
        h.dest = 40
    srv.listen(h.backlog)
    h.srv = srv

    def acceptor():
        # the server application: one thread that accepts for ever
        while True:
            try:
                sock = srv.accept()
            except nfc.llcp.Error:
                return
            h.accepted.append(sock)
    pair.call(acceptor, "acceptor")


def h_options(h, sock, side):
    i = "ab".index(side)
    sock.setsockopt(nfc.llcp.SO_RCVBUF, h.case["rw"][i])
    sock.setsockopt(nfc.llcp.SO_RCVMIU, h.case["smiu"][i])


def h_progress(h):
    """bookkeeping after every step: connect() calls that returned, messages
    the blocking readers have taken, helper threads that died"""
    npend = sum(1 for hc in h.conns if hc.state == "pending")
    h.pending_max = max(h.pending_max, npend)
    for hc in h.conns:
        if hc.state == "pending" and hc.box.done:
            if isinstance(hc.box.exc, nfc.llcp.ConnectRefused) and \
                    hc.box.exc.reason == 0x20 and h.pending_max > h.backlog:
                # more connection requests arrived between two runs of the
                # accepting thread than listen(backlog) promised to keep
                hc.state = "refused"
                h.once("refused:backlog-full")
                continue
            if hc.box.exc is not None:
                raise unexpected(hc.box.exc, oracle="connection-setup-failed")
            cli = hc.c.sock[h.cl]
            hc.addr = cli.getsockname()
            # the socket accept() returned for this connect(): the one not
            # yet assigned whose peer is this client socket (an address has
            # one connecting socket at a time)
            acc = None
            for i, a in enumerate(h.accepted):
                if i not in h.taken and (a.getpeername(), a.getsockname()) \
                        == (hc.addr, cli.getpeername()):
                    acc = a
                    h.taken.add(i)
                    break
            if acc is None:
                raise Violation("connect-without-accept", "connect() number "
                                "%d returned on %r <-> %r, accept() has not "
                                "returned a socket for it" % (
                                    hc.cid, hc.addr, cli.getpeername()))
            hc.c.sock[h.sv] = acc
            hc.state = "up"
            before = [p for p in h.conns[:hc.cid] if p.addr == hc.addr]
            if before:
                h.once("client-address-used-again")
                hc.again = True
                if any(h.sv not in p.c.closed for p in before):
                    h.once("earlier-accepted-socket-still-open")
                    hc.stale = True
        for side, (box, got) in sorted(hc.reader.items()):
            h_harvest(h, hc, side, box, got)
    check_threads(h.pair, h.boxes)


def h_harvest(h, hc, side, box, got):
    c = hc.c
    while got:
        c.rcvd[side].append(got.pop(0))
        check_prefix(c, side)
    if not box.done or side in c.eof:
        return
    after_close = bool(c.closed) or bool(c.eof)
    if box.exc is not None:
        if isinstance(box.exc, nfc.llcp.Error) and after_close:
            c.eof.add(side)
            return
        raise unexpected(box.exc, oracle="recv-error")
    if not after_close:
        raise Violation("recv-none", "blocking recv() -> None on connection "
                        "%d which no application has closed" % hc.cid)
    c.eof.add(side)
    h.once("read-until-end-of-stream")


def h_xfer(h, side):
    f = h.pair.xfer(side)
    h_progress(h)
    return f


def h_open(h, sync):
    if len(h.conns) >= MAXCONN:
        return
    cli = h.pair.socket(h.cl, DATA_LINK_CONNECTION)
    h_options(h, cli, h.cl)
    dest = h.dest
    hc = HConn(len(h.conns), h.case, h.cl, cli, None)
    hc.box = h.pair.call(lambda: cli.connect(dest), "connect-%d" % hc.cid)
    h.conns.append(hc)
    h_progress(h)
    if sync:
        for _ in range(3 + 2 * len(h.conns)):
            if hc.state != "pending":
                break
            h_xfer(h, h.cl)
            h_xfer(h, h.sv)
        else:
            raise Violation("connection-setup-stuck", "connect() number %d "
                            "did not return after %d exchange rounds"
                            % (hc.cid, 3 + 2 * len(h.conns)))


def h_stray(h, k):
    """the server side device sends a CONNECT to the address of the client
    end of connection k: an established connection is no listener, the
    CONNECT is refused (DM) and the connection goes on undisturbed"""
    hc = h.pick(k)
    if hc is None or h.cl in hc.c.closed or h.cl in hc.c.eof or \
            getattr(h, "nstray", 0) >= 3:
        return
    h.nstray = getattr(h, "nstray", 0) + 1
    try:
        addr = hc.c.sock[h.cl].getsockname()
    except nfc.llcp.Error:
        return
    if addr is None:
        return
    s = h.pair.socket(h.sv, DATA_LINK_CONNECTION)

    def stray():
        try:
            s.connect(addr)
        except nfc.llcp.Error:
            pass
        try:
            s.close()
        except nfc.llcp.Error:
            pass
    h.boxes.append(h.pair.call(stray, "stray-%d" % h.nstray))
    h.once("stray-connect-to-established-socket")
    h_progress(h)


def h_close(h, k, role, sync):
    hc = h.pick(k)
    side = h.side(role)
    if hc is None or side in hc.c.closed:
        return
    if side in hc.reader and not hc.reader[side][0].done:
        # another thread of this application sits in recv(): not generated
        return
    sock = hc.c.sock[side]
    if not hc.c.closed and not hc.c.eof:
        try:
            if sock.poll("recv", 0):
                h.once("close-with-unread-data")
        except nfc.llcp.Error as err:
            raise unexpected(err, oracle="poll-error")
    hc.c.closed.add(side)
    hc.order.append(side)
    box = h.pair.call(sock.close, "close-%d%s" % (hc.cid, role))
    hc.closing[side] = box
    h.boxes.append(box)
    h_progress(h)
    if sync:
        for _ in range(24):
            if box.done:
                break
            if not ((h_xfer(h, side) is not None)
                    | (h_xfer(h, other(side)) is not None)):
                break


def h_reader(h, k, role):
    hc = h.pick(k)
    side = h.side(role)
    if hc is None or side in hc.reader or side in hc.c.closed \
            or side in hc.c.eof:
        return
    sock = hc.c.sock[side]
    got = []

    def body():
        # the way a server thread reads: until the end of the stream
        while True:
            m = sock.recv()
            if m is None:
                return
            got.append(bytes(m))
    box = h.pair.call(body, "reader-%d%s" % (hc.cid, role))
    hc.reader[side] = [box, got]
    h_progress(h)


def h_recv(h, hc, side, drain=False):
    if side in hc.reader:
        return 0
    return do_recv(hc.c, side, h.ctx, drain=drain)


def h_check(h):
    """exchange until the link is quiet, receive what has arrived: on every
    connection that no application has closed each accepted message has
    now been received"""
    idle = 0
    for _ in range(400):
        moved = (h_xfer(h, "a") is not None) + (h_xfer(h, "b") is not None)
        got = 0
        for hc in h.conns:
            if hc.state == "up":
                for side in "ab":
                    n0 = len(hc.c.rcvd[side])
                    h_recv(h, hc, side, drain=True)
                    got += len(hc.c.rcvd[side]) - n0
        idle = 0 if (moved or got) else idle + 1
        if idle >= 3:
            break
    else:
        raise Violation("link-never-quiescent", "controllers still exchange "
                        "PDUs after 400 rounds without application calls")
    for hc in h.conns:
        c = hc.c
        if hc.state == "pending":
            raise Violation("connection-setup-stuck", "connect() number %d "
                            "has not returned and the link is quiet" % hc.cid)
        if c.closed or c.eof:
            continue
        for side in "ab":
            want = c.sent[other(side)]
            if c.rcvd[side] != want:
                raise Violation("message-lost", "connection %d (client "
                                "address %r): %s received %d of the %d "
                                "messages accepted at %s, nothing more arrives"
                                % (hc.cid, hc.addr, side, len(c.rcvd[side]),
                                   len(want), other(side)))


def h_step(h, op):
    name = op[0]
    if name == "closelistener":
        # the server application stops listening; the connections it has
        # accepted go on
        # (not while a connection request is on its way: a CONNECT that finds
        # nothing bound at its destination address gets no answer from this
        # stack, which no listed property speaks about)
        if not getattr(h, "listener_closed", False) and \
                not any(hc.state == "pending" for hc in h.conns):
            h.listener_closed = True
            srv = h.srv
            h.boxes.append(h.pair.call(srv.close, "close-listener"))
            h_progress(h)
        return
    if name == "stray":
        h_stray(h, op[1])
        return
    if name == "open":
        if getattr(h, "listener_closed", False):
            return
        h_open(h, bool(op[1]))
    elif name == "x":
        h_xfer(h, op[1])
    elif name == "check":
        h_check(h)
    elif name in ("send", "recv", "close", "reader"):
        hc = h.pick(op[1])
        if hc is None:
            return
        side = h.side(op[2])
        if name == "send":
            do_send(hc.c, side, op[3], op[4], h.ctx, h.mon)
        elif name == "recv":
            h_recv(h, hc, side)
        elif name == "close":
            h_close(h, op[1], op[2], bool(op[3]))
        else:
            h_reader(h, op[1], op[2])
        h_progress(h)
    else:
        raise HarnessError("unknown op %r" % (op,))


def run_history(case, ctx):
    ctx.set_class("history")
    pair = LlcPair(case["miu"][0], case["miu"][1], bool(case["agf"][0]),
                   bool(case["agf"][1]))
    try:
        mon = ref_window.Monitor()

        def tap(frame):
            try:
                mon.on_wire(frame.src, other(frame.src), frame.ref)
            except ref_window.WindowViolation as w:
                raise Violation(w.oracle, w.detail)
        pair.taps.append(tap)
        h = Hist(case, pair, ctx, mon)
        h_listen(h)
        for op in case["ops"]:
            h_step(h, op)
        h_check(h)
        up = [hc for hc in h.conns if hc.state == "up"]
        nmsg = [len(hc.c.rcvd["a"]) + len(hc.c.rcvd["b"]) for hc in up]
        live = [hc for hc in up if not (hc.c.closed or hc.c.eof)]
        again = [hc for hc in up if hc.again
                 and (hc.c.rcvd["a"] or hc.c.rcvd["b"])]
        busy_live = [hc for hc in live if hc.c.rcvd["a"] or hc.c.rcvd["b"]]
        ctx.label("connections:%s" % ("0" if not up else "1" if len(up) == 1
                                      else "2-3" if len(up) < 4 else "4+"))
        if again:
            ctx.label("traffic-after-reconnect-from-same-address")
        if any(hc.stale and hc.c.rcvd[h.sv] for hc in up):
            ctx.label("client-data-past-earlier-accepted-socket")
        if len(busy_live) >= 2:
            ctx.label("traffic-on-simultaneous-connections")
        if any(hc.order[:1] == [h.sv] for hc in up):
            ctx.label("server-closes-first")
        if any(hc.order == [h.cl, h.sv] for hc in up):
            ctx.label("server-closes-after-client")
        if any(hc.order == [h.cl] for hc in up):
            ctx.label("server-never-closes")
        if any(not b.done for b in h.boxes):
            ctx.label("close-pending-at-end")
        if any(hc.c.wouldblock for hc in up):
            ctx.label("send-wouldblock")
        if again or len(busy_live) >= 2:
            ctx.nontrivial()
        ctx.note({"connections": len(up), "messages": nmsg,
                  "addresses": [hc.addr for hc in up]})
    finally:
        pair.close()


def _tok(draw, t, k):
    kind = t[0]
    if kind == "s":
        return ["send", k, t[1], draw(st.sampled_from([5, 5, 5, 0, 1, 2, 3])),
                draw(st.integers(0, 2200))]
    if kind == "r":
        return ["recv", k, t[1]]
    if kind == "x":
        return ["x", "ab"[draw(st.integers(0, 1))] if t[1] == "?" else t[1]]
    raise HarnessError(t)


TALK = ["sc xc rs xs", "ss xs rc xc", "sc ss xc xs rs rc", "sc sc sc xc xc xc "
        "rs rs rs xs", "ss ss ss xs xs xs rc rc rc xc", "sc", "ss", "sc xc",
        "ss xs", "rc", "rs", "xc", "xs", "xc xs"]


@st.composite
def history_case(draw, max_ops):
    cl = draw(st.sampled_from("ab"))
    xmap = {"c": cl, "s": other(cl)}
    ops = []
    later = []                      # close operations put off
    nopen = 0

    def talk(k):
        for _ in range(draw(st.integers(0, 5))):
            # mostly the newest connection, sometimes an older one
            kk = k if draw(st.integers(0, 3)) else draw(st.integers(0, 9))
            if draw(st.integers(0, 9)) == 0:
                ops.append(["stray", kk])
            for t in draw(st.sampled_from(TALK)).split():
                if t[0] == "x":
                    ops.append(["x", xmap[t[1]]])
                else:
                    ops.append(_tok(draw, t, kk))
            if draw(st.integers(0, 7)) == 0:
                ops.append(["check"])

    for _ in range(draw(st.integers(1, 7))):
        if later and draw(st.booleans()):
            ops.append(later.pop(draw(st.integers(0, len(later) - 1))))
        if nopen >= MAXCONN:
            break
        k = nopen
        nopen += 1
        ops.append(["open", int(draw(st.integers(0, 3)) > 0)])
        if draw(st.integers(0, 5)) == 0:
            # the next connection is requested while this one is set up
            continue
        talk(k)
        if draw(st.integers(0, 3)) == 0:
            ops.append(["reader", k, draw(st.sampled_from("sssc"))])
            talk(k)
        end = draw(st.sampled_from(["c", "c", "c", "s", "s", "-"]))
        if end == "-":
            continue                # stays open next to the following ones
        sync = int(draw(st.integers(0, 3)) > 0)
        ops.append(["close", k, end, sync])
        far = "s" if end == "c" else "c"
        when = draw(st.sampled_from(["never", "now", "later", "later"]))
        if when != "never":
            talk(k)                 # calls on a connection that has ended
        if when == "now":
            ops.append(["close", k, far, sync])
        elif when == "later":
            later.append(["close", k, far, 1])
    while later and draw(st.booleans()):
        ops.append(later.pop(0))
    if draw(st.integers(0, 2)) == 0:
        # the server application stops listening at some point behind the
        # last connection set-up; the connections it accepted live on
        last_open = max(i for i, o in enumerate(ops) if o[0] == "open")
        at = draw(st.integers(last_open + 1, len(ops)))
        ops.insert(at, ["closelistener"])
        for _ in range(draw(st.integers(1, 3))):
            talk(draw(st.integers(0, max(0, nopen - 1))))
    return {"miu": [draw(miu_st()), draw(miu_st())],
            "agf": [draw(st.booleans()), draw(st.booleans())],
            "rw": [draw(st.sampled_from([1, 1, 2, 3, 15])) for _ in (0, 1)],
            "smiu": [draw(st.sampled_from([128, 128, 200, 2175]))
                     for _ in (0, 1)],
            "client": cl, "by_name": draw(st.booleans()),
            "backlog": draw(st.integers(1, 3)), "ops": ops[:max_ops]}


H_ALPHABET = [["open", 1], ["close", -1, "c", 1], ["close", 0, "s", 1],
              ["send", -1, "c", 5, 1], ["send", -1, "s", 5, 1],
              ["reader", -1, "s"], ["x", "a"], ["x", "b"], ["closelistener"]]


def enum_history(tier, seed):
    maxlen = 4 if tier == "quick" else 6
    for rw in ([1, 1], [2, 2]):
        for n in range(1, maxlen + 1):
            for seq in itertools.product(range(len(H_ALPHABET)), repeat=n - 1):
                # a history without a connection has nothing to show
                yield {"miu": [128, 128], "agf": [False, False], "rw": rw,
                       "smiu": [128, 128], "client": "a", "by_name": False,
                       "backlog": 1,
                       "ops": [H_ALPHABET[0]] + [H_ALPHABET[i] for i in seq]}


# ------------------------------------------ leg: closing behind delivered data
# The sender's messages have crossed the link and sit - received and
# acknowledged - in the receiver's queue when the sender closes.  The
# receiving application reads them afterwards: "every message accepted by
# send() is returned by the peer's recv() exactly once", then the end of the
# stream.
def run_close_unread(case, ctx):
    ctx.set_class("close-unread")
    pair = LlcPair(128, 128, bool(case["agf"]), bool(case["agf"]))
    try:
        sv, cl = ("b", "a") if case["client"] == "a" else ("a", "b")
        srv = pair.socket(sv, DATA_LINK_CONNECTION)
        srv.setsockopt(nfc.llcp.SO_RCVBUF, case["rw"])
        srv.bind(40)
        srv.listen(1)
        acc = {}

        def acceptor():
            acc["sock"] = srv.accept()
        pair.call(acceptor, "acceptor")
        cli = pair.socket(cl, DATA_LINK_CONNECTION)
        cli.setsockopt(nfc.llcp.SO_RCVBUF, case["rw"])
        box = pair.call(lambda: cli.connect(40), "connect")
        pair.pump(4, first=cl)
        if not box.done or box.exc is not None or "sock" not in acc:
            raise HarnessError("close-unread: no connection (%r)" % box.exc)
        ends = {cl: cli, sv: acc["sock"]}
        snd = case["sender"]
        rcv = other(snd)
        sent = []
        for i in range(case["n"]):
            msg = message(i, 5 + i)
            if ends[snd].send(msg, nfc.llcp.MSG_DONTWAIT):
                sent.append(msg)
        # everything crosses the link and is acknowledged - or, with
        # "crossed" k, only k exchanges happen before the sender closes: the
        # accepted messages are then still (partly) in the sender's queue
        crossed = case.get("crossed")
        pair.pump(2 + 2 * case["n"] if crossed is None else crossed,
                  first=snd)
        # some of it may be read before the peer closes
        got = []
        for _ in range(case["read_before"]):
            if ends[rcv].poll("recv", 0):
                got.append(bytes(ends[rcv].recv()))
        cbox = pair.call(ends[snd].close, "close")
        pair.pump(4 if crossed is None else 6 + 2 * case["n"], first=snd)
        for _ in range(case["n"] + 2):
            try:
                if not ends[rcv].poll("recv", 0):
                    break
                m = ends[rcv].recv()
            except nfc.llcp.Error:
                break
            if m is None:
                break
            got.append(bytes(m))
        for name, exc in pair.failures():
            raise unexpected(exc, oracle="thread-died")
        ctx.label("sent:%d" % len(sent), "read-before-close:%d" % min(
            case["read_before"], len(sent)),
            "exchanges-before-close:%s" % ("all" if crossed is None
                                           else crossed))
        if len(sent) > case["read_before"]:
            ctx.nontrivial()
        if got != sent:
            raise Violation("message-lost", "%d message(s) had been accepted"
                            "%s before %s closed; %s "
                            "read %d of them before and got %r in total"
                            % (len(sent), ", delivered and acknowledged"
                               if crossed is None else " (%d exchanges "
                               "happened)" % crossed, snd, rcv,
                               case["read_before"], [len(x) for x in got]))
        if not cbox.done:
            ctx.label("close-pending")
    finally:
        pair.close()


def enum_close_unread(tier, seed):
    for client in "ab":
        for sender in "ab":
            for agf in (False, True):
                for rw in (1, 2, 3, 15):
                    for n in range(1, min(rw, 4) + 1):
                        for rb in range(0, n + 1):
                            yield {"client": client, "sender": sender,
                                   "agf": agf, "rw": rw, "n": n,
                                   "read_before": rb}
                        # the sender closes while accepted messages still
                        # wait in its send queue
                        for crossed in range(0, 2 * n):
                            yield {"client": client, "sender": sender,
                                   "agf": agf, "rw": rw, "n": n,
                                   "read_before": 1 if crossed > 1 else 0,
                                   "crossed": crossed}


LEGS = [
    Leg("close-unread", run=run_close_unread, enum=enum_close_unread,
        exhaustive=True, shards_quick=4, shards_thorough=8,
        rule="one connection, either side client, either side sender, RW 1 / "
             "2 / 3 / 15, aggregation on / off: 1..min(RW,4) messages are "
             "accepted, cross the link and are acknowledged; the receiving "
             "application reads 0..n of them, then the SENDER closes (DISC), "
             "then the receiver reads on: it gets every message once and in "
             "order before the end of the stream; also with only 0..2n-1 "
             "exchanges between the (non-blocking) sends and the close, so "
             "that accepted messages still wait in the sender's queue when "
             "it closes.  Non-trivial = messages "
             "were still unread when the sender closed."),
    Leg("machine", run=run_machine,
        gen=lambda tier: machine_case(150 if tier == "quick" else 400),
        quick=1200, thorough=12000, shards_quick=12, shards_thorough=16,
        nt_floor=0.2,
        rule="histories of <=150 (quick) / <=400 (thorough) application calls "
             "and single exchanges on one connection, link MIU 128..2175 and "
             "connection MIU per side, RW 0..15 per side, aggregation on/off "
             "per side, client side and connect by name/address drawn; "
             "non-trivial = >=17 messages in one direction (N(S) wraps) or "
             "window of RW>=2 completely used or send refused with "
             "EWOULDBLOCK or RNR on the wire or I PDUs in consecutive "
             "opposite exchanges; distinct by case hash."),
    Leg("enum", run=run_enum, enum=enum_cases, exhaustive=True,
        shards_quick=4, shards_thorough=16,
        rule="all histories of length <=4 (quick) / <=6 (thorough) over "
             "{send a, send b, recv a, recv b, exchange a->b, exchange b->a} "
             "x RW(a),RW(b) in {1,2}; non-trivial = at least one message "
             "accepted."),
    Leg("history", run=run_history,
        gen=lambda tier: history_case(160 if tier == "quick" else 400),
        quick=600, thorough=8000, shards_quick=8, shards_thorough=16,
        nt_floor=0.3,
        rule="histories of <=160 (quick) / <=400 (thorough) calls on ONE "
             "listening socket (controllers pumped by the harness, one "
             "accepting thread): up to 10 successive and overlapping "
             "connections from one client controller (connect by name or "
             "address, the client sockets get the lowest free address, so "
             "addresses come back after close + reconnect), per connection "
             "non-blocking send (sizes around the connection MIU) / recv on "
             "either end, a blocking read-until-end thread, single "
             "exchanges, 'exchange until quiet and compare' steps; either "
             "end closes first, the other end at once, later or never; up to "
             "three stray CONNECTs from the server device to the address of "
             "an established client socket (refused, the connection goes "
             "on); "
             "link MIU, connection MIU, RW in {1,2,3,15}, aggregation, "
             "backlog 1-3, client side drawn. Judged per connection: recv() "
             "results are a prefix of that connection's accepted messages "
             "(payloads carry connection and message number), complete on "
             "every connection nobody closed once the link is quiet; window "
             "monitor on all connections. A server end never sends before "
             "the client's connect() returned (known finding accept/"
             "send-before-cc is left to the other legs). non-trivial = a "
             "message was received on a connection whose client address an "
             "earlier connection had used, or on two connections that both "
             "stay open; distinct by case hash."),
    Leg("history-enum", run=run_history, enum=enum_history, exhaustive=True,
        shards_quick=4, shards_thorough=16,
        rule="open + every sequence of <=3 (quick) / <=5 (thorough) further "
             "steps over {open, client closes newest connection, server "
             "closes oldest connection, client sends / server sends on the "
             "newest connection, server reads the newest connection until "
             "its end, exchange a->b, exchange b->a} (open and close "
             "exchange until they have returned) x RW 1,1 / 2,2, final "
             "exchange-until-quiet and compare; non-trivial as in history."),
    Leg("senders-enum", run=run_senders, enum=enum_senders, exhaustive=True,
        shards_quick=8, shards_thorough=16,
        rule="two threads sending 3 messages each (blocking) on one data "
             "link connection (controllers pumped by the harness, no pause "
             "between dispatch() and the next collect()), RW 1-3, "
             "aggregation on/off, receiver taking 1 / 1,0,0 / 0,2 / 3 "
             "messages per round x one forced pick of another runnable "
             "thread (2 alternatives) at every scheduling point of the "
             "sending phase (thorough: also pairs of forced picks within 12 "
             "points): woken sender against arriving sender against link "
             "dispatch; non-trivial = the send window was full at some "
             "point."),
    Leg("senders", run=run_senders, gen=lambda tier: senders_case(),
        quick=300, thorough=6000, shards_quick=6, shards_thorough=16,
        nt_floor=0.3,
        rule="same with generated RW 1..4, 1..6 messages of 2..128 bytes per "
             "sender, aggregation, receiver pace and choice lists <= 40."),
    Leg("threads-preempt", run=run_threads, enum=enum_preempt,
        exhaustive=True, shards_quick=16, shards_thorough=16,
        rule="12 (thorough 24) fixed scenarios over two complete stacks with "
             "two application threads sending on one socket (RW 1-3, "
             "aggregation on/off, one or both directions) x one forced pick "
             "of another runnable thread (2 alternatives) at every "
             "scheduling point of the scenario; non-trivial as in threads."),
    Leg("threads", run=run_threads, gen=lambda tier: threads_case(tier),
        quick=400, thorough=6000, shards_quick=8, shards_thorough=16,
        nt_floor=0.3,
        rule="two complete stacks over the simulated medium; on each side a "
             "blocking sender thread (0..24 quick / 0..48 thorough messages "
             "of drawn sizes <= connection MIU) and a blocking receiver "
             "thread with drawn busy (RNR) pauses, RW 1..15, link/connection "
             "MIU, aggregation, client role drawn; the thread schedule is a "
             "drawn choice list of up to 600 decisions; non-trivial = >=17 "
             "messages one way or traffic both ways or RNR on the wire."),
]

# the same searches with every nfc logger enabled down to the lowest level
# (code that only runs, or only evaluates its arguments, when logging is on)
_byl = dict((lg.name, lg) for lg in LEGS)
LEGS += [twin_env(_byl[n], "log", {"VERIF_LOG": "debug"}, quick=q, thorough=t,
                  shards_quick=2)
         for n, q, t in [('machine', 150, 1500)] if n in _byl]
