"""C18 - connect() and sense() honour their documented contract.

leg `connect`: generated option dictionaries for rdwr / llcp / card (each
present or not, callbacks returning true / false / None / other types, targets,
iterations, interval, role, beep-on-connect) in generated environments (empty
field; a Type 2 or Type 3 tag that stays for a number of exchanges; a peer
device = second nfcpy stack that releases after some time; a remote reader
that activates the emulated card, sends a few commands and switches its field
off; a device raising IOError or UnsupportedTargetError at some driver call)
with terminate() turning true at its m-th call.  All callbacks and driver
calls are recorded on one time line.

Oracle (from the connect() docstring)
  * every on-startup call precedes every discovery driver call
  * per option kind the callbacks of an activation come in the order
    on-discover, on-connect, on-release; on-release is called exactly once for
    every on-connect that returned a true value and never otherwise, with the
    same object
  * return value: None if no option survived on-startup (then the driver is
    not touched) or terminate() ended the loop; False when the device raised
    IOError / UnsupportedTargetError; the very object given to on-connect when
    that returned a false value; otherwise the (true) value of on-release
  * once terminate() has returned true no new activation is started and
    connect() returns within a bounded number of driver calls
  * connect() raises nothing

leg `rounds`: the same options in a field that changes while ONE connect()
call is running: a script of episodes in virtual time (peer device as
initiator / target, Type 2 / Type 3 tag, remote reader, nobody, with pauses
in between), on-release mostly returning a false value so that connect() goes
through several discovery rounds and activations, terminate() turning true in
the middle of an episode or after the last one.  Same oracle, plus: an
on-discover / on-connect callback is only made after the driver really
completed a discovery / activation since the previous one (`act` entries of
the time line; also applied in the `connect` leg).

leg `sense`: target lists mixing supported, unsupported (bit rate/technology
the driver rejects) and invalid targets with zero/one/several tags present:
several targets never raise, the first present target in argument order is
returned, the last driver call after an unsuccessful sense is mute(), and
exchange() after an unsuccessful sense/listen returns None without touching
the driver; the exchange direction follows the last found target.
"""
from hypothesis import strategies as st

import nfc
import nfc.clf
import nfc.llcp
import nfc.tag

from vlib import ref_tlv, simdev, simtags, vsched
from vlib.engine import Leg, Violation, unexpected

PROPERTY = "C18"
LEVEL = "exploration"
ASSUMPTIONS = [
    "environment = simulated device (vlib/simdev.py SimDevice extended with a "
    "scripted tag, a scripted remote reader and host faults) and, for "
    "peer-to-peer, a second nfcpy stack under the virtual scheduler",
    "an on-release callback returning a false value keeps connect() looping; "
    "that is not documented either way and only labelled",
    "SystemExit leaving connect() after an IOError inside the LLCP run loop "
    "is reported as a violation of 'returns False' (known finding)",
    "'an activation really happened' is read off the simulated driver: a "
    "sense_tt* / listen_tt* / listen_dep call returned a target or an NFC-DEP "
    "ATR_RES was handed to the stack since the previous callback of that "
    "name",
    "rounds leg: counterparts come and go at scripted virtual times; every "
    "driver call of the device under test takes 1 ms of virtual time; a tag "
    "that left and came back needs a new activation",
]


def setup():
    vsched.patch_nfc()


# -------------------------------------------------------------- environment
def make_tag(kind):
    if kind == "t2t":
        mem, _ = ref_tlv.build({"kind": "t2t", "size": 6, "extra": 0,
                                "ctrl": [], "nulls": 0}, b"\xd0\x00\x00")
        return simtags.T2Tag(mem)
    if kind == "t3t":
        return simtags.T3Tag(simtags.t3_image(0x10, 4, 1, 4, 3,
                                              b"\xd0\x00\x00"))
    if kind == "t1t":
        # Type 1 Tag: answers with SENS_RES and RID_RES only (no SEL_RES)
        mem, _ = ref_tlv.build({"kind": "t1t", "size": 14, "extra": 0,
                                "ctrl": [], "nulls": 0}, b"\xd0\x00\x00")
        return simtags.T1Tag(mem)
    if kind in ("t4a", "t4a+dep"):
        from vlib import isodep_card
        app = isodep_card.T4App(0x20, 255, 255, 64, 64, b"\xd0\x00\x00")
        tag = isodep_card.T4Tag(app, "A", 8, 4, None, 0)
        if kind == "t4a+dep":
            # a Type 4A tag that also announces NFC-DEP: SEL_RES 60h
            plain = tag.target

            def target(poll):
                t = plain(poll)
                if t is not None:
                    t.sel_res = bytearray(b"\x60")
                return t
            tag.target = target
        return tag
    return None


def is_atr_res(frame):
    """NFC-DEP ATR_RES as the driver hands it up (106A: SB F0 first)"""
    f = bytes(frame or b"")
    if f[:1] == b"\xF0":
        f = f[1:]
    return len(f) >= 3 and f[0] == len(f) and f[1:3] == b"\xD5\x01"


class EnvDevice(simdev.SimDevice):
    def __init__(self, air, name, env, trace):
        simdev.SimDevice.__init__(self, air, name)
        self.env = env
        self.trace = trace
        self.tag = None
        self.tag_life = env.get("tag_life", 0)
        self.tag_active = False
        self.reader_visits = env.get("reader_visits", 0)
        self.reader_cmds = 0
        self.card_active = False
        self.dcalls = 0
        self.tag = make_tag(env.get("tag"))

    def _act(self, what, result):
        """time line entry when the driver really completed a discovery /
        activation step (the ground truth for 'an activation happened')"""
        if result is not None:
            self.trace.append(("act", what))
        return result

    def _call(self, name):
        self.dcalls += 1
        self.trace.append(("drv", name, self.dcalls))
        f = self.env.get("fault")
        if f and self.dcalls == f[1]:
            if f[0] == "ioerror":
                raise IOError(5, "sim: device gone")
            raise nfc.clf.UnsupportedTargetError("sim: unsupported")
        simdev.SimDevice._call(self, name)

    def _tag_here(self):
        return self.tag is not None and self.tag_life > 0

    def mute(self):
        simdev.SimDevice.mute(self)
        self.tag_active = False
        self.card_active = False
        if self.tag is not None:
            self.tag.reset()

    def sense_tta(self, target):
        return self._act("sense", self._sense_tta(target))

    def sense_ttf(self, target):
        return self._act("sense", self._sense_ttf(target))

    def listen_dep(self, target, timeout):
        return self._act("listen_dep", simdev.SimDevice.listen_dep(
            self, target, timeout))

    def listen_ttf(self, target, timeout):
        return self._act("listen", self._listen_ttf(target, timeout))

    def send_cmd_recv_rsp(self, target, data, timeout):
        rsp = self._send_cmd_recv_rsp(target, data, timeout)
        if is_atr_res(rsp):
            self.trace.append(("act", "atr_res"))
        return rsp

    def _sense_tta(self, target):
        if self._tag_here() and self.tag.tech == "A" and \
                target.brty == "106A":
            self._call("sense_tta")
            t = self.tag.target(target)
            if t is not None:
                self.tag_active = True
                return t
            return None
        return simdev.SimDevice.sense_tta(self, target)

    def _sense_ttf(self, target):
        if self._tag_here() and self.tag.tech == "F" and \
                target.brty in ("212F", "424F"):
            self._call("sense_ttf")
            t = self.tag.target(target)
            if t is not None:
                self.tag_active = True
                return t
            return None
        return simdev.SimDevice.sense_ttf(self, target)

    def _send_cmd_recv_rsp(self, target, data, timeout):
        if self.tag_active:
            self._call("send_cmd_recv_rsp")
            self.tag_life -= 1
            if self.tag_life <= 0:
                raise nfc.clf.TimeoutError("sim: tag left the field")
            rsp = self.tag.command(bytes(data), timeout)
            if rsp is None:
                raise nfc.clf.TimeoutError("sim: no response")
            return bytearray(rsp)
        return simdev.SimDevice.send_cmd_recv_rsp(self, target, data, timeout)

    def _idle_listen(self, name, timeout):
        self._call(name)
        vsched.current().sleep(min(timeout, 0.3))
        return None

    def listen_tta(self, target, timeout):
        return self._idle_listen("listen_tta", timeout)

    def listen_ttb(self, target, timeout):
        self._call("listen_ttb")
        raise nfc.clf.UnsupportedTargetError("sim: no type b listen")

    def _listen_ttf(self, target, timeout):
        if self.reader_visits > 0:
            self._call("listen_ttf")
            self.reader_visits -= 1
            self.reader_cmds = self.env.get("reader_cmds", 2)
            self.card_active = True
            t = nfc.clf.LocalTarget(target.brty)
            t.sensf_res = bytearray(target.sensf_res)
            idm = bytes(target.sensf_res[1:9])
            t.tt3_cmd = bytearray(b"\x04" + idm)       # Request Response
            return t
        return self._idle_listen("listen_ttf", timeout)

    def send_rsp_recv_cmd(self, target, data, timeout):
        if self.card_active:
            self._call("send_rsp_recv_cmd")
            if self.reader_cmds > 0:
                self.reader_cmds -= 1
                idm = bytes(target.sensf_res[1:9])
                return bytearray(b"\x0a\x04" + idm)
            raise nfc.clf.BrokenLinkError("sim: reader switched field off")
        return simdev.SimDevice.send_rsp_recv_cmd(self, target, data, timeout)


# ----------------------------------------------------------------- options
RET = st.sampled_from([True, False, None, 1, 0, "x", ""])


def kind_opts(kind):
    d = {
        "startup": st.sampled_from(
            ["ok"] * 7 + (["default"] * 3 if kind != "card" else ["default"])
            + ["none", "wrong"]
            # documented: "an empty list or anything else that evaluates
            # false will remove the 'rdwr' option completely"
            + (["empty", "emptytuple", "subset"] if kind == "rdwr" else [])),
        "discover": st.sampled_from(["default", True, True, False]),
        "connect": st.one_of(st.just("default"), RET),
        "release": st.one_of(st.just("default"), st.just("default"), RET),
    }
    if kind == "rdwr":
        d["targets"] = st.sampled_from([None, [], ["106A"], ["212F"],
                                        ["106A", "106B", "212F"],
                                        ["106B"], ["424F", "106A"]])
        d["iterations"] = st.sampled_from([None, 1, 2])
        d["interval"] = st.sampled_from([None, 0.05])
        d["beep"] = st.sampled_from([None, True, False])
    if kind == "llcp":
        d["role"] = st.sampled_from([None, "initiator", "target"])
        d["lto"] = st.sampled_from([100, 500])
    if kind == "card":
        d["brty"] = st.sampled_from(["212F", "424F"])
    return st.fixed_dictionaries(d)


def case_strategy():
    return st.fixed_dictionaries({
        "rdwr": st.one_of(st.none(), kind_opts("rdwr"), kind_opts("rdwr"),
                          kind_opts("rdwr")),
        "llcp": st.one_of(st.none(), kind_opts("llcp")),
        "card": st.one_of(st.none(), st.none(), kind_opts("card")),
        "env": st.fixed_dictionaries({
            "tag": st.sampled_from([None, "t2t", "t2t", "t3t", "t3t", "t4a",
                                    "t4a+dep", "t4a+dep", "t1t", "t1t"]),
            "tag_life": st.sampled_from([3, 12, 30, 1000, 1000]),
            "peer": st.sampled_from([None, None, "initiator", "target"]),
            "peer_time": st.sampled_from([0.3, 1.0, 3.0]),
            "reader_visits": st.sampled_from([0, 1, 1, 2]),
            "reader_cmds": st.integers(0, 3),
            "fault": st.one_of(st.none(), st.none(), st.tuples(
                st.sampled_from(["ioerror", "unsupported"]),
                st.integers(1, 25)))}),
        "terminate_at": st.integers(1, 14),
        "seed": st.integers(0, 255)})


def enum_tagtypes(tier, seed):
    """every supported tag type in a stable field x rdwr callbacks: a tag the
    application accepts must reach on-connect"""
    # every tag type while connect() also tries peer to peer as initiator or
    # target (rdwr declining or absent): the tag is not a peer, connect()
    # keeps polling until terminate
    for tag in ("t1t", "t2t", "t3t", "t4a", "t4a+dep"):
        for role in (None, "initiator", "target"):
            for rdwr in (None, False):
                yield {
                    "rdwr": None if rdwr is None else {
                        "startup": "default", "discover": False,
                        "connect": True, "release": True, "targets": None,
                        "iterations": None, "interval": None, "beep": None},
                    "llcp": {"startup": "default", "discover": "default",
                             "connect": True, "release": True, "role": role,
                             "lto": 100},
                    "card": None,
                    "env": {"tag": tag, "tag_life": 1000, "peer": None,
                            "peer_time": 0.3, "reader_visits": 0,
                            "reader_cmds": 0, "fault": None},
                    "terminate_at": 8, "seed": 0}
    for tag in ("t1t", "t2t", "t3t", "t4a", "t4a+dep"):
        for discover in (True, "default", False):
            for connect in (True, False, 1):
                for targets in (None, ["106A", "212F"], ["212F", "106A"]):
                    for term in (6, 14):
                        yield {
                            "rdwr": {"startup": "default",
                                     "discover": discover, "connect": connect,
                                     "release": True, "targets": targets,
                                     "iterations": None, "interval": None,
                                     "beep": None},
                            "llcp": None, "card": None,
                            "env": {"tag": tag, "tag_life": 1000,
                                    "peer": None, "peer_time": 0.3,
                                    "reader_visits": 0, "reader_cmds": 0,
                                    "fault": None},
                            "terminate_at": term, "seed": 0}


def build_options(case, trace, objects):
    """the keyword arguments of connect() for a case, with recording
    callbacks"""
    def cb(kind, name, spec, default):
        def f(arg):
            trace.append(("cb", kind, name, id(arg), type(arg).__name__))
            objects[id(arg)] = arg
            if name == "startup":
                if spec == "ok":
                    if kind == "card":
                        arg.brty = case["card"]["brty"]
                        arg.sensf_res = bytearray.fromhex(
                            "0102FE010203040506FFFFFFFFFFFFFFFF12FC")
                    return arg
                if spec == "none":
                    return None
                if spec == "empty":
                    return []
                if spec == "emptytuple":
                    return ()
                if spec == "subset":
                    return arg[:1]
                return 42
            return spec
        return f

    options = {}
    for kind in ("rdwr", "llcp", "card"):
        spec = case[kind]
        if spec is None:
            continue
        o = {}
        for name in ("startup", "discover", "connect", "release"):
            if kind == "llcp" and name == "discover":
                continue              # peer to peer has no on-discover
            if spec[name] != "default":
                o["on-" + name] = cb(kind, name, spec[name], None)
        if kind == "rdwr":
            if spec["targets"] is not None:
                o["targets"] = spec["targets"]
            if spec["iterations"] is not None:
                o["iterations"] = spec["iterations"]
            else:
                o["iterations"] = 2
            o["interval"] = spec["interval"] or 0.05
            if spec["beep"] is not None:
                o["beep-on-connect"] = spec["beep"]
        if kind == "llcp":
            if spec["role"]:
                o["role"] = spec["role"]
            o["lto"] = spec["lto"]
        options[kind] = o
    return options


def run_connect(case, ctx):
    s = vsched.Sched([], seed=case["seed"], step_budget=400000)
    vsched.activate(s)
    trace = []
    air = simdev.Air()
    clf = nfc.clf.ContactlessFrontend()
    clf.device = EnvDevice(air, "dut", case["env"], trace)
    peer = None
    if case["env"]["peer"]:
        peer = simdev.frontend(air, "peer")
    tcalls = {"n": 0}
    objects = {}

    def terminate():
        tcalls["n"] += 1
        r = tcalls["n"] >= case["terminate_at"]
        trace.append(("terminate", r, tcalls["n"]))
        return r

    options = build_options(case, trace, objects)
    out = {}

    def dut():
        try:
            out["ret"] = clf.connect(terminate=terminate, **options)
        except (vsched.Abort, vsched.StepBudget):
            raise
        except BaseException as e:
            out["exc"] = e
        out["done"] = True

    def peer_thread():
        t0 = s.now
        try:
            peer.connect(llcp={"role": case["env"]["peer"], "lto": 100},
                         terminate=lambda: s.now - t0 > case["env"]
                         ["peer_time"])
        except (vsched.Abort, vsched.StepBudget):
            raise
        except BaseException:
            pass
    try:
        s.spawn(dut, "dut")
        if peer is not None:
            s.spawn(peer_thread, "peer")
        s.run_until(lambda: out.get("done"), 200.0)
        done = out.get("done")
        blocked = [repr(t) for t in s.blocked()]
    finally:
        s.shutdown()
        vsched.activate(None)
    ctx.set_class("connect")
    judge(case, ctx, trace, out, done, blocked, tcalls, objects)


ACT_NEEDED = {"rdwr": ("sense",), "llcp": ("atr_res", "listen_dep"),
              "card": ("listen",)}


def judge(case, ctx, trace, out, done, blocked, tcalls, objects,
          rounds=False):
    """the documented contract of connect() against the recorded time line
    (callbacks, driver calls, terminate() calls, completed discoveries)"""
    kinds = [k for k in ("rdwr", "llcp", "card") if case[k] is not None]
    ctx.label("options=" + "+".join(kinds) if kinds else "options=none")
    if not done:
        raise Violation("connect-did-not-return",
                        "terminate() called %d times, blocked %r"
                        % (tcalls["n"], blocked))
    if "exc" in out:
        e = out["exc"]
        if isinstance(e, SystemExit):
            ctx.set_class("connect/SystemExit")
            raise Violation("connect-raises-SystemExit",
                            "after a device IOError inside the LLCP run loop")
        raise unexpected(e, "connect-raises")
    ret = out["ret"]
    cbs = [t for t in trace if t[0] == "cb"]
    # 1. startups first
    first_drv = next((i for i, t in enumerate(trace) if t[0] == "drv"), None)
    for i, t in enumerate(trace):
        if t[0] == "cb" and t[2] == "startup" and first_drv is not None \
                and i > first_drv:
            raise Violation("on-startup-after-discovery", repr(trace[:12]))
    # which options survive
    def survives(kind):
        spec = case[kind]
        if spec is None:
            return False
        if kind == "rdwr" and spec.get("targets") == []:
            return False        # nothing to look for, whatever on-startup is
        return spec["startup"] in ("default", "ok", "subset") \
            if kind != "card" else spec["startup"] == "ok"
    alive = [k for k in kinds if survives(k)]
    if not alive:
        if ret is not None:
            raise Violation("return-not-None-without-options", repr(ret))
        if first_drv is not None:
            raise Violation("driver-used-without-options", repr(trace[:8]))
        ctx.label("no-option-survives")
        return
    # 2. per kind callback order and release accounting
    released_false = False
    for kind in kinds:
        seq = [t for t in cbs if t[1] == kind and t[2] != "startup"]
        state = "idle"
        pending = None
        for _, _, name, oid, _ in seq:
            spec = case[kind][name]
            if name == "discover":
                if state == "connected":
                    raise Violation("on-discover-before-release",
                                    "%s %r" % (kind, seq))
                if state == "discovered" and kind == "rdwr" and spec and \
                        case["rdwr"]["connect"] != "default" and \
                        case["env"]["fault"] is None and \
                        case["env"].get("tag") and \
                        case["env"].get("tag_life", 0) >= 1000 and \
                        case["env"].get("peer") is None:
                    # the application accepted a tag that stays in the field
                    # and is of a supported type: it must be activated and
                    # handed to on-connect, not discovered over and over
                    raise Violation("accepted-tag-never-connected",
                                    "tag %r: %r" % (case["env"]["tag"],
                                                    seq[:6]))
                state = "discovered"
            elif name == "connect":
                if state == "connected":
                    raise Violation("on-connect-twice-without-release",
                                    "%s %r" % (kind, seq))
                if kind != "llcp" and case[kind]["discover"] is False:
                    raise Violation("on-connect-although-discover-false",
                                    kind)
                state = "connected" if spec else "returned"
                pending = oid if spec else None
            elif name == "release":
                implicit = case[kind]["connect"] == "default"
                if state != "connected" and not implicit:
                    raise Violation("on-release-without-true-on-connect",
                                    "%s %r" % (kind, seq))
                if not implicit and oid != pending:
                    raise Violation("on-release-with-other-object", kind)
                state = "idle"
                pending = None
                if not spec:
                    released_false = True
        if state == "connected" and case[kind]["release"] != "default":
            f_ = case["env"]["fault"]
            if f_ is not None and any(t[0] == "drv" and t[2] == f_[1]
                                      for t in trace):
                ctx.set_class("connect/on-release-missing-after-device-error")
            raise Violation("on-release-missing",
                            "%s: on-connect returned true, connect() returned "
                            "%r, callbacks %r" % (kind, ret, seq))
    # 2b. a callback of an activation needs an activation: since the
    # previous callback of the same name for that option the driver must
    # have completed a discovery of the matching kind (a tag answered the
    # poll / the device was activated as card / an NFC-DEP ATR exchange or
    # listen completed)
    since = dict(((k, n), set()) for k in ACT_NEEDED
                 for n in ("discover", "connect"))
    for t in trace:
        if t[0] == "act":
            for got in since.values():
                got.add(t[1])
        elif t[0] == "cb" and t[2] in ("discover", "connect"):
            if not since[(t[1], t[2])] & set(ACT_NEEDED[t[1]]):
                raise Violation(
                    "on-%s-without-activation" % t[2], "%s on-%s was called "
                    "although the device completed no %s since the previous "
                    "one; callbacks %r" % (t[1], t[2], "/".join(
                        ACT_NEEDED[t[1]]), [c[1:3] for c in cbs][-8:]))
            since[(t[1], t[2])] = set()
    # 3. return value
    fault = case["env"]["fault"]
    fault_hit = fault is not None and any(
        t[0] == "drv" and t[2] == fault[1] for t in trace)
    term_true = any(t[0] == "terminate" and t[1] for t in trace)
    last_connect = None
    for t in cbs:
        if t[2] == "connect":
            last_connect = t
    if ret is False:
        if not fault_hit:
            raise Violation("returns-False-without-device-error",
                            repr(trace[-6:]))
        ctx.label("ret=False(device error)")
    elif ret is None:
        if not term_true:
            raise Violation("returns-None-without-terminate",
                            repr(trace[-8:]))
        ctx.label("ret=None(terminate)")
    else:
        # object of a false on-connect, or on-release's true value
        objs = [objects.get(t[3]) for t in cbs if t[2] == "connect"
                and not case[t[1]]["connect"]]
        if any(ret is o for o in objs):
            ctx.label("ret=object")
        elif isinstance(ret, (nfc.tag.Tag, nfc.llcp.llc.LogicalLinkController,
                              nfc.tag.TagEmulation)):
            # default on-connect returned... only allowed if a callback
            # returned false for exactly this object
            raise Violation("returns-object-without-false-on-connect",
                            type(ret).__name__)
        else:
            if not ret:
                raise Violation("returns-false-value", repr(ret))
            rel = [case[t[1]]["release"] for t in cbs if t[2] == "release"]
            defaults = any(case[k]["release"] == "default" and
                           case[k]["connect"] in ("default", True, 1, "x")
                           for k in alive)
            if ret is not True and ret not in rel:
                raise Violation("return-value-from-nowhere", repr(ret))
            if ret is True and True not in rel and not defaults:
                raise Violation("returns-True-without-release", repr(rel))
            ctx.label("ret=released")
    # 4. after terminate() is true nothing new starts
    ti = next((i for i, t in enumerate(trace)
               if t[0] == "terminate" and t[1]), None)
    if ti is not None:
        later = [t for t in trace[ti + 1:] if t[0] == "cb"
                 and t[2] in ("discover", "connect")]
        if later and not released_false:
            raise Violation("activation-after-terminate", repr(later[:3]))
        ndrv = len([t for t in trace[ti + 1:] if t[0] == "drv"])
        if ndrv > 12 and not released_false:
            raise Violation("not-prompt-after-terminate",
                            "%d driver calls after terminate() was true"
                            % ndrv)
    if rounds:
        # an on-release returned a false value and connect() went back to
        # discovery (a further round), or two activations in the one call
        rel = [i for i, t in enumerate(trace) if t[0] == "cb"
               and t[2] == "release" and not case[t[1]]["release"]]
        again = rel and any(t[0] == "drv" and t[1].startswith(
            ("sense_", "listen_")) for t in trace[rel[0]:])
        if again or len([t for t in cbs if t[2] == "connect"]) >= 2:
            ctx.nontrivial()
    elif len(alive) >= 2 or released_false or any(
            case[k]["connect"] in (False, None, 0, "") for k in alive) or \
            (ti is not None and any(t[0] == "cb" and t[2] == "connect"
                                    for t in trace[:ti])):
        ctx.nontrivial()
    if released_false:
        ctx.label("on-release-returned-false(loop continues)")
    ctx.note({"trace": [t[:3] for t in trace if t[0] != "drv"][:14],
              "driver_calls": len([t for t in trace if t[0] == "drv"]),
              "ret": repr(ret)[:60]})


# ------------------------------------------------------------------ rounds
# One connect() call that lives through SEVERAL discovery rounds: the
# counterparts come and go by a script in virtual time (a director thread
# walks through it), on-release mostly returns a false value so that the loop
# goes on, terminate() turns true at a generated point of the script.
class RoundsDevice(EnvDevice):
    """EnvDevice whose tag / remote reader presence is switched by the
    director; a tag that left does not answer, one that is back does"""

    def __init__(self, air, name, trace):
        EnvDevice.__init__(self, air, name, {"tag": None, "fault": None,
                                             "reader_cmds": 0}, trace)
        self.tags = {"t2t": make_tag("t2t"), "t3t": make_tag("t3t")}
        self.present = False
        self.tag_life = 10 ** 9

    def _tag_here(self):
        return self.tag is not None and self.present

    def leave(self):
        """whoever was in the field is gone: an activated tag answers no
        more (a tag put there later needs a new activation)"""
        self.present = False
        self.tag_active = False
        self.reader_visits = 0


def _timed(name):
    # every driver call takes a little (virtual) time, as on hardware: a poll
    # loop without any pause must not freeze the script.  The time passes
    # first, the call itself then sees one state of the field.
    def call(self, *args):
        vsched.current().sleep(0.001)
        return getattr(EnvDevice, name)(self, *args)
    call.__name__ = name
    return call


for _n in ("mute", "sense_tta", "sense_ttb", "sense_ttf", "sense_dep",
           "listen_tta", "listen_ttb", "listen_ttf", "listen_dep",
           "send_cmd_recv_rsp", "send_rsp_recv_cmd"):
    setattr(RoundsDevice, _n, _timed(_n))


FALSY = [False, None, 0, ""]
TRUTHY = [True, 1, "x"]


def round_opts(kind):
    d = {
        "startup": st.just("ok") if kind == "card" else
        st.sampled_from(["ok", "ok", "default"]),
        "discover": st.sampled_from(["default", "default", True, True, False]),
        "connect": st.sampled_from(["default"] * 2 + TRUTHY * 2 + [False]),
        # a false value keeps connect() going: the usual case here
        "release": st.sampled_from(FALSY * 3 + ["default", True, "x"]),
    }
    if kind == "rdwr":
        d["targets"] = st.sampled_from([None, ["106A"], ["212F"],
                                        ["106A", "212F"], ["212F", "106A"]])
        d["iterations"] = st.sampled_from([1, 2])
        d["interval"] = st.just(0.05)
        d["beep"] = st.sampled_from([None, False])
    if kind == "llcp":
        d["role"] = st.sampled_from([None, None, "initiator", "target"])
        d["lto"] = st.sampled_from([100, 500])
    if kind == "card":
        d["brty"] = st.sampled_from(["212F", "424F"])
    return st.fixed_dictionaries(d)


WHO = {"rdwr": ["t2t", "t3t"], "llcp": ["initiator", "target"],
       "card": ["reader"]}


@st.composite
def rounds_case(draw):
    kinds = draw(st.sampled_from([
        ["llcp"], ["llcp"], ["llcp"], ["rdwr"], ["card"], ["rdwr", "llcp"],
        ["llcp", "card"], ["rdwr", "card"], ["rdwr", "llcp", "card"]]))
    case = {"rdwr": None, "llcp": None, "card": None}
    for k in kinds:
        case[k] = draw(round_opts(k))
    fitting = [w for k in kinds for w in WHO[k]]
    who = st.sampled_from(fitting * 3 + ["nobody", "nobody"]
                          + sorted(set(sum(WHO.values(), []))))
    case["script"] = draw(st.lists(st.fixed_dictionaries({
        "gap": st.sampled_from([0.0, 0.3, 1.3, 2.6]),
        "who": who,
        "stay": st.sampled_from([0.4, 1.1, 2.4]),
        "cmds": st.integers(0, 3)}), min_size=2, max_size=5))
    # terminate() turns true in the middle of episode `idx` or `tail`
    # seconds after the last one
    case["end"] = draw(st.one_of(
        st.tuples(st.just("after"), st.sampled_from([0.1, 1.5, 4.0])),
        st.tuples(st.just("after"), st.sampled_from([0.1, 1.5, 4.0])),
        st.tuples(st.just("during"), st.integers(0, 4))))
    case["env"] = {"fault": None}
    case["seed"] = draw(st.integers(0, 255))
    return case


def run_rounds(case, ctx):
    s = vsched.Sched([], seed=case["seed"], step_budget=300000)
    vsched.activate(s)
    trace = []
    air = simdev.Air()
    clf = nfc.clf.ContactlessFrontend()
    dev = clf.device = RoundsDevice(air, "dut", trace)
    peer = simdev.frontend(air, "peer")
    script = case["script"]
    t, starts = 0.0, []
    for ep in script:
        t += ep["gap"]
        starts.append(t)
        t += ep["stay"]
    if case["end"][0] == "after":
        t_end = t + case["end"][1]
    else:
        i = case["end"][1] % len(script)
        t_end = starts[i] + script[i]["stay"] / 2
    tcalls = {"n": 0}
    objects = {}
    peer_links = []

    def terminate():
        tcalls["n"] += 1
        r = s.now >= t_end
        if r or not trace or trace[-1][0] != "terminate":
            trace.append(("terminate", r, tcalls["n"]))
        return r

    options = build_options(case, trace, objects)
    out = {}

    def dut():
        try:
            out["ret"] = clf.connect(terminate=terminate, **options)
        except (vsched.Abort, vsched.StepBudget):
            raise
        except BaseException as e:
            out["exc"] = e
        out["done"] = True

    def director():
        for ep, start in zip(script, starts):
            if s.now < start:
                s.sleep(start - s.now)
            who, until = ep["who"], s.now + ep["stay"]
            if who in ("initiator", "target"):
                def linked(llc):
                    peer_links.append(s.now)
                    return True
                try:
                    peer.connect(llcp={"role": who, "lto": 100,
                                       "on-connect": linked},
                                 terminate=lambda: s.now >= until)
                except (vsched.Abort, vsched.StepBudget):
                    raise
                except BaseException:
                    pass
            elif who in ("t2t", "t3t"):
                dev.tag = dev.tags[who]
                dev.tag.reset()
                dev.present = True
            elif who == "reader":
                dev.env["reader_cmds"] = ep["cmds"]
                dev.reader_visits = 1
            if s.now < until:
                s.sleep(until - s.now)
            dev.leave()
    try:
        s.spawn(dut, "dut")
        s.spawn(director, "director")
        s.run_until(lambda: out.get("done"), t_end + 40.0)
        done = out.get("done")
        blocked = [repr(x) for x in s.blocked()]
    except vsched.StepBudget:
        raise Violation("livelock", "step budget exhausted at t=%.1f "
                        "(terminate at %.1f)" % (s.now, t_end))
    finally:
        s.shutdown()
        vsched.activate(None)
    ctx.set_class("rounds")
    judge(case, ctx, trace, out, done, blocked, tcalls, objects, rounds=True)
    cbs = [x for x in trace if x[0] == "cb"]
    nconn = len([x for x in cbs if x[2] == "connect"])
    ctx.label("activations=%d" % min(nconn, 4))
    ctx.label("peer-links=%d" % min(len(peer_links), 3))
    if nconn >= 2:
        ctx.label("several-activations-in-one-call")


# ------------------------------------------------------------------- sense
class SenseDevice(simdev.SimDevice):
    """driver that supports 106A, 106B, 212F; rejects everything else"""

    def __init__(self, air, present):
        simdev.SimDevice.__init__(self, air, "dut")
        self.present = present
        self.names = []

    def _call(self, name):
        self.names.append(name)

    def sense_tta(self, target):
        self._call("sense_tta")
        if target.brty != "106A":
            raise nfc.clf.UnsupportedTargetError(target.brty)
        if "A" in self.present:
            return nfc.clf.RemoteTarget(
                "106A", sens_res=bytearray(b"\x44\x00"),
                sel_res=bytearray(b"\x00"),
                sdd_res=bytearray.fromhex("02112233445566"))

    def sense_ttb(self, target):
        self._call("sense_ttb")
        if target.brty != "106B":
            raise nfc.clf.UnsupportedTargetError(target.brty)
        if "B" in self.present:
            return nfc.clf.RemoteTarget(
                "106B", sensb_res=bytearray.fromhex(
                    "50E5DD3DC900000011008185"))

    def sense_ttf(self, target):
        self._call("sense_ttf")
        if target.brty != "212F":
            raise nfc.clf.UnsupportedTargetError(target.brty)
        if "F" in self.present:
            return nfc.clf.RemoteTarget(
                "212F", sensf_res=bytearray.fromhex(
                    "0102FE010203040506FFFFFFFFFFFFFFFF12FC"))

    def sense_dep(self, target):
        self._call("sense_dep")
        raise nfc.clf.UnsupportedTargetError("no active mode")

    def listen_tta(self, target, timeout):
        self._call("listen_tta")
        return None

    def send_cmd_recv_rsp(self, target, data, timeout):
        self._call("send_cmd_recv_rsp")
        return bytearray(b"\x0A")

    def send_rsp_recv_cmd(self, target, data, timeout):
        self._call("send_rsp_recv_cmd")
        return bytearray(b"\x01")


TARGETS = ["106A", "106B", "212F",                # supported
           "424F", "212A", "424A", "212B", "848B",  # unsupported bit rate
           "106A/sel2", "106A/sel7", "dep/short", "dep/ok"]  # invalid / dep


def mk_target(name):
    if name == "106A/sel2":
        return nfc.clf.RemoteTarget("106A", sel_req=bytearray(2))
    if name == "106A/sel7":
        return nfc.clf.RemoteTarget(
            "106A", sel_req=bytearray.fromhex("02112233445566"))
    if name == "dep/short":
        return nfc.clf.RemoteTarget("106A", atr_req=bytearray(5))
    if name == "dep/ok":
        return nfc.clf.RemoteTarget("106A", atr_req=bytearray(16))
    return nfc.clf.RemoteTarget(name)


def sense_case():
    return st.fixed_dictionaries({
        "targets": st.lists(st.sampled_from(TARGETS), min_size=1, max_size=5),
        "present": st.sampled_from(["", "", "A", "B", "F", "AF", "BF",
                                    "ABF"]),
        "iterations": st.sampled_from([1, 1, 2, 3]),
        "then": st.sampled_from(["exchange", "listen-exchange",
                                 "sense-empty-exchange",
                                 "sense-unsupported-exchange",
                                 "listen-unsupported-exchange",
                                 "listen-invalid-exchange"])})


def run_sense(case, ctx):
    s = vsched.Sched([], seed=0)
    vsched.activate(s)
    try:
        air = simdev.Air()
        dev = SenseDevice(air, case["present"])
        clf = nfc.clf.ContactlessFrontend()
        clf.device = dev
        names = case["targets"]
        targets = [mk_target(n) for n in names]
        supported = {"106A": "A", "106B": "B", "212F": "F", "106A/sel7": "A"}
        expect = None
        for n in names:
            if n in supported and supported[n] in case["present"]:
                expect = n
                break
        ctx.set_class("sense/%s" % ("single" if len(names) == 1
                                    else "multiple"))
        err = None
        try:
            found = clf.sense(*targets, iterations=case["iterations"],
                              interval=0.01)
        except (nfc.clf.UnsupportedTargetError, ValueError) as e:
            err = e
        except Exception as e:
            raise unexpected(e, "sense-raises")
        if err is not None:
            if len(names) > 1:
                bad = [n for n in names if n not in ("106A", "106B", "212F",
                                                     "106A/sel7")]
                ctx.set_class("sense/multiple/%s" % type(err).__name__)
                raise Violation("sense-raises-with-several-targets",
                                "%s for %r (not supported / invalid: %r)"
                                % (type(err).__name__, names, bad))
            ctx.label("single-target-error:" + type(err).__name__)
            return
        if expect is None:
            if found is not None:
                raise Violation("sense-found-absent-target", repr(found))
            if dev.names and dev.names[-1] != "mute":
                raise Violation("field-left-on-after-unsuccessful-sense",
                                repr(dev.names[-4:]))
            n0 = len(dev.names)
            r = clf.exchange(b"\x30\x00", 0.1)
            if r is not None or len(dev.names) != n0:
                raise Violation("exchange-after-unsuccessful-sense",
                                "returned %r, driver calls %r"
                                % (r, dev.names[n0:]))
            ctx.label("nothing-found")
        else:
            if found is None:
                raise Violation("sense-missed-present-target",
                                "%r present %r" % (names, case["present"]))
            want = expect.split("/")[0]
            if found.brty != want:
                raise Violation("sense-not-first-in-order",
                                "got %s, first present target is %s in %r"
                                % (found.brty, expect, names))
            n0 = len(dev.names)
            clf.exchange(b"\x30\x00", 0.1)
            if dev.names[n0:] != ["send_cmd_recv_rsp"]:
                raise Violation("exchange-wrong-direction",
                                repr(dev.names[n0:]))
            # a later unsuccessful sense / listen must forget the target
            if case["then"] == "listen-exchange":
                t = nfc.clf.LocalTarget("106A", sens_res=bytearray(2),
                                        sdd_res=bytearray(4),
                                        sel_res=bytearray(1))
                clf.listen(t, 0.01)
            elif case["then"] == "sense-empty-exchange":
                dev.present = ""
                clf.sense(nfc.clf.RemoteTarget("106A"))
            elif case["then"] == "sense-unsupported-exchange":
                clf.sense(nfc.clf.RemoteTarget("424F"),
                          nfc.clf.RemoteTarget("212A"))
            elif case["then"] == "listen-unsupported-exchange":
                try:        # the driver does not listen as Type B target
                    clf.listen(nfc.clf.LocalTarget("106B"), 0.01)
                except nfc.clf.UnsupportedTargetError:
                    pass
            elif case["then"] == "listen-invalid-exchange":
                try:
                    clf.listen(nfc.clf.LocalTarget("999X"), 0.01)
                except ValueError:
                    pass
            if case["then"] != "exchange":
                n0 = len(dev.names)
                r = clf.exchange(b"\x30\x00", 0.1)
                if r is not None or len(dev.names) != n0:
                    raise Violation("exchange-uses-stale-target",
                                    "after %s: returned %r, driver calls %r"
                                    % (case["then"], r, dev.names[n0:]))
            ctx.label("found")
        if len(names) > 1 and any(n not in ("106A", "106B", "212F")
                                  for n in names):
            ctx.nontrivial()
    finally:
        s.shutdown()
        vsched.activate(None)


LEGS = [
    Leg("tagtypes", run=run_connect, enum=enum_tagtypes, exhaustive=True,
        rule="Type 1, Type 2, Type 3, Type 4A (SEL_RES 20h) and Type 4A + "
             "NFC-DEP (SEL_RES 60h) tags in a stable field: (a) with the llcp "
             "option (role unset / initiator / target) and rdwr absent or "
             "declining - a tag is not a peer, connect() polls until "
             "terminate; (b) rdwr with on-discover true / "
             "default / false x on-connect true / false x 3 target lists x "
             "2 terminate points: the callback contract, and a tag the "
             "application accepted must be activated and reach on-connect; "
             "non-trivial = a tag was discovered."),
    Leg("connect", run=run_connect, gen=lambda tier: case_strategy(),
        quick=2400, thorough=30000, shards_quick=8, shards_thorough=16,
        nt_floor=0.2,
        rule="generated rdwr/llcp/card option dictionaries (callback return "
             "values incl. wrong types) x environment (tag, peer stack, "
             "remote reader, device fault) x terminate() true at its m-th "
             "call; non-trivial = >= 2 option groups survive start-up, a "
             "callback returned a false value, or terminate fired after an "
             "activation."),
    Leg("rounds", run=run_rounds, gen=lambda tier: rounds_case(), quick=240,
        thorough=6000, shards_quick=5, shards_thorough=16, nt_floor=0.2,
        rule="one connect() call over a scripted field in virtual time: 2-5 "
             "episodes (pause 0-2.6 s, then for 0.4-2.4 s a peer device = "
             "second nfcpy stack as NFC-DEP initiator or target, a Type 2 or "
             "Type 3 tag, a remote reader sending 0-3 commands, or nobody), "
             "rdwr / llcp / card options in 9 combinations with on-release "
             "mostly returning a false value (False, None, 0, '') so that "
             "connect() goes back to discovery, on-connect true values / "
             "default / False, roles, target lists; terminate() turns true "
             "in the middle of a generated episode or 0.1-4 s after the last "
             "one.  Checked with the oracle of the connect leg plus: every "
             "on-discover / on-connect follows a discovery that the driver "
             "really completed since the previous one (tag answered, card "
             "activation, NFC-DEP ATR exchange or listen), connect() raises "
             "nothing and returns within 40 s of virtual time.  non-trivial "
             "= an on-release returned a false value and connect() polled "
             "again, or >= 2 activations happened in the one call."),
    Leg("sense", run=run_sense, gen=lambda tier: sense_case(), quick=1500,
        thorough=40000, shards_quick=3, shards_thorough=16, nt_floor=0.2,
        rule="1-5 targets out of supported / unsupported bit rates / invalid "
             "attributes x tags present x iterations x follow-up; non-trivial "
             "= several targets including an unsupported or invalid one."),
]
