"""C18 - connect() and sense() honour their documented contract.

leg `connect`: generated option dictionaries for rdwr / llcp / card (each
present or not, callbacks returning true / false / None / other types, targets,
iterations, interval, role, beep-on-connect) in generated environments (empty
field; a Type 2 or Type 3 tag that stays for a number of exchanges; a peer
device = second nfcpy stack that releases after some time; a remote reader
that activates the emulated card, sends a few commands and switches its field
off; a device raising IOError or UnsupportedTargetError at some driver call)
with terminate() turning true at its m-th call.  All callbacks and driver
calls are recorded on one time line.

Oracle (from the connect() docstring)
  * every on-startup call precedes every discovery driver call
  * per option kind the callbacks of an activation come in the order
    on-discover, on-connect, on-release; on-release is called exactly once for
    every on-connect that returned a true value and never otherwise, with the
    same object
  * return value: None if no option survived on-startup (then the driver is
    not touched) or terminate() ended the loop; False when the device raised
    IOError / UnsupportedTargetError; the very object given to on-connect when
    that returned a false value; otherwise the (true) value of on-release
  * once terminate() has returned true no new activation is started and
    connect() returns within a bounded number of driver calls
  * connect() raises nothing

leg `rounds`: the same options in a field that changes while ONE connect()
call is running: a script of episodes in virtual time (peer device as
initiator / target, Type 2 / Type 3 tag, remote reader, nobody, with pauses
in between), on-release mostly returning a false value so that connect() goes
through several discovery rounds and activations, terminate() turning true in
the middle of an episode or after the last one.  Same oracle, plus: an
on-discover / on-connect callback is only made after the driver really
completed a discovery / activation since the previous one (`act` entries of
the time line; also applied in the `connect` leg).

legs `tagapp_enum`, `tagapp`: applications that USE the tag while connect()
holds it.  The on-connect callback (or, when it returns a false value, the
code after connect() returned the tag, followed by a second connect() on the
same frontend) runs a short program of documented tag operations (ndef read
/ write, has_changed, dump(), format, is_present, raw reads and writes inside
and behind the memory) on a Type 1 / 2 / 3 / 4A tag, while the field follows a
plan counted in commands and polls from the start of the program: the tag
leaves (for good or for some events) or the driver reports timeout /
transmission / protocol errors, starting at an absolute position, right
after a command the tag refused (NAK) or at a re-selection poll.  Then the
normal presence loop runs.  Exceptions raised by the tag operations are caught
by the program itself (TagCommandError is the documented one, anything else
is only recorded - C16 judges those); the oracle is the one of the connect leg
applied to every connect() call.  tagapp_enum walks every event position of
every one-step program on nine fixed tags, tagapp generates tags, options,
programs and plans.

leg `sense`: target lists mixing supported, unsupported (bit rate/technology
the driver rejects) and invalid targets with zero/one/several tags present:
several targets never raise, the first present target in argument order is
returned, the last driver call after an unsuccessful sense is mute(), and
exchange() after an unsuccessful sense/listen returns None without touching
the driver; the exchange direction follows the last found target.
"""
import contextlib
import io

from hypothesis import strategies as st

import nfc
import nfc.clf
import nfc.llcp
import nfc.tag
import nfc.tag.tt1
import nfc.tag.tt2
import nfc.tag.tt3
import nfc.tag.tt4

from props import tagcommon as tc
from vlib import ref_tlv, simdev, simtags, tagdev, vsched
from vlib.engine import Leg, Violation, unexpected, twin_env

PROPERTY = "C18"
LEVEL = "exploration"
ASSUMPTIONS = [
    "environment = simulated device (vlib/simdev.py SimDevice extended with a "
    "scripted tag, a scripted remote reader and host faults) and, for "
    "peer-to-peer, a second nfcpy stack under the virtual scheduler",
    "an on-release callback returning a false value keeps connect() looping; "
    "that is not documented either way and only labelled",
    "SystemExit leaving connect() after an IOError inside the LLCP run loop "
    "is reported as a violation of 'returns False' (known finding)",
    "'an activation really happened' is read off the simulated driver: a "
    "sense_tt* / listen_tt* / listen_dep call returned a target or an NFC-DEP "
    "ATR_RES was handed to the stack since the previous callback of that "
    "name",
    "rounds leg: counterparts come and go at scripted virtual times; every "
    "driver call of the device under test takes 1 ms of virtual time; a tag "
    "that left and came back needs a new activation",
    "tagapp legs: tag simulators of vlib (simtags, isodep_card) built through "
    "props/tagcommon.build; one event = one command sent to the tag or one "
    "poll of its technology, counted from the start of the application "
    "program; a tag out of the field answers nothing and loses power (a Type "
    "A tag must be selected again, a Type F tag answers at once when it is "
    "back); an injected communication error hits commands and polls alike, "
    "sense() reports it as 'no target' (documented); the activation before "
    "on-connect is not faulted (the connect leg does that with tag_life); "
    "exceptions of tag operations other than TagCommandError inside the "
    "application program are recorded, not judged (C16)",
]


def setup():
    vsched.patch_nfc()


# -------------------------------------------------------------- environment
def make_tag(kind):
    if kind == "t2t":
        mem, _ = ref_tlv.build({"kind": "t2t", "size": 6, "extra": 0,
                                "ctrl": [], "nulls": 0}, b"\xd0\x00\x00")
        return simtags.T2Tag(mem)
    if kind == "t3t":
        return simtags.T3Tag(simtags.t3_image(0x10, 4, 1, 4, 3,
                                              b"\xd0\x00\x00"))
    if kind == "t1t":
        # Type 1 Tag: answers with SENS_RES and RID_RES only (no SEL_RES)
        mem, _ = ref_tlv.build({"kind": "t1t", "size": 14, "extra": 0,
                                "ctrl": [], "nulls": 0}, b"\xd0\x00\x00")
        return simtags.T1Tag(mem)
    if kind in ("t4a", "t4a+dep"):
        from vlib import isodep_card
        app = isodep_card.T4App(0x20, 255, 255, 64, 64, b"\xd0\x00\x00")
        tag = isodep_card.T4Tag(app, "A", 8, 4, None, 0)
        if kind == "t4a+dep":
            # a Type 4A tag that also announces NFC-DEP: SEL_RES 60h
            plain = tag.target

            def target(poll):
                t = plain(poll)
                if t is not None:
                    t.sel_res = bytearray(b"\x60")
                return t
            tag.target = target
        return tag
    return None


def is_atr_res(frame):
    """NFC-DEP ATR_RES as the driver hands it up (106A: SB F0 first)"""
    f = bytes(frame or b"")
    if f[:1] == b"\xF0":
        f = f[1:]
    return len(f) >= 3 and f[0] == len(f) and f[1:3] == b"\xD5\x01"


class EnvDevice(simdev.SimDevice):
    def __init__(self, air, name, env, trace):
        simdev.SimDevice.__init__(self, air, name)
        self.env = env
        self.trace = trace
        self.tag = None
        self.tag_life = env.get("tag_life", 0)
        self.tag_active = False
        self.reader_visits = env.get("reader_visits", 0)
        self.reader_cmds = 0
        self.card_active = False
        self.dcalls = 0
        self.tag_cmds = 0
        self.tag = make_tag(env.get("tag"))

    def _act(self, what, result):
        """time line entry when the driver really completed a discovery /
        activation step (the ground truth for 'an activation happened')"""
        if result is not None:
            self.trace.append(("act", what))
        return result

    def _call(self, name):
        self.dcalls += 1
        self.trace.append(("drv", name, self.dcalls))
        f = self.env.get("fault")
        if f and self.dcalls == f[1]:
            if f[0] == "ioerror":
                raise IOError(5, "sim: device gone")
            raise nfc.clf.UnsupportedTargetError("sim: unsupported")
        simdev.SimDevice._call(self, name)

    def _tag_here(self):
        return self.tag is not None and self.tag_life > 0

    def mute(self):
        simdev.SimDevice.mute(self)
        self.tag_active = False
        self.card_active = False
        if self.tag is not None:
            self.tag.reset()

    def sense_tta(self, target):
        return self._act("sense", self._sense_tta(target))

    def sense_ttf(self, target):
        return self._act("sense", self._sense_ttf(target))

    def listen_dep(self, target, timeout):
        return self._act("listen_dep", simdev.SimDevice.listen_dep(
            self, target, timeout))

    def listen_ttf(self, target, timeout):
        return self._act("listen", self._listen_ttf(target, timeout))

    def send_cmd_recv_rsp(self, target, data, timeout):
        rsp = self._send_cmd_recv_rsp(target, data, timeout)
        if is_atr_res(rsp):
            self.trace.append(("act", "atr_res"))
        return rsp

    def _sense_tta(self, target):
        if self._tag_here() and self.tag.tech == "A" and \
                target.brty == "106A":
            self._call("sense_tta")
            t = self.tag.target(target)
            if t is not None:
                self.tag_active = True
                return t
            return None
        return simdev.SimDevice.sense_tta(self, target)

    def _sense_ttf(self, target):
        if self._tag_here() and self.tag.tech == "F" and \
                target.brty in ("212F", "424F"):
            self._call("sense_ttf")
            t = self.tag.target(target)
            if t is not None:
                self.tag_active = True
                return t
            return None
        return simdev.SimDevice.sense_ttf(self, target)

    def _send_cmd_recv_rsp(self, target, data, timeout):
        if self.tag_active:
            self._call("send_cmd_recv_rsp")
            self.tag_life -= 1
            if self.tag_life <= 0:
                raise nfc.clf.TimeoutError("sim: tag left the field")
            rsp = self.tag.command(bytes(data), timeout)
            if rsp is None:
                raise nfc.clf.TimeoutError("sim: no response")
            self.tag_cmds += 1
            odd = self.env.get("odd")
            if odd and self.tag_cmds == odd[0]:
                rsp = odd_answer(bytes(rsp), odd[1], self.tag.tech)
                self.trace.append(("odd", odd[1], len(rsp)))
            return bytearray(rsp)
        return simdev.SimDevice.send_cmd_recv_rsp(self, target, data, timeout)

    def _idle_listen(self, name, timeout):
        self._call(name)
        vsched.current().sleep(min(timeout, 0.3))
        return None

    def listen_tta(self, target, timeout):
        return self._idle_listen("listen_tta", timeout)

    def listen_ttb(self, target, timeout):
        self._call("listen_ttb")
        raise nfc.clf.UnsupportedTargetError("sim: no type b listen")

    def _listen_ttf(self, target, timeout):
        if self.reader_visits > 0:
            self._call("listen_ttf")
            self.reader_visits -= 1
            self.reader_cmds = self.env.get("reader_cmds", 2)
            self.card_active = True
            t = nfc.clf.LocalTarget(target.brty)
            t.sensf_res = bytearray(target.sensf_res)
            idm = bytes(target.sensf_res[1:9])
            t.tt3_cmd = bytearray(b"\x04" + idm)       # Request Response
            return t
        return self._idle_listen("listen_ttf", timeout)

    def send_rsp_recv_cmd(self, target, data, timeout):
        if self.card_active:
            self._call("send_rsp_recv_cmd")
            if self.reader_cmds > 0:
                self.reader_cmds -= 1
                idm = bytes(target.sensf_res[1:9])
                return bytearray(b"\x0a\x04" + idm)
            raise nfc.clf.BrokenLinkError("sim: reader switched field off")
        return simdev.SimDevice.send_rsp_recv_cmd(self, target, data, timeout)


def odd_answer(rsp, kind, tech):
    """a tag that answers one command with a frame of an unexpected shape
    (the frame itself is intact: a FeliCa frame keeps a matching length
    byte).  The callbacks and the return value of connect() do not depend on
    what a tag answers."""
    f = tech == "F"
    body = rsp[1:] if f else rsp
    if kind == "grow2":
        body = body + b"\x12\xfc"
    elif kind == "grow1":
        body = body + b"\x00"
    elif kind == "short2":
        body = body[:-2]
    elif kind == "short1":
        body = body[:-1]
    elif kind == "code":
        body = bytes([body[0] ^ 0x10]) + body[1:] if body else body
    elif kind == "one":
        body = body[:1]
    else:
        raise HarnessError("unknown odd answer %r" % kind)
    return (bytes([len(body) + 1]) + body) if f else body


# ----------------------------------------------------------------- options
RET = st.sampled_from([True, False, None, 1, 0, "x", ""])


def kind_opts(kind):
    d = {
        "startup": st.sampled_from(
            ["ok"] * 7 + (["default"] * 3 if kind != "card" else ["default"])
            + ["none", "wrong"]
            # documented: "an empty list or anything else that evaluates
            # false will remove the 'rdwr' option completely"
            + (["empty", "emptytuple", "subset"] if kind == "rdwr" else [])),
        "discover": st.sampled_from(["default", True, True, False]),
        "connect": st.one_of(st.just("default"), RET),
        "release": st.one_of(st.just("default"), st.just("default"), RET),
    }
    if kind == "rdwr":
        d["targets"] = st.sampled_from([None, [], ["106A"], ["212F"],
                                        ["106A", "106B", "212F"],
                                        ["106B"], ["424F", "106A"]])
        d["iterations"] = st.sampled_from([None, 1, 2])
        d["interval"] = st.sampled_from([None, 0.05])
        d["beep"] = st.sampled_from([None, True, False])
    if kind == "llcp":
        d["role"] = st.sampled_from([None, "initiator", "target"])
        d["lto"] = st.sampled_from([100, 500])
    if kind == "card":
        d["brty"] = st.sampled_from(["212F", "424F"])
    return st.fixed_dictionaries(d)


def case_strategy():
    return st.fixed_dictionaries({
        "rdwr": st.one_of(st.none(), kind_opts("rdwr"), kind_opts("rdwr"),
                          kind_opts("rdwr")),
        "llcp": st.one_of(st.none(), kind_opts("llcp")),
        "card": st.one_of(st.none(), st.none(), kind_opts("card")),
        "env": st.fixed_dictionaries({
            "tag": st.sampled_from([None, "t2t", "t2t", "t3t", "t3t", "t4a",
                                    "t4a+dep", "t4a+dep", "t1t", "t1t"]),
            "tag_life": st.sampled_from([3, 12, 30, 1000, 1000]),
            # one answer of the tag has an unexpected shape
            "odd": st.one_of(st.none(), st.none(), st.tuples(
                st.integers(1, 14), st.sampled_from(
                    ["grow2", "grow2", "grow1", "short2", "short1", "code",
                     "one"])).map(list)),
            "peer": st.sampled_from([None, None, "initiator", "target"]),
            "peer_time": st.sampled_from([0.3, 1.0, 3.0]),
            # what the application does with the link it is handed in the
            # llcp on-connect: nothing, or data link connections that are
            # still open (a thread waiting in recv) when the link ends
            "app": st.sampled_from([None, None, "client", "server",
                                    "both"]),
            "reader_visits": st.sampled_from([0, 1, 1, 2]),
            "reader_cmds": st.integers(0, 3),
            "fault": st.one_of(st.none(), st.none(), st.tuples(
                st.sampled_from(["ioerror", "unsupported"]),
                st.integers(1, 25)))}),
        "terminate_at": st.integers(1, 14),
        "seed": st.integers(0, 255)})


def llcp_apps_case():
    """peer to peer sessions in which the application works on data link
    connections that are still open when the link ends"""
    def shape(c):
        c = dict(c, rdwr=None, card=None, nt="app-connection")
        c["llcp"] = dict(c["llcp"], startup=c["llcp"]["startup"] if
                         c["llcp"]["startup"] in ("ok", "default") else "ok",
                         connect=True)
        return c
    return st.fixed_dictionaries({
        "rdwr": st.none(), "card": st.none(), "llcp": kind_opts("llcp"),
        "env": st.fixed_dictionaries({
            "tag": st.none(), "tag_life": st.just(0),
            "peer": st.sampled_from(["initiator", "target"]),
            "peer_time": st.sampled_from([0.3, 1.0, 3.0, 10.0]),
            "reader_visits": st.just(0), "reader_cmds": st.just(0),
            "app": st.sampled_from(["client", "server", "both"]),
            "fault": st.one_of(st.none(), st.none(), st.none(), st.tuples(
                st.sampled_from(["ioerror", "unsupported"]),
                st.integers(1, 60)))}),
        "terminate_at": st.one_of(st.integers(1, 14), st.integers(10, 80)),
        "seed": st.integers(0, 255)}).map(shape)


def enum_tagtypes(tier, seed):
    """every supported tag type in a stable field x rdwr callbacks: a tag the
    application accepts must reach on-connect"""
    # every tag type while connect() also tries peer to peer as initiator or
    # target (rdwr declining or absent): the tag is not a peer, connect()
    # keeps polling until terminate
    for tag in ("t1t", "t2t", "t3t", "t4a", "t4a+dep"):
        for role in (None, "initiator", "target"):
            for rdwr in (None, False):
                yield {
                    "rdwr": None if rdwr is None else {
                        "startup": "default", "discover": False,
                        "connect": True, "release": True, "targets": None,
                        "iterations": None, "interval": None, "beep": None},
                    "llcp": {"startup": "default", "discover": "default",
                             "connect": True, "release": True, "role": role,
                             "lto": 100},
                    "card": None,
                    "env": {"tag": tag, "tag_life": 1000, "peer": None,
                            "peer_time": 0.3, "reader_visits": 0,
                            "reader_cmds": 0, "fault": None},
                    "terminate_at": 8, "seed": 0}
    for tag in ("t1t", "t2t", "t3t", "t4a", "t4a+dep"):
        for discover in (True, "default", False):
            for connect in (True, False, 1):
                for targets in (None, ["106A", "212F"], ["212F", "106A"]):
                    for term in (6, 14):
                        yield {
                            "rdwr": {"startup": "default",
                                     "discover": discover, "connect": connect,
                                     "release": True, "targets": targets,
                                     "iterations": None, "interval": None,
                                     "beep": None},
                            "llcp": None, "card": None,
                            "env": {"tag": tag, "tag_life": 1000,
                                    "peer": None, "peer_time": 0.3,
                                    "reader_visits": 0, "reader_cmds": 0,
                                    "fault": None},
                            "terminate_at": term, "seed": 0}


APP_SVC = "urn:nfc:sn:verif18"
PEER_SVC = "urn:nfc:sn:verif18p"


def start_apps(llc, what, trace, peer=False):
    """application threads on an activated link (started from on-connect):
    a client that connects to the other side's service, sends and waits for
    data; a server that accepts and reads.  They end when the link does."""
    import nfc.llcp
    sched = vsched.current()
    mine, theirs = (PEER_SVC, APP_SVC) if peer else (APP_SVC, PEER_SVC)

    def guarded(fn, name):
        def body():
            try:
                fn()
            except nfc.llcp.Error:
                pass
            except (vsched.Abort, vsched.StepBudget):
                raise
            except BaseException as e:
                trace.append(("app-exc", name, e))
            if not peer:
                trace.append(("app-done", name))
        return body

    def client():
        k = nfc.llcp.Socket(llc, nfc.llcp.DATA_LINK_CONNECTION)
        k.connect(theirs)
        if not peer:
            trace.append(("app-connected", "client"))
        k.send(b"hello")
        while k.recv() is not None:
            pass

    def server():
        ls = nfc.llcp.Socket(llc, nfc.llcp.DATA_LINK_CONNECTION)
        ls.bind(mine)
        ls.listen(1)
        c = ls.accept()
        if not peer:
            trace.append(("app-connected", "server"))
        while c.recv() is not None:
            pass
    if what in ("server", "both"):
        sched.spawn(guarded(server, "server"), "app-server")
    if what in ("client", "both"):
        sched.spawn(guarded(client, "client"), "app-client")


def build_options(case, trace, objects):
    """the keyword arguments of connect() for a case, with recording
    callbacks"""
    def cb(kind, name, spec, default):
        def f(arg):
            trace.append(("cb", kind, name, id(arg), type(arg).__name__))
            objects[id(arg)] = arg
            if kind == "llcp" and name == "connect" and spec and \
                    spec != "default" and case["env"].get("app"):
                start_apps(arg, case["env"]["app"], trace)
            if name == "startup":
                if spec == "ok":
                    if kind == "card":
                        arg.brty = case["card"]["brty"]
                        arg.sensf_res = bytearray.fromhex(
                            "0102FE010203040506FFFFFFFFFFFFFFFF12FC")
                    return arg
                if spec == "none":
                    return None
                if spec == "empty":
                    return []
                if spec == "emptytuple":
                    return ()
                if spec == "subset":
                    return arg[:1]
                return 42
            return spec
        return f

    options = {}
    for kind in ("rdwr", "llcp", "card"):
        spec = case[kind]
        if spec is None:
            continue
        o = {}
        for name in ("startup", "discover", "connect", "release"):
            if kind == "llcp" and name == "discover":
                continue              # peer to peer has no on-discover
            if spec[name] != "default":
                o["on-" + name] = cb(kind, name, spec[name], None)
        if kind == "rdwr":
            if spec["targets"] is not None:
                o["targets"] = spec["targets"]
            if spec["iterations"] is not None:
                o["iterations"] = spec["iterations"]
            else:
                o["iterations"] = 2
            o["interval"] = spec["interval"] or 0.05
            if spec["beep"] is not None:
                o["beep-on-connect"] = spec["beep"]
        if kind == "llcp":
            if spec["role"]:
                o["role"] = spec["role"]
            o["lto"] = spec["lto"]
        options[kind] = o
    return options


def run_connect(case, ctx):
    s = vsched.Sched([], seed=case["seed"], step_budget=400000)
    vsched.activate(s)
    trace = []
    air = simdev.Air()
    clf = nfc.clf.ContactlessFrontend()
    clf.device = EnvDevice(air, "dut", case["env"], trace)
    peer = None
    if case["env"]["peer"]:
        peer = simdev.frontend(air, "peer")
    tcalls = {"n": 0}
    objects = {}

    def terminate():
        tcalls["n"] += 1
        r = tcalls["n"] >= case["terminate_at"]
        trace.append(("terminate", r, tcalls["n"]))
        return r

    options = build_options(case, trace, objects)
    out = {}

    def dut():
        try:
            out["ret"] = clf.connect(terminate=terminate, **options)
        except (vsched.Abort, vsched.StepBudget):
            raise
        except BaseException as e:
            out["exc"] = e
        out["done"] = True

    def peer_thread():
        t0 = s.now
        try:
            popts = {"role": case["env"]["peer"], "lto": 100}
            if case["env"].get("app"):
                def peer_apps(llc):
                    start_apps(llc, "both", [], peer=True)
                    return True
                popts["on-connect"] = peer_apps
            peer.connect(llcp=popts,
                         terminate=lambda: s.now - t0 > case["env"]
                         ["peer_time"])
        except (vsched.Abort, vsched.StepBudget):
            raise
        except BaseException:
            pass
    try:
        s.spawn(dut, "dut")
        if peer is not None:
            s.spawn(peer_thread, "peer")
        s.run_until(lambda: out.get("done"), 200.0)
        done = out.get("done")
        blocked = [repr(t) for t in s.blocked()]
    finally:
        s.shutdown()
        vsched.activate(None)
    ctx.set_class("connect")
    judge(case, ctx, trace, out, done, blocked, tcalls, objects)


ACT_NEEDED = {"rdwr": ("sense",), "llcp": ("atr_res", "listen_dep"),
              "card": ("listen",)}


def judge(case, ctx, trace, out, done, blocked, tcalls, objects,
          rounds=False):
    """the documented contract of connect() against the recorded time line
    (callbacks, driver calls, terminate() calls, completed discoveries)"""
    kinds = [k for k in ("rdwr", "llcp", "card") if case[k] is not None]
    ctx.label("options=" + "+".join(kinds) if kinds else "options=none")
    if not done:
        raise Violation("connect-did-not-return",
                        "terminate() called %d times, blocked %r"
                        % (tcalls["n"], blocked))
    if "exc" in out:
        e = out["exc"]
        if isinstance(e, SystemExit):
            ctx.set_class("connect/SystemExit")
            raise Violation("connect-raises-SystemExit",
                            "after a device IOError inside the LLCP run loop")
        raise unexpected(e, "connect-raises")
    ret = out["ret"]
    for t in trace:
        if t[0] == "app-exc":
            raise unexpected(t[2], "application-thread-raises", detail=t[1])
    apps = [t[1] for t in trace if t[0] == "app-done"]
    if apps:
        ctx.label("llcp-apps-ended:%d" % len(apps))
    nconn = len([t for t in trace if t[0] == "app-connected"])
    if nconn:
        ctx.label("llcp-app-connections:%d" % nconn)
        if case.get("nt") == "app-connection":
            ctx.nontrivial()
    cbs = [t for t in trace if t[0] == "cb"]
    # 1. startups first
    first_drv = next((i for i, t in enumerate(trace) if t[0] == "drv"), None)
    for i, t in enumerate(trace):
        if t[0] == "cb" and t[2] == "startup" and first_drv is not None \
                and i > first_drv:
            raise Violation("on-startup-after-discovery", repr(trace[:12]))
    # which options survive
    def survives(kind):
        spec = case[kind]
        if spec is None:
            return False
        if kind == "rdwr" and spec.get("targets") == []:
            return False        # nothing to look for, whatever on-startup is
        return spec["startup"] in ("default", "ok", "subset") \
            if kind != "card" else spec["startup"] == "ok"
    alive = [k for k in kinds if survives(k)]
    if not alive:
        if ret is not None:
            raise Violation("return-not-None-without-options", repr(ret))
        if first_drv is not None:
            raise Violation("driver-used-without-options", repr(trace[:8]))
        ctx.label("no-option-survives")
        return
    # every option that survived its on-startup gets its turn in each round
    # of the main loop: when nothing ever connected (no inner loop consumed
    # terminate() calls), no device fault was scripted and terminate() was
    # asked at least twice, one complete round has been made
    if ret is None and tcalls["n"] >= 2 and not rounds and \
            not case["env"].get("fault") and \
            not any(t[2] == "connect" for t in cbs) and "exc" not in out:
        names = [t[1] for t in trace if t[0] == "drv"]
        family = {"rdwr": lambda n: n.startswith("sense_t"),
                  "card": lambda n: n.startswith("listen_t"),
                  "llcp": lambda n: n in ("listen_dep", "sense_dep",
                                          "sense_tta", "sense_ttf")}
        for kind in alive:
            if kind == "rdwr" and case["rdwr"].get("targets") == []:
                continue
            if not any(family[kind](n) for n in names):
                raise Violation("option-never-tried", "%s survived its "
                                "on-startup but the device was never asked "
                                "for it in a complete round (driver calls "
                                "%r)" % (kind, sorted(set(names))))
    # 2. per kind callback order and release accounting
    released_false = False
    for kind in kinds:
        seq = [t for t in cbs if t[1] == kind and t[2] != "startup"]
        state = "idle"
        pending = None
        for _, _, name, oid, _ in seq:
            spec = case[kind][name]
            if name == "discover":
                if state == "connected":
                    raise Violation("on-discover-before-release",
                                    "%s %r" % (kind, seq))
                if state == "discovered" and kind == "rdwr" and spec and \
                        case["rdwr"]["connect"] != "default" and \
                        case["env"]["fault"] is None and \
                        case["env"].get("tag") and \
                        case["env"].get("tag_life", 0) >= 1000 and \
                        case["env"].get("peer") is None:
                    # the application accepted a tag that stays in the field
                    # and is of a supported type: it must be activated and
                    # handed to on-connect, not discovered over and over
                    raise Violation("accepted-tag-never-connected",
                                    "tag %r: %r" % (case["env"]["tag"],
                                                    seq[:6]))
                state = "discovered"
            elif name == "connect":
                if state == "connected":
                    raise Violation("on-connect-twice-without-release",
                                    "%s %r" % (kind, seq))
                if kind != "llcp" and case[kind]["discover"] is False:
                    raise Violation("on-connect-although-discover-false",
                                    kind)
                state = "connected" if spec else "returned"
                pending = oid if spec else None
            elif name == "release":
                implicit = case[kind]["connect"] == "default"
                if state != "connected" and not implicit:
                    raise Violation("on-release-without-true-on-connect",
                                    "%s %r" % (kind, seq))
                if not implicit and oid != pending:
                    raise Violation("on-release-with-other-object", kind)
                state = "idle"
                pending = None
                if not spec:
                    released_false = True
        if state == "connected" and case[kind]["release"] != "default":
            f_ = case["env"]["fault"]
            if f_ is not None and any(t[0] == "drv" and t[2] == f_[1]
                                      for t in trace):
                ctx.set_class("connect/on-release-missing-after-device-error")
            raise Violation("on-release-missing",
                            "%s: on-connect returned true, connect() returned "
                            "%r, callbacks %r" % (kind, ret, seq))
    # 2b. a callback of an activation needs an activation: since the
    # previous callback of the same name for that option the driver must
    # have completed a discovery of the matching kind (a tag answered the
    # poll / the device was activated as card / an NFC-DEP ATR exchange or
    # listen completed)
    since = dict(((k, n), set()) for k in ACT_NEEDED
                 for n in ("discover", "connect"))
    for t in trace:
        if t[0] == "act":
            for got in since.values():
                got.add(t[1])
        elif t[0] == "cb" and t[2] in ("discover", "connect"):
            if not since[(t[1], t[2])] & set(ACT_NEEDED[t[1]]):
                raise Violation(
                    "on-%s-without-activation" % t[2], "%s on-%s was called "
                    "although the device completed no %s since the previous "
                    "one; callbacks %r" % (t[1], t[2], "/".join(
                        ACT_NEEDED[t[1]]), [c[1:3] for c in cbs][-8:]))
            since[(t[1], t[2])] = set()
    # 3. return value
    fault = case["env"]["fault"]
    fault_hit = fault is not None and any(
        t[0] == "drv" and t[2] == fault[1] for t in trace)
    term_true = any(t[0] == "terminate" and t[1] for t in trace)
    last_connect = None
    for t in cbs:
        if t[2] == "connect":
            last_connect = t
    if ret is False:
        if not fault_hit:
            raise Violation("returns-False-without-device-error",
                            repr(trace[-6:]))
        ctx.label("ret=False(device error)")
    elif ret is None:
        if not term_true:
            raise Violation("returns-None-without-terminate",
                            repr(trace[-8:]))
        ctx.label("ret=None(terminate)")
    else:
        # object of a false on-connect, or on-release's true value
        objs = [objects.get(t[3]) for t in cbs if t[2] == "connect"
                and not case[t[1]]["connect"]]
        if any(ret is o for o in objs):
            ctx.label("ret=object")
        elif isinstance(ret, (nfc.tag.Tag, nfc.llcp.llc.LogicalLinkController,
                              nfc.tag.TagEmulation)):
            # default on-connect returned... only allowed if a callback
            # returned false for exactly this object
            raise Violation("returns-object-without-false-on-connect",
                            type(ret).__name__)
        else:
            if not ret:
                raise Violation("returns-false-value", repr(ret))
            rel = [case[t[1]]["release"] for t in cbs if t[2] == "release"]
            defaults = any(case[k]["release"] == "default" and
                           case[k]["connect"] in ("default", True, 1, "x")
                           for k in alive)
            if ret is not True and ret not in rel:
                raise Violation("return-value-from-nowhere", repr(ret))
            if ret is True and True not in rel and not defaults:
                raise Violation("returns-True-without-release", repr(rel))
            ctx.label("ret=released")
    # 4. after terminate() is true nothing new starts
    ti = next((i for i, t in enumerate(trace)
               if t[0] == "terminate" and t[1]), None)
    if ti is not None:
        later = [t for t in trace[ti + 1:] if t[0] == "cb"
                 and t[2] in ("discover", "connect")]
        if later and not released_false:
            raise Violation("activation-after-terminate", repr(later[:3]))
        ndrv = len([t for t in trace[ti + 1:] if t[0] == "drv"])
        if ndrv > 12 and not released_false:
            raise Violation("not-prompt-after-terminate",
                            "%d driver calls after terminate() was true"
                            % ndrv)
    if rounds:
        # an on-release returned a false value and connect() went back to
        # discovery (a further round), or two activations in the one call
        rel = [i for i, t in enumerate(trace) if t[0] == "cb"
               and t[2] == "release" and not case[t[1]]["release"]]
        again = rel and any(t[0] == "drv" and t[1].startswith(
            ("sense_", "listen_")) for t in trace[rel[0]:])
        if again or len([t for t in cbs if t[2] == "connect"]) >= 2:
            ctx.nontrivial()
    elif len(alive) >= 2 or released_false or any(
            case[k]["connect"] in (False, None, 0, "") for k in alive) or \
            (ti is not None and any(t[0] == "cb" and t[2] == "connect"
                                    for t in trace[:ti])):
        ctx.nontrivial()
    if released_false:
        ctx.label("on-release-returned-false(loop continues)")
    ctx.note({"trace": [t[:3] for t in trace if t[0] != "drv"][:14],
              "driver_calls": len([t for t in trace if t[0] == "drv"]),
              "ret": repr(ret)[:60]})


# ------------------------------------------------------------------ rounds
# One connect() call that lives through SEVERAL discovery rounds: the
# counterparts come and go by a script in virtual time (a director thread
# walks through it), on-release mostly returns a false value so that the loop
# goes on, terminate() turns true at a generated point of the script.
class RoundsDevice(EnvDevice):
    """EnvDevice whose tag / remote reader presence is switched by the
    director; a tag that left does not answer, one that is back does"""

    def __init__(self, air, name, trace):
        EnvDevice.__init__(self, air, name, {"tag": None, "fault": None,
                                             "reader_cmds": 0}, trace)
        self.tags = {"t2t": make_tag("t2t"), "t3t": make_tag("t3t")}
        self.present = False
        self.tag_life = 10 ** 9

    def _tag_here(self):
        return self.tag is not None and self.present

    def leave(self):
        """whoever was in the field is gone: an activated tag answers no
        more (a tag put there later needs a new activation)"""
        self.present = False
        self.tag_active = False
        self.reader_visits = 0


def _timed(name):
    # every driver call takes a little (virtual) time, as on hardware: a poll
    # loop without any pause must not freeze the script.  The time passes
    # first, the call itself then sees one state of the field.
    def call(self, *args):
        vsched.current().sleep(0.001)
        return getattr(EnvDevice, name)(self, *args)
    call.__name__ = name
    return call


for _n in ("mute", "sense_tta", "sense_ttb", "sense_ttf", "sense_dep",
           "listen_tta", "listen_ttb", "listen_ttf", "listen_dep",
           "send_cmd_recv_rsp", "send_rsp_recv_cmd"):
    setattr(RoundsDevice, _n, _timed(_n))


FALSY = [False, None, 0, ""]
TRUTHY = [True, 1, "x"]


def round_opts(kind):
    d = {
        "startup": st.just("ok") if kind == "card" else
        st.sampled_from(["ok", "ok", "default"]),
        "discover": st.sampled_from(["default", "default", True, True, False]),
        "connect": st.sampled_from(["default"] * 2 + TRUTHY * 2 + [False]),
        # a false value keeps connect() going: the usual case here
        "release": st.sampled_from(FALSY * 3 + ["default", True, "x"]),
    }
    if kind == "rdwr":
        d["targets"] = st.sampled_from([None, ["106A"], ["212F"],
                                        ["106A", "212F"], ["212F", "106A"]])
        d["iterations"] = st.sampled_from([1, 2])
        d["interval"] = st.just(0.05)
        d["beep"] = st.sampled_from([None, False])
    if kind == "llcp":
        d["role"] = st.sampled_from([None, None, "initiator", "target"])
        d["lto"] = st.sampled_from([100, 500])
    if kind == "card":
        d["brty"] = st.sampled_from(["212F", "424F"])
    return st.fixed_dictionaries(d)


WHO = {"rdwr": ["t2t", "t3t"], "llcp": ["initiator", "target"],
       "card": ["reader"]}


@st.composite
def rounds_case(draw):
    kinds = draw(st.sampled_from([
        ["llcp"], ["llcp"], ["llcp"], ["rdwr"], ["card"], ["rdwr", "llcp"],
        ["llcp", "card"], ["rdwr", "card"], ["rdwr", "llcp", "card"]]))
    case = {"rdwr": None, "llcp": None, "card": None}
    for k in kinds:
        case[k] = draw(round_opts(k))
    fitting = [w for k in kinds for w in WHO[k]]
    who = st.sampled_from(fitting * 3 + ["nobody", "nobody"]
                          + sorted(set(sum(WHO.values(), []))))
    case["script"] = draw(st.lists(st.fixed_dictionaries({
        "gap": st.sampled_from([0.0, 0.3, 1.3, 2.6]),
        "who": who,
        "stay": st.sampled_from([0.4, 1.1, 2.4]),
        "cmds": st.integers(0, 3)}), min_size=2, max_size=5))
    # terminate() turns true in the middle of episode `idx` or `tail`
    # seconds after the last one
    case["end"] = draw(st.one_of(
        st.tuples(st.just("after"), st.sampled_from([0.1, 1.5, 4.0])),
        st.tuples(st.just("after"), st.sampled_from([0.1, 1.5, 4.0])),
        st.tuples(st.just("during"), st.integers(0, 4))))
    case["env"] = {"fault": None}
    case["seed"] = draw(st.integers(0, 255))
    return case


def run_rounds(case, ctx):
    s = vsched.Sched([], seed=case["seed"], step_budget=300000)
    vsched.activate(s)
    trace = []
    air = simdev.Air()
    clf = nfc.clf.ContactlessFrontend()
    dev = clf.device = RoundsDevice(air, "dut", trace)
    peer = simdev.frontend(air, "peer")
    script = case["script"]
    t, starts = 0.0, []
    for ep in script:
        t += ep["gap"]
        starts.append(t)
        t += ep["stay"]
    if case["end"][0] == "after":
        t_end = t + case["end"][1]
    else:
        i = case["end"][1] % len(script)
        t_end = starts[i] + script[i]["stay"] / 2
    tcalls = {"n": 0}
    objects = {}
    peer_links = []

    def terminate():
        tcalls["n"] += 1
        r = s.now >= t_end
        if r or not trace or trace[-1][0] != "terminate":
            trace.append(("terminate", r, tcalls["n"]))
        return r

    options = build_options(case, trace, objects)
    out = {}

    def dut():
        try:
            out["ret"] = clf.connect(terminate=terminate, **options)
        except (vsched.Abort, vsched.StepBudget):
            raise
        except BaseException as e:
            out["exc"] = e
        out["done"] = True

    def director():
        for ep, start in zip(script, starts):
            if s.now < start:
                s.sleep(start - s.now)
            who, until = ep["who"], s.now + ep["stay"]
            if who in ("initiator", "target"):
                def linked(llc):
                    peer_links.append(s.now)
                    return True
                try:
                    peer.connect(llcp={"role": who, "lto": 100,
                                       "on-connect": linked},
                                 terminate=lambda: s.now >= until)
                except (vsched.Abort, vsched.StepBudget):
                    raise
                except BaseException:
                    pass
            elif who in ("t2t", "t3t"):
                dev.tag = dev.tags[who]
                dev.tag.reset()
                dev.present = True
            elif who == "reader":
                dev.env["reader_cmds"] = ep["cmds"]
                dev.reader_visits = 1
            if s.now < until:
                s.sleep(until - s.now)
            dev.leave()
    try:
        s.spawn(dut, "dut")
        s.spawn(director, "director")
        s.run_until(lambda: out.get("done"), t_end + 40.0)
        done = out.get("done")
        blocked = [repr(x) for x in s.blocked()]
    except vsched.StepBudget:
        raise Violation("livelock", "step budget exhausted at t=%.1f "
                        "(terminate at %.1f)" % (s.now, t_end))
    finally:
        s.shutdown()
        vsched.activate(None)
    ctx.set_class("rounds")
    judge(case, ctx, trace, out, done, blocked, tcalls, objects, rounds=True)
    cbs = [x for x in trace if x[0] == "cb"]
    nconn = len([x for x in cbs if x[2] == "connect"])
    ctx.label("activations=%d" % min(nconn, 4))
    ctx.label("peer-links=%d" % min(len(peer_links), 3))
    if nconn >= 2:
        ctx.label("several-activations-in-one-call")


# ------------------------------------------------------------------- sense
class SenseDevice(simdev.SimDevice):
    """driver that supports 106A, 106B, 212F; rejects everything else"""

    def __init__(self, air, present):
        simdev.SimDevice.__init__(self, air, "dut")
        self.present = present
        self.names = []

    def _call(self, name):
        self.names.append(name)

    def sense_tta(self, target):
        self._call("sense_tta")
        if target.brty != "106A":
            raise nfc.clf.UnsupportedTargetError(target.brty)
        if "A" in self.present:
            return nfc.clf.RemoteTarget(
                "106A", sens_res=bytearray(b"\x44\x00"),
                sel_res=bytearray(b"\x00"),
                sdd_res=bytearray.fromhex("02112233445566"))

    def sense_ttb(self, target):
        self._call("sense_ttb")
        if target.brty != "106B":
            raise nfc.clf.UnsupportedTargetError(target.brty)
        if "B" in self.present:
            return nfc.clf.RemoteTarget(
                "106B", sensb_res=bytearray.fromhex(
                    "50E5DD3DC900000011008185"))

    def sense_ttf(self, target):
        self._call("sense_ttf")
        if target.brty != "212F":
            raise nfc.clf.UnsupportedTargetError(target.brty)
        if "F" in self.present:
            return nfc.clf.RemoteTarget(
                "212F", sensf_res=bytearray.fromhex(
                    "0102FE010203040506FFFFFFFFFFFFFFFF12FC"))

    def sense_dep(self, target):
        self._call("sense_dep")
        raise nfc.clf.UnsupportedTargetError("no active mode")

    def listen_tta(self, target, timeout):
        self._call("listen_tta")
        return None

    def send_cmd_recv_rsp(self, target, data, timeout):
        self._call("send_cmd_recv_rsp")
        return bytearray(b"\x0A")

    def send_rsp_recv_cmd(self, target, data, timeout):
        self._call("send_rsp_recv_cmd")
        return bytearray(b"\x01")


TARGETS = ["106A", "106B", "212F",                # supported
           "424F", "212A", "424A", "212B", "848B",  # unsupported bit rate
           "106A/sel2", "106A/sel7", "dep/short", "dep/ok"]  # invalid / dep


def mk_target(name):
    if name == "106A/sel2":
        return nfc.clf.RemoteTarget("106A", sel_req=bytearray(2))
    if name == "106A/sel7":
        return nfc.clf.RemoteTarget(
            "106A", sel_req=bytearray.fromhex("02112233445566"))
    if name == "dep/short":
        return nfc.clf.RemoteTarget("106A", atr_req=bytearray(5))
    if name == "dep/ok":
        return nfc.clf.RemoteTarget("106A", atr_req=bytearray(16))
    return nfc.clf.RemoteTarget(name)


def sense_case():
    return st.fixed_dictionaries({
        "targets": st.lists(st.sampled_from(TARGETS), min_size=1, max_size=5),
        "present": st.sampled_from(["", "", "A", "B", "F", "AF", "BF",
                                    "ABF"]),
        "iterations": st.sampled_from([1, 1, 2, 3]),
        "then": st.sampled_from(["exchange", "listen-exchange",
                                 "sense-empty-exchange",
                                 "sense-unsupported-exchange",
                                 "listen-unsupported-exchange",
                                 "listen-unsupported-exchange",
                                 "listen-invalid-exchange"]),
        # the Type B bitrate of the listen the driver does not support
        "brty_b": st.sampled_from(["106B", "212B", "424B", "848B"])})


def run_sense(case, ctx):
    s = vsched.Sched([], seed=0)
    vsched.activate(s)
    try:
        air = simdev.Air()
        dev = SenseDevice(air, case["present"])
        clf = nfc.clf.ContactlessFrontend()
        clf.device = dev
        names = case["targets"]
        targets = [mk_target(n) for n in names]
        supported = {"106A": "A", "106B": "B", "212F": "F", "106A/sel7": "A"}
        expect = None
        for n in names:
            if n in supported and supported[n] in case["present"]:
                expect = n
                break
        ctx.set_class("sense/%s" % ("single" if len(names) == 1
                                    else "multiple"))
        err = None
        try:
            found = clf.sense(*targets, iterations=case["iterations"],
                              interval=0.01)
        except (nfc.clf.UnsupportedTargetError, ValueError) as e:
            err = e
        except Exception as e:
            raise unexpected(e, "sense-raises")
        if err is not None:
            if len(names) > 1:
                bad = [n for n in names if n not in ("106A", "106B", "212F",
                                                     "106A/sel7")]
                ctx.set_class("sense/multiple/%s" % type(err).__name__)
                raise Violation("sense-raises-with-several-targets",
                                "%s for %r (not supported / invalid: %r)"
                                % (type(err).__name__, names, bad))
            ctx.label("single-target-error:" + type(err).__name__)
            return
        if expect is None:
            if found is not None:
                raise Violation("sense-found-absent-target", repr(found))
            if dev.names and dev.names[-1] != "mute":
                raise Violation("field-left-on-after-unsuccessful-sense",
                                repr(dev.names[-4:]))
            n0 = len(dev.names)
            r = clf.exchange(b"\x30\x00", 0.1)
            if r is not None or len(dev.names) != n0:
                raise Violation("exchange-after-unsuccessful-sense",
                                "returned %r, driver calls %r"
                                % (r, dev.names[n0:]))
            ctx.label("nothing-found")
        else:
            if found is None:
                raise Violation("sense-missed-present-target",
                                "%r present %r" % (names, case["present"]))
            want = expect.split("/")[0]
            if found.brty != want:
                raise Violation("sense-not-first-in-order",
                                "got %s, first present target is %s in %r"
                                % (found.brty, expect, names))
            n0 = len(dev.names)
            clf.exchange(b"\x30\x00", 0.1)
            if dev.names[n0:] != ["send_cmd_recv_rsp"]:
                raise Violation("exchange-wrong-direction",
                                repr(dev.names[n0:]))
            # a later unsuccessful sense / listen must forget the target
            if case["then"] == "listen-exchange":
                t = nfc.clf.LocalTarget("106A", sens_res=bytearray(2),
                                        sdd_res=bytearray(4),
                                        sel_res=bytearray(1))
                clf.listen(t, 0.01)
            elif case["then"] == "sense-empty-exchange":
                dev.present = ""
                clf.sense(nfc.clf.RemoteTarget("106A"))
            elif case["then"] == "sense-unsupported-exchange":
                clf.sense(nfc.clf.RemoteTarget("424F"),
                          nfc.clf.RemoteTarget("212A"))
            elif case["then"] == "listen-unsupported-exchange":
                try:        # the driver does not listen as Type B target
                    clf.listen(nfc.clf.LocalTarget(
                        case.get("brty_b", "106B")), 0.01)
                except nfc.clf.UnsupportedTargetError:
                    pass
            elif case["then"] == "listen-invalid-exchange":
                try:
                    clf.listen(nfc.clf.LocalTarget("999X"), 0.01)
                except ValueError:
                    pass
            if case["then"] != "exchange":
                n0 = len(dev.names)
                r = clf.exchange(b"\x30\x00", 0.1)
                if r is not None or len(dev.names) != n0:
                    raise Violation("exchange-uses-stale-target",
                                    "after %s: returned %r, driver calls %r"
                                    % (case["then"], r, dev.names[n0:]))
            ctx.label("found")
        if len(names) > 1 and any(n not in ("106A", "106B", "212F")
                                  for n in names):
            ctx.nontrivial()
    finally:
        s.shutdown()
        vsched.activate(None)


# ----------------------------------------------------------------- tagapps
# Applications that USE the tag while connect() holds it: the on-connect
# callback (or, when on-connect returns a false value, the code after
# connect() handed the tag back) runs a short generated program of documented
# tag operations, while the field misbehaves at a generated command position.
# connect() itself (presence loop, on-release, return value) is judged.
APP_FAM = {"t2t": "t2t", "t2t-ul": "t2t", "t1t": "t1t", "t1t-dyn": "t1t",
           "t3t": "t3t", "t4a": "t4t", "t4a+dep": "t4t"}
APP_COMMON = ["ndef", "changed", "write", "write-empty", "dump", "present",
              "format", "format-wipe", "read:in", "read:out", "write:in",
              "write:out"]
APP_OPS = {
    "t2t": APP_COMMON + ["read:far", "read:out", "dump"],
    "t1t": APP_COMMON + ["read:all", "read:id"],
    "t3t": APP_COMMON + ["poll", "read:out"],
    "t4t": APP_COMMON + ["read:out"],
}
APP_FIXED = [
    {"kind": "t2t", "size": 6, "extra": 0, "nulls": 0, "cut": 0, "msg": 21},
    {"kind": "t2t", "size": 12, "extra": 8, "nulls": 1, "cut": 16, "msg": 40},
    {"kind": "t2t-ul", "size": 6, "extra": 0, "nulls": 0, "cut": 0,
     "msg": 21},
    {"kind": "t1t", "hr1": 0x00, "msg": 21},
    {"kind": "t1t", "hr1": 0x48, "msg": 21},
    {"kind": "t1t-dyn", "hr1": 0x00, "msg": 40},
    {"kind": "t3t", "nmaxb": 4, "extra": 0, "msg": 21},
    {"kind": "t4a", "fsize": 64, "fsci": 8, "chunk": None, "msg": 21},
    {"kind": "t4a+dep", "fsize": 96, "fsci": 2, "chunk": 11, "msg": 40},
]


def app_quiet(fn, *a, **kw):
    with contextlib.redirect_stdout(io.StringIO()):
        return fn(*a, **kw)


def app_sim(spec):
    """tag spec -> (simulator, geometry for the raw operations)"""
    kind = spec["kind"]
    if kind in ("t2t", "t2t-ul"):
        b = tc.build({"kind": "t2t", "size": spec["size"],
                      "extra": spec["extra"], "ctrl": [],
                      "nulls": spec["nulls"], "filler": 0},
                     ("abs", spec["msg"]), 5)
        mem = b.tag.mem
        if spec["cut"] and len(mem) - spec["cut"] >= 64:
            del mem[len(mem) - spec["cut"]:]   # less memory than declared
        if kind == "t2t-ul":
            # an NXP UID: activated as Mifare Ultralight after vendor probing
            mem[0] = 0x04
            b.tag.uid = bytes(mem[0:3] + mem[4:8])
        return b.tag, {"out": (len(mem) + 3) // 4}
    if kind in ("t1t", "t1t-dyn"):
        b = tc.build({"kind": "t1t", "size": 14 if kind == "t1t" else 31,
                      "extra": 0, "hr1": spec["hr1"], "ctrl": [], "nulls": 0,
                      "filler": 0}, ("abs", spec["msg"]), 5)
        return b.tag, {"dyn": kind == "t1t-dyn"}
    if kind == "t3t":
        b = tc.build({"kind": "t3t", "ver": 0x10, "nbr": 3, "nbw": 2,
                      "nmaxb": spec["nmaxb"], "phys_extra": spec["extra"],
                      "nbr_extra": 1, "nbw_extra": 1, "filler": 0},
                     ("abs", spec["msg"]), 5)
        return b.tag, {"out": spec["nmaxb"] + spec["extra"] + 1}
    b = tc.build({"kind": "t4t", "tech": "A", "ver": 0x20, "mle": 40,
                  "mlc": 30, "fsize": spec["fsize"], "phys_extra": 8,
                  "fsci": spec["fsci"], "fwi": 4, "chunk": spec["chunk"],
                  "wtx": 0, "filler": 0}, ("abs", spec["msg"]), 5)
    if kind == "t4a+dep":
        plain = b.tag.target

        def target(poll):
            t = plain(poll)
            if t is not None:
                t.sel_res = bytearray(b"\x60")     # also announces NFC-DEP
            return t
        b.tag.target = target
    return b.tag, {}


def app_op(tag, op, spec, geo):
    """one step of the application program: documented use of the tag
    object only (valid arguments, NDEF written only when writeable and
    within capacity)"""
    if op == "ndef":
        n = tag.ndef
        return None if n is None else len(n.octets)
    if op == "changed":
        n = tag.ndef
        return None if n is None else n.has_changed
    if op in ("write", "write-empty"):
        n = tag.ndef
        if n is None:
            return "no-ndef"
        if not n.is_writeable:
            return "read-only"
        n.octets = b"" if op == "write-empty" else \
            tc.message(min(spec["msg"] + 3, n.capacity), 9)
        return "written"
    if op == "dump":
        return len(tag.dump())
    if op == "present":
        return tag.is_present
    if op in ("format", "format-wipe"):
        kw = {"wipe": 0x5A} if op == "format-wipe" else {}
        if type(tag) is nfc.tag.tt3.Type3Tag:
            kw["version"] = 0x10
        return app_quiet(tag.format, **kw)
    if isinstance(tag, nfc.tag.tt2.Type2Tag):
        if op == "read:in":
            return len(tag.read(4))
        if op == "read:out":
            return len(tag.read(geo["out"]))
        if op == "read:far":
            return len(tag.read(250))
        if op == "write:in":
            return tag.write(7, bytearray(b"WXYZ"))
        if op == "write:out":
            return tag.write(geo["out"], bytearray(b"WXYZ"))
    elif isinstance(tag, nfc.tag.tt1.Type1Tag):
        if op == "read:all":
            return len(tag.read_all())
        if op == "read:id":
            return len(tag.read_id())
        if op == "read:in":
            return tag.read_byte(20)
        if op == "write:in":
            return len(tag.write_byte(21, 0x77))
        if op == "read:out":          # behind the memory (static: last byte)
            return len(tag.read_block(200)) if geo["dyn"] else \
                tag.read_byte(127)
        if op == "write:out":
            return tag.write_block(200, bytearray(b"ABCDEFGH")) \
                if geo["dyn"] else len(tag.write_byte(127, 0x77))
    elif isinstance(tag, nfc.tag.tt3.Type3Tag):
        if op == "poll":
            return len(tag.polling(0x12FC))
        if op == "read:in":
            return len(tag.read_from_ndef_service(1))
        if op == "read:out":
            return len(tag.read_from_ndef_service(geo["out"]))
        if op == "write:in":
            return tag.write_to_ndef_service(bytearray(range(16)), 2)
        if op == "write:out":
            return tag.write_to_ndef_service(bytearray(range(16)),
                                             geo["out"])
    elif isinstance(tag, nfc.tag.tt4.Type4Tag):
        if op == "read:in":
            return len(tag.send_apdu(0x00, 0xB0, 0x00, 0x00, mrl=8))
        if op == "read:out":
            return len(tag.send_apdu(0x00, 0xB0, 0x7F, 0x00, mrl=8))
        if op == "write:in":
            return len(tag.send_apdu(0x00, 0xD6, 0x00, 0x10, b"WXYZ"))
        if op == "write:out":
            return len(tag.send_apdu(0x00, 0xD6, 0x7F, 0x00, b"WXYZ"))
    return "not-for-this-tag"


class AppDevice(EnvDevice):
    """EnvDevice with one tag and a field that follows a plan.  Counting
    starts with arm() (the application program begins): every command sent to
    the tag and every poll of the tag's technology is one event.

    plan = {"trigger": ["event", n]        window starts at event n
                     | ["nak", k, d]       d events after the k-th command
                                           the tag refused (NAK, error
                                           status, no answer)
                     | ["poll", k, d]      d events after the k-th poll
                                           (re-selection) began,
            "mode": "leave"                the tag is out of the field: no
                                           answer, polls find nothing
                  | "timeout" | "transmission" | "protocol"
                                           the driver reports that error
                                           (commands and polls alike),
            "span": n events, 0 = from then on,
            "phase": "cmd" | "rsp"         error before / after the tag
                                           executed the command}
    A tag that was out of the field lost power: a Type A tag must be selected
    again before it answers, a Type F tag answers its IDm at once."""

    def __init__(self, air, name, sim, fam, trace):
        EnvDevice.__init__(self, air, name, {"tag": None, "fault": None},
                           trace)
        self.tag = sim
        self.fam = fam
        self.disarm()

    def disarm(self):
        self.plan, self.armed = None, False
        self.events = self.polls = self.refused = self.hits = 0
        self.start = self.gone_from = self.prog_end = None
        self.hit_at = []
        self.gone_hit = None

    def arm(self, plan):
        self.disarm()
        self.plan, self.armed = plan, True
        if plan is not None and plan["trigger"][0] == "event":
            self.start = plan["trigger"][1]

    def program_done(self, linger):
        if self.armed and self.prog_end is None:
            self.prog_end = self.events
            if linger is not None:
                self.gone_from = self.events + linger

    def _tag_here(self):
        return True

    def _event(self, kind):
        if not self.armed:
            return None
        i = self.events
        self.events += 1
        p = self.plan
        if kind == "poll":
            if p is not None and self.start is None and \
                    p["trigger"][0] == "poll" and \
                    self.polls == p["trigger"][1]:
                self.start = i + p["trigger"][2]
            self.polls += 1
        mode = None
        if self.gone_from is not None and i >= self.gone_from:
            mode = "leave"
            if self.gone_hit is None:
                self.gone_hit = i
        elif p is not None and self.start is not None and i >= self.start \
                and (p["span"] == 0 or i < self.start + p["span"]):
            mode = p["mode"]
            self.hits += 1
            self.hit_at.append(i)
        if mode == "leave":
            self.tag.reset()                   # power lost
            if self.tag.tech == "A":
                self.tag_active = False
        return mode

    def _refusal(self, rsp):
        if not self.armed:
            return
        r = None if rsp is None else bytes(rsp)
        refused = r is None or \
            (self.fam == "t2t" and len(r) == 1 and r[0] & 0xFA == 0) or \
            (self.fam == "t3t" and len(r) > 10 and r[1] in (7, 9)
             and r[10] != 0)
        if refused:
            p = self.plan
            if p is not None and self.start is None and \
                    p["trigger"][0] == "nak" and \
                    self.refused == p["trigger"][1]:
                self.start = self.events + p["trigger"][2]
            self.refused += 1

    def _poll(self, name, tech, target):
        self._call(name)
        if self.tag.tech != tech:
            return None
        mode = self._event("poll")
        if mode == "leave":
            return None
        if mode is not None:
            raise tagdev.ERR[mode]("sim: %s error while selecting" % mode)
        t = self.tag.target(target)
        if t is not None:
            self.tag_active = True
        return t

    def _sense_tta(self, target):
        if target.brty != "106A":
            return simdev.SimDevice.sense_tta(self, target)
        return self._poll("sense_tta", "A", target)

    def _sense_ttf(self, target):
        if target.brty not in ("212F", "424F"):
            return simdev.SimDevice.sense_ttf(self, target)
        return self._poll("sense_ttf", "F", target)

    def _send_cmd_recv_rsp(self, target, data, timeout):
        self._call("send_cmd_recv_rsp")
        mode = self._event("cmd")
        if mode == "leave":
            raise nfc.clf.TimeoutError("sim: tag out of the field")
        if not self.tag_active:
            raise nfc.clf.TimeoutError("sim: tag not selected")
        if mode is not None and self.plan["phase"] == "cmd":
            raise tagdev.ERR[mode]("sim: %s (command lost)" % mode)
        rsp = self.tag.command(bytes(data), timeout)
        if mode is not None:
            raise tagdev.ERR[mode]("sim: %s (response lost)" % mode)
        self._refusal(rsp)
        if rsp is None:
            raise nfc.clf.TimeoutError("sim: no response")
        return bytearray(rsp)


def app_judge_case(case):
    """the part of the case that judge() and build_options() look at"""
    return {"rdwr": case["rdwr"], "llcp": None, "card": None,
            "env": {"fault": None, "tag": case["tag"]["kind"], "tag_life": 0,
                    "peer": None}}


class _NoNT(object):
    """judge() marks cases non-trivial by the rule of the connect leg; the
    tagapp legs have a rule of their own"""

    def __init__(self, ctx):
        self.ctx = ctx

    def __getattr__(self, name):
        return getattr(self.ctx, name)

    def nontrivial(self):
        pass


def play_tagapp(case):
    """-> list of sessions (one per connect() call), each a dict with the
    time line, the outcome of connect() and of the program steps"""
    s = vsched.Sched([], seed=0, step_budget=400000)
    vsched.activate(s)
    spec = case["tag"]
    sim, geo = app_sim(spec)
    air = simdev.Air()
    clf = nfc.clf.ContactlessFrontend()
    dev = clf.device = AppDevice(air, "dut", sim, APP_FAM[spec["kind"]], [])
    jcase = app_judge_case(case)
    in_callback = bool(case["rdwr"]["connect"])
    sessions = []
    state = {}

    def program(tag, sess, ops, plan):
        if not dev.armed:
            dev.arm(plan)
        for op in ops:
            try:
                sess["steps"].append((op, "ok", app_op(tag, op, spec, geo)))
            except nfc.tag.TagCommandError as e:
                sess["steps"].append((op, "tce", e.errno))
            except (vsched.Abort, vsched.StepBudget):
                raise
            except Exception as e:
                # not a documented tag error: C16's subject, recorded only
                sess["steps"].append((op, "other", type(e).__name__))
        dev.program_done(case["linger"])

    def dut():
        for k in range(2 if case["again"] else 1):
            sess = {"trace": [], "out": {}, "objects": {}, "tcalls": {"n": 0},
                    "steps": [], "k": k}
            sessions.append(sess)
            dev.trace = trace = sess["trace"]
            plan = case["plan"] if k == 0 else None
            m = case["terminate_at"][k]

            def terminate(sess=sess, trace=trace, m=m):
                sess["tcalls"]["n"] += 1
                r = sess["tcalls"]["n"] >= m
                trace.append(("terminate", r, sess["tcalls"]["n"]))
                return r
            options = build_options(jcase, trace, sess["objects"])["rdwr"]
            recorded = options["on-connect"]

            def on_connect(tag, sess=sess, plan=plan, recorded=recorded):
                r = recorded(tag)
                if in_callback:
                    program(tag, sess, case["prog"], plan)
                return r
            options["on-connect"] = on_connect
            try:
                sess["out"]["ret"] = clf.connect(rdwr=options,
                                                 terminate=terminate)
            except (vsched.Abort, vsched.StepBudget):
                raise
            except BaseException as e:
                sess["out"]["exc"] = e
            sess["out"]["done"] = True
            sess["trace"] = list(trace)          # what connect() itself did
            ret = sess["out"].get("ret")
            if not in_callback and isinstance(ret, nfc.tag.Tag):
                # on-connect declined: the application owns the tag now,
                # works with it and does its own presence check
                program(ret, sess, case["prog"] + ["present"] * 3, plan)
            sess.update(hits=dev.hits, hit_at=list(dev.hit_at),
                        prog_end=dev.prog_end, gone_hit=dev.gone_hit,
                        events=dev.events, polls=dev.polls,
                        refused=dev.refused)
            if "exc" in sess["out"]:
                break
            dev.disarm()                 # the tag is (put back) in the field
            dev.tag.reset()
            dev.tag_active = False
        state["done"] = True
    try:
        s.spawn(dut, "dut")
        s.run_until(lambda: state.get("done"), 400.0)
        state["blocked"] = [repr(t) for t in s.blocked()]
    finally:
        s.shutdown()
        vsched.activate(None)
    return sessions, state


def run_tagapp(case, ctx):
    sessions, state = play_tagapp(case)
    kind = case["tag"]["kind"]
    ctx.set_class("tagapp/" + kind)
    ctx.label("tagapp:" + kind)
    ctx.label("tagapp:program-%s" % (
        "inside-on-connect" if case["rdwr"]["connect"] else
        "after-connect-returned-the-tag"))
    jcase = app_judge_case(case)
    for sess in sessions:
        done = sess["out"].get("done")
        connected = [t for t in sess["trace"] if t[0] == "cb"
                     and t[2] == "connect"]
        steps = sess["steps"]
        if sess["k"] == 0:
            plan = case["plan"]
            where = "no-fault-planned" if plan is None else \
                "fault-not-reached" if not sess.get("hits") else \
                "hit-during-program" if sess["prog_end"] is None or \
                sess["hit_at"][0] < sess["prog_end"] else \
                "hit-during-presence-loop"
            ctx.label("tagapp:" + where)
            if plan is not None and sess.get("hits"):
                ctx.label("tagapp:%s:%s" % (plan["mode"], "for-good" if
                                            plan["span"] == 0 else "passing"))
            for op, how, val in steps:
                ctx.label("tagapp:step:%s" % (
                    how if how != "other" else "other:%s" % val))
            if connected and steps and (sess.get("hits") or
                                        sess.get("gone_hit") is not None):
                ctx.nontrivial()
        try:
            judge(jcase, _NoNT(ctx), sess["trace"], sess["out"], done,
                  state.get("blocked"), sess["tcalls"], sess["objects"])
        except Violation as v:
            v.detail = "connect() call %d on a %s, program %r %s, plan %r, " \
                "steps %r, %d events / %d polls / %d refused: %s" % (
                    sess["k"] + 1, kind, case["prog"],
                    "in on-connect" if case["rdwr"]["connect"] else
                    "after connect()", case["plan"] if sess["k"] == 0
                    else None, [x[:2] for x in steps][:8],
                    sess.get("events", -1), sess.get("polls", -1),
                    sess.get("refused", -1), v.detail)
            raise
    if not state.get("done"):
        raise Violation("connect-did-not-return", "blocked %r"
                        % (state.get("blocked"),))
    ctx.note({"steps": [list(x[:2]) for x in sessions[0]["steps"]][:8],
              "events": sessions[0].get("events"),
              "hit_at": sessions[0].get("hit_at", [])[:4],
              "prog_end": sessions[0].get("prog_end"),
              "ret": [repr(x["out"].get("ret"))[:40] for x in sessions]})


APP_RDWR = {"startup": "default", "discover": True, "connect": True,
            "release": True, "targets": None, "iterations": 1,
            "interval": None, "beep": None}


def enum_tagapp(tier, seed):
    """every event position of every single-operation program"""
    quick = tier == "quick"
    modes = [("leave", 0, "rsp"), ("leave", 1, "rsp"), ("timeout", 1, "rsp")]
    if not quick:
        modes += [("transmission", 2, "cmd"), ("protocol", 1, "rsp"),
                  ("leave", 3, "rsp")]
    count = 0
    for spec in APP_FIXED:
        for op in sorted(set(APP_OPS[APP_FAM[spec["kind"]]])):
            progs = [[op]] if quick else [[op], [op, "ndef"]]
            for prog in progs:
                base = {"tag": spec, "rdwr": APP_RDWR, "prog": prog,
                        "plan": None, "linger": None,
                        "terminate_at": [4, 3], "again": False}
                sessions, _ = play_tagapp(base)
                n = sessions[0].get("prog_end") or 0
                for at in range(n + 2):
                    for mode, span, phase in modes:
                        count += 1
                        c = dict(base, plan={"trigger": ["event", at],
                                             "mode": mode, "span": span,
                                             "phase": phase},
                                 terminate_at=[6, 3])
                        if (count + seed) % 5 == 0:
                            # the application declines and keeps the tag
                            c["rdwr"] = dict(APP_RDWR, connect=False)
                            c["again"] = True
                        elif (count + seed) % 5 == 1:
                            c["rdwr"] = dict(APP_RDWR, release="x",
                                             discover="default")
                            c["again"] = True
                        yield c


def app_tag_spec():
    t2 = st.fixed_dictionaries({
        "kind": st.sampled_from(["t2t", "t2t", "t2t-ul"]),
        "size": st.integers(6, 20), "extra": st.sampled_from([0, 0, 4, 8]),
        "nulls": st.sampled_from([0, 0, 1, 3]),
        "cut": st.sampled_from([0, 0, 0, 8, 16, 64]),
        "msg": st.integers(0, 45)})
    t1 = st.fixed_dictionaries({
        "kind": st.sampled_from(["t1t", "t1t", "t1t-dyn"]),
        "hr1": st.sampled_from([0x00, 0x48]), "msg": st.integers(0, 45)})
    t3 = st.fixed_dictionaries({
        "kind": st.just("t3t"), "nmaxb": st.integers(3, 9),
        "extra": st.integers(0, 2), "msg": st.integers(0, 45)})
    t4 = st.fixed_dictionaries({
        "kind": st.sampled_from(["t4a", "t4a+dep"]),
        "fsize": st.integers(50, 130), "fsci": st.sampled_from([2, 5, 8]),
        "chunk": st.sampled_from([None, None, 11, 30]),
        "msg": st.integers(0, 45)})
    return st.one_of(t2, t2, t2, t1, t1, t3, t3, t4, t4)


@st.composite
def tagapp_case(draw):
    spec = draw(app_tag_spec())
    tech = ["212F"] if spec["kind"] == "t3t" else ["106A"]
    ops = APP_OPS[APP_FAM[spec["kind"]]]
    rdwr = {
        "startup": draw(st.sampled_from(["ok", "default"])),
        "discover": draw(st.sampled_from([True, True, "default", 1])),
        # a true value: the program runs inside the callback and connect()
        # does the presence check; a false value: connect() returns the tag
        "connect": draw(st.sampled_from(TRUTHY * 3 + FALSY)),
        "release": draw(st.sampled_from([True] * 3 + ["x", 1, "default"]
                                        + FALSY)),
        "targets": draw(st.sampled_from([None, None, tech, tech + ["106B"],
                                         ["106A", "212F"],
                                         ["212F", "106A"]])),
        "iterations": draw(st.sampled_from([1, 2])),
        "interval": None,
        "beep": draw(st.sampled_from([None, None, True, False]))}
    prog = draw(st.lists(st.sampled_from(ops), min_size=1, max_size=5))
    kinds = ["event", "event", "nak", "poll"] \
        if APP_FAM[spec["kind"]] == "t2t" else ["event"] * 4 + ["nak"]
    which = draw(st.sampled_from(kinds))
    if which == "event":
        # only Type 2 tag code selects the tag again, elsewhere polls and
        # refusals are rare: mostly absolute positions there
        trigger = st.tuples(st.just("event"), st.one_of(
            st.integers(0, 6), st.integers(0, 12), st.integers(0, 40)))
    elif which == "nak":
        trigger = st.tuples(
            st.just("nak"), st.sampled_from([0, 0, 0, 1, 1, 2, 3]),
            st.sampled_from([0, 0, 0, 1, 2]))
    else:
        trigger = st.tuples(st.just("poll"), st.sampled_from([0, 0, 1, 2]),
                            st.sampled_from([0, 0, 1]))
    plan = None
    if draw(st.integers(0, 6)) < 6:         # about one in seven without
        plan = draw(st.fixed_dictionaries({
            "trigger": trigger,
            "mode": st.sampled_from(["leave"] * 3 + [
                "timeout", "transmission", "protocol"]),
            "span": st.sampled_from([0, 0, 0, 1, 1, 2, 3, 6]),
            "phase": st.sampled_from(["cmd", "rsp"])}))
    return {"tag": spec, "rdwr": rdwr, "prog": prog, "plan": plan,
            # events after the program until the tag is taken away for good
            "linger": draw(st.sampled_from([0, 1, 2, 5, 9, None])),
            "terminate_at": [draw(st.integers(2, 16)),
                             draw(st.integers(1, 8))],
            "again": draw(st.sampled_from([False, False, True]))
            or not rdwr["connect"]}


LEGS = [
    Leg("tagtypes", run=run_connect, enum=enum_tagtypes, exhaustive=True,
        rule="Type 1, Type 2, Type 3, Type 4A (SEL_RES 20h) and Type 4A + "
             "NFC-DEP (SEL_RES 60h) tags in a stable field: (a) with the llcp "
             "option (role unset / initiator / target) and rdwr absent or "
             "declining - a tag is not a peer, connect() polls until "
             "terminate; (b) rdwr with on-discover true / "
             "default / false x on-connect true / false x 3 target lists x "
             "2 terminate points: the callback contract, and a tag the "
             "application accepted must be activated and reach on-connect; "
             "non-trivial = a tag was discovered."),
    Leg("connect", run=run_connect, gen=lambda tier: case_strategy(),
        quick=2400, thorough=30000, shards_quick=8, shards_thorough=16,
        nt_floor=0.2,
        rule="generated rdwr/llcp/card option dictionaries (callback return "
             "values incl. wrong types) x environment (tag, peer stack, "
             "remote reader, device fault) x terminate() true at its m-th "
             "call; non-trivial = >= 2 option groups survive start-up, a "
             "callback returned a false value, or terminate fired after an "
             "activation."),
    Leg("llcp-apps", run=run_connect, gen=lambda tier: llcp_apps_case(),
        quick=400, thorough=8000, shards_quick=4, shards_thorough=16,
        nt_floor=0.2,
        rule="connect(llcp=...) against a peer device; the on-connect "
             "callback returns True and starts application threads on the "
             "link (a client connecting to the peer's service by name, a "
             "server accepting, or both; the peer runs the counterparts), "
             "each left waiting in recv() on its data link connection; the "
             "link ends by terminate() (at the 1st..80th call), by the peer "
             "leaving after 0.3-10 s or by a device fault.  Same judge as "
             "leg connect (connect() returns, on-release once, return "
             "value).  Non-trivial = at least one of the application's data "
             "link connections was established when the link ended."),
    Leg("rounds", run=run_rounds, gen=lambda tier: rounds_case(), quick=240,
        thorough=6000, shards_quick=5, shards_thorough=16, nt_floor=0.2,
        rule="one connect() call over a scripted field in virtual time: 2-5 "
             "episodes (pause 0-2.6 s, then for 0.4-2.4 s a peer device = "
             "second nfcpy stack as NFC-DEP initiator or target, a Type 2 or "
             "Type 3 tag, a remote reader sending 0-3 commands, or nobody), "
             "rdwr / llcp / card options in 9 combinations with on-release "
             "mostly returning a false value (False, None, 0, '') so that "
             "connect() goes back to discovery, on-connect true values / "
             "default / False, roles, target lists; terminate() turns true "
             "in the middle of a generated episode or 0.1-4 s after the last "
             "one.  Checked with the oracle of the connect leg plus: every "
             "on-discover / on-connect follows a discovery that the driver "
             "really completed since the previous one (tag answered, card "
             "activation, NFC-DEP ATR exchange or listen), connect() raises "
             "nothing and returns within 40 s of virtual time.  non-trivial "
             "= an on-release returned a false value and connect() polled "
             "again, or >= 2 activations happened in the one call."),
    Leg("tagapp_enum", run=run_tagapp, enum=enum_tagapp, exhaustive=True,
        shards_quick=12, shards_thorough=16,
        rule="an application that uses the tag while connect() holds it: 9 "
             "fixed tags (Type 2 generic small / with less memory than "
             "declared / with NXP UID, Type 1 static, Topaz, Type 1 dynamic, "
             "Type 3, Type 4A, Type 4A + NFC-DEP) x every operation of the "
             "family (ndef read, has_changed, ndef write, empty write, "
             "dump(), is_present, format, format with wipe, raw read / write "
             "inside and behind the memory, polling, RALL, RID) run as a "
             "one-step program inside on-connect x EVERY command / poll "
             "position of that program and the first two of the presence "
             "loop x {tag leaves for good, tag is out of the field for one "
             "event, one timeout with the response lost} (thorough: also "
             "transmission / protocol errors, 3-event absence, two-step "
             "programs); every fifth case the on-connect callback declines "
             "and the program runs after connect() returned the tag, "
             "followed by a second connect() on the same frontend.  Oracle "
             "of the connect leg on every connect() call: callback order, "
             "on-release exactly once per true on-connect with the same "
             "object, documented return value, connect() raises nothing, "
             "prompt end after terminate().  Exceptions of the tag "
             "operations are caught by the program (TagCommandError = "
             "documented; anything else is only recorded, that is C16's "
             "subject).  non-trivial = on-connect got the tag, the program "
             "ran and the planned absence / error was reached."),
    Leg("tagapp", run=run_tagapp, gen=lambda tier: tagapp_case(), quick=640,
        thorough=12000, shards_quick=8, shards_thorough=16, nt_floor=0.2,
        rule="generated tags of every type the C18 scenes support (Type 2 "
             "with 64-190 byte memory, optionally shorter than declared or "
             "with an NXP UID; Type 1 static / Topaz / dynamic; Type 3 with "
             "3-9 blocks; Type 4A / 4A + NFC-DEP with 50-130 byte file) x "
             "rdwr options (on-connect true values / false values, "
             "on-release true / other / false values / default, on-discover, "
             "target lists, iterations, beep) x a program of 1-5 tag "
             "operations (as in tagapp_enum) run inside on-connect, or after "
             "connect() returned the tag when on-connect declined (then "
             "followed by the application's own presence checks and a second "
             "connect() on the same frontend) x field plan: none, or "
             "starting at an absolute event, 0-2 events after the k-th "
             "refused command (NAK / error status / no answer), or 0-1 "
             "events after the k-th re-selection poll: the tag is out of the "
             "field or the driver reports timeout / transmission / protocol "
             "errors (command or response lost) for 1-6 events or from then "
             "on; afterwards the tag stays 0-9 more events or until "
             "terminate() (true at its 2nd-16th call).  Oracle as in "
             "tagapp_enum.  non-trivial = on-connect got the tag, the "
             "program ran and the planned absence / error or the final "
             "removal was reached."),
    Leg("sense", run=run_sense, gen=lambda tier: sense_case(), quick=1500,
        thorough=40000, shards_quick=3, shards_thorough=16, nt_floor=0.2,
        rule="1-5 targets out of supported / unsupported bit rates / invalid "
             "attributes x tags present x iterations x follow-up; non-trivial "
             "= several targets including an unsupported or invalid one."),
]

# the same searches with every nfc logger enabled down to the lowest level
# (code that only runs, or only evaluates its arguments, when logging is on)
_byl = dict((lg.name, lg) for lg in LEGS)
LEGS += [twin_env(_byl[n], "log", {"VERIF_LOG": "debug"}, quick=q, thorough=t,
                  shards_quick=2)
         for n, q, t in [('connect', 300, 3000)] if n in _byl]
