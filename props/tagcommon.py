"""Shared generators and tag construction for the tag properties
(C01, C02, C03, C08, C16).  A *tag description* is a JSON-able dict; see
vlib/ref_tlv.py (t1t/t2t layouts) and the strategies below (t3t, t3e, t4t)."""
import struct

from hypothesis import strategies as st

import nfc.clf
import nfc.tag
import nfc.tag.tt3

from vlib import isodep_card, ref_tlv, simtags, tagdev

# ------------------------------------------------------------------ messages


def message(n, seed):
    """deterministic message content of length n (never all-zero, varied)"""
    return bytes(((seed * 131 + i * 7 + (i >> 8) * 13 + 1) & 0xFF)
                 for i in range(n))


def resolve_len(spec, cap):
    """length spec -> concrete length: ["cap", d] | ["abs", n] | ["pm", k]"""
    kind, v = spec
    if kind == "mlc":                     # only meaningful for Type 4 (C02)
        return max(0, min(255 + v, cap))
    if kind == "cap":
        return max(0, cap + v)
    if kind == "pm":                      # per mille of capacity
        return cap * v // 1000
    return max(0, min(v, cap + 1))


def len_spec(allow_over=True):
    over = [["cap", 1]] if allow_over else []
    return st.one_of(
        st.sampled_from([["abs", 0], ["abs", 1], ["abs", 253], ["abs", 254],
                         ["abs", 255], ["abs", 256], ["cap", -1], ["cap", 0],
                         ["cap", -2], ["cap", -3]] + over),
        st.tuples(st.just("pm"), st.integers(0, 1000)),
        st.tuples(st.just("abs"), st.integers(0, 40)),
        st.tuples(st.just("abs"), st.integers(0, 2100)))


# ---------------------------------------------------------- T1T / T2T layouts
def ctrl_tlv():
    bpp = st.sampled_from([2, 3, 3, 4, 4, 4, 5, 6, 7, 8])
    small = st.one_of(st.integers(1, 12), st.integers(0, 255))
    lock = st.fixed_dictionaries({
        "t": st.just(1), "page": st.integers(0, 15), "offs": st.integers(0, 15),
        "size": st.one_of(st.integers(1, 64), st.integers(0, 255)),
        "bpp": bpp})
    mem = st.fixed_dictionaries({
        "t": st.just(2), "page": st.integers(0, 15), "offs": st.integers(0, 15),
        "size": small, "bpp": bpp})
    return st.one_of(lock, mem, mem, st.just({"t": 0}),
                     st.fixed_dictionaries({"t": st.just(0xFD),
                                            "len": st.integers(0, 6)}))


def t2t_desc():
    size = st.one_of(st.integers(1, 16), st.integers(6, 64),
                     st.sampled_from([6, 12, 18, 31, 32, 110, 125, 126, 127,
                                      128, 130, 200, 255]))
    return st.fixed_dictionaries({
        "kind": st.just("t2t"), "size": size,
        "extra": st.sampled_from([0, 0, 4, 8, 16, 20, 40]),
        "ctrl": st.lists(ctrl_tlv(), max_size=4),
        "nulls": st.sampled_from([0, 0, 0, 1, 2, 3, 5]),
        "filler": st.sampled_from([0x00, 0x00, 0xFF, 0x5A, 0xFE, 0x03])})


def t2t_room():
    """layouts whose usable room from the NDEF TLV to the end of the data
    area is right at the 1-byte / 3-byte length format switch (250..262)"""
    def mk(t):
        room, filler, extra = t
        size = (room + 7) // 8
        return {"kind": "t2t", "size": size, "extra": extra, "ctrl": [],
                "nulls": size * 8 - room, "filler": filler}
    return st.tuples(st.integers(250, 262), st.sampled_from([0, 0xFF, 0x5A]),
                     st.sampled_from([0, 0, 16])).map(mk)


def t1t_room():
    def mk(t):
        room, filler = t
        # dynamic memory: bytes 12.. minus the reserved block 104..127
        total = room + 12 + 24
        blocks = (total + 7) // 8
        return {"kind": "t1t", "size": blocks - 1, "extra": 0, "hr1": 0,
                "ctrl": [], "nulls": blocks * 8 - total, "filler": filler}
    return st.tuples(st.integers(250, 262),
                     st.sampled_from([0, 0xFF, 0x5A])).map(mk)


def t1t_desc():
    size = st.one_of(st.just(14), st.just(14), st.integers(15, 63),
                     st.sampled_from([15, 16, 31, 63, 64, 127, 255]))
    return st.fixed_dictionaries({
        "kind": st.just("t1t"), "size": size, "extra": st.just(0),
        "hr1": st.sampled_from([0x00, 0x48, 0x4C, 0x77]),
        "ctrl": st.lists(ctrl_tlv(), max_size=4),
        "nulls": st.sampled_from([0, 0, 0, 1, 2, 3]),
        "filler": st.sampled_from([0x00, 0x00, 0xFF, 0x5A, 0xFE, 0x03])})


# ------------------------------------------------------------------- T3T
def t3t_desc(kind="t3t"):
    def fix(d):
        if d["nmaxb"] > 255:
            d["nbw"] = min(d["nbw"], 12)   # 13 x (3+16) does not fit a frame
        return d
    return st.fixed_dictionaries({
        "kind": st.just(kind), "ver": st.sampled_from([0x10, 0x10, 0x11]),
        "nbr": st.integers(1, 15), "nbw": st.integers(1, 13),
        "nmaxb": st.one_of(st.integers(1, 20), st.integers(1, 600),
                           st.sampled_from([1, 13, 254, 255, 256, 257])),
        "phys_extra": st.integers(0, 3), "nbr_extra": st.integers(0, 2),
        "nbw_extra": st.integers(0, 2),
        "filler": st.sampled_from([0x00, 0xFF, 0xA5])}).map(fix)


# ------------------------------------------------------------------- T4T
def t4t_desc():
    def fix(d):
        if d["ver"] != 0x30:
            d["fsize"] = min(d["fsize"], 0xFFFE)
        return d
    return st.fixed_dictionaries({
        "kind": st.just("t4t"), "tech": st.sampled_from(["A", "B"]),
        "ver": st.sampled_from([0x10, 0x20, 0x20, 0x30]),
        "mle": st.one_of(st.sampled_from([15, 16, 59, 128, 253, 255, 256, 257,
                                          300, 1000, 65535]),
                         st.integers(15, 300)),
        "mlc": st.one_of(st.sampled_from([1, 2, 13, 52, 128, 253, 255, 256,
                                          300, 1000, 65535]),
                         st.integers(1, 300)),
        "fsize": st.one_of(st.integers(5, 300), st.integers(5, 4000),
                           st.sampled_from([5, 6, 7, 1024, 32768, 65534,
                                            65535, 65536, 70000])),
        "phys_extra": st.sampled_from([0, 8, 32]),
        "fsci": st.integers(0, 8), "fwi": st.integers(0, 14),
        "chunk": st.one_of(st.none(), st.integers(1, 253)),
        "wtx": st.sampled_from([0, 0, 0, 1, 2]),
        "max_send": st.sampled_from([290, 290, 256, 64, 40]),
        "max_recv": st.sampled_from([290, 290, 256, 255, 64]),
        "filler": st.sampled_from([0x00, 0xFF])}).map(fix)


# ------------------------------------------------------------- construction
class EmuTag(simtags.TagSim):
    """the library's own Type3TagEmulation as the tag (service callbacks as
    in examples/tagtool.py: block read/write over a bytearray)"""
    tech = "F"
    brty = "212F"

    def __init__(self, data):
        simtags.TagSim.__init__(self)
        self.data = bytearray(data)
        self.idm = bytes.fromhex("02FE0A0B0C0D0E0F")
        self.pmm = bytes.fromhex("0177FFFFFFFFFFFF")
        self.sys = b"\x12\xFC"
        self.exc = None
        t = nfc.clf.LocalTarget("212F")
        t.sensf_res = bytearray(b"\x01" + self.idm + self.pmm + self.sys)
        t.tt3_cmd = bytearray(b"\x00\xFF\xFF\x01\x00")
        self.emu = nfc.tag.tt3.Type3TagEmulation(None, t)

        def ndef_read(block_number, rb, re):
            if block_number < len(self.data) / 16:
                self.served.update(range(block_number * 16,
                                         block_number * 16 + 16))
                return self.data[block_number * 16:(block_number + 1) * 16]

        def ndef_write(block_number, block_data, wb, we):
            if block_number < len(self.data) / 16:
                self.data[block_number * 16:(block_number + 1) * 16] = \
                    block_data
                self.wlog.append((self.ncmd, block_number * 16, 16))
                return True
        self._nw = ndef_write
        self.emu.add_service(0x0009, ndef_read, self._guarded_write)
        self.emu.add_service(0x000B, ndef_read, lambda *a: False)
        self._in_write = False

    def _guarded_write(self, block_number, block_data, wb, we):
        return self._nw(block_number, block_data, wb, we)

    @property
    def mem(self):
        return self.data

    @property
    def blocks(self):
        return [self.data[i:i + 16] for i in range(0, len(self.data), 16)]

    def target(self, poll):
        req = bytes(poll.sensf_req) if poll.sensf_req else \
            b"\x00\xff\xff\x01\x00"
        res = b"\x01" + self.idm + self.pmm
        if req[3] == 1:
            res += self.sys
        return nfc.clf.RemoteTarget(poll.brty, sensf_res=bytearray(res))

    def command(self, cmd, timeout=None):
        self.ncmd += 1
        iswrite = len(cmd) > 1 and cmd[1] == 0x08
        if iswrite and self._cut():
            return None
        try:
            rsp = self.emu.process_command(bytearray(cmd))
        except Exception as e:          # reported by the leg afterwards
            self.exc = e
            return None
        if iswrite and rsp is not None and bytes(rsp[10:12]) == b"\x00\x00":
            self._wrote()
        return None if rsp is None else bytes(rsp)


class Built(object):
    """a simulated tag plus what the independent model knows about it"""
    pass


def build(desc, old_spec=("abs", 0), old_seed=1):
    """tag description -> Built (or None when the layout has no room for an
    NDEF TLV).  Built: tag, kind, cap (true capacity), old (bytes),
    allowed (set of addresses an NDEF write may change, in tag.mem space),
    dev_kw (TagDevice kwargs), ref_read() -> bytes|None"""
    b = Built()
    b.desc = desc
    kind = b.kind = desc["kind"]
    b.dev_kw = {}
    if kind in ("t1t", "t2t"):
        probe = ref_tlv.build(desc)
        if probe is None:
            return None
        cap = ref_tlv.true_capacity(probe[1])
        old = message(resolve_len(old_spec, cap), old_seed)
        old = old[:cap]
        mem, info = ref_tlv.build(desc, old, desc.get("filler", 0))
        b.info, b.cap, b.old = info, cap, old
        if kind == "t2t":
            b.tag = simtags.T2Tag(mem)
        else:
            hr0 = 0x11 if desc["size"] == 14 else 0x12
            b.tag = simtags.T1Tag(mem, hr=bytes([hr0, desc.get("hr1", 0)]))
        b.allowed = ref_tlv.allowed(info)
        b.unit = 4 if kind == "t2t" else (1 if desc["size"] == 14 else 8)

        def ref_read():
            r = ref_tlv.ref_read(b.tag.mem, kind)
            return r[1] if r[0] == "ndef" else None
        b.ref_read = ref_read
        return b
    if kind in ("t3t", "t3e"):
        cap = desc["nmaxb"] * 16
        old = message(resolve_len(old_spec, cap), old_seed)[:cap]
        blocks = simtags.t3_image(desc["ver"], desc["nbr"], desc["nbw"],
                                  desc["nmaxb"], len(old), old,
                                  desc["nmaxb"] + desc.get("phys_extra", 0),
                                  filler=desc.get("filler", 0))
        if kind == "t3t":
            b.tag = simtags.T3Tag(
                blocks, nbr_phys=min(15, desc["nbr"] + desc.get("nbr_extra", 0)),
                nbw_phys=min(13, desc["nbw"] + desc.get("nbw_extra", 0)))
        else:
            b.tag = EmuTag(b"".join(bytes(x) for x in blocks))
        b.cap, b.old = cap, old
        b.allowed = set(range(0, (desc["nmaxb"] + 1) * 16))
        b.unit = 16
        b.ref_read = lambda: simtags.t3_ref_read(b.tag.blocks)
        return b
    if kind == "t4t":
        nl = 4 if desc["ver"] >> 4 == 3 else 2
        cap = desc["fsize"] - nl
        old = message(resolve_len(old_spec, cap), old_seed)[:cap]
        app = isodep_card.T4App(desc["ver"], desc["mle"], desc["mlc"],
                                desc["fsize"],
                                desc["fsize"] + desc.get("phys_extra", 0),
                                old, filler=desc.get("filler", 0))
        b.tag = isodep_card.T4Tag(app, desc["tech"], desc["fsci"],
                                  desc["fwi"], desc.get("chunk"),
                                  desc.get("wtx", 0))
        b.app = app
        b.cap, b.old = cap, old
        b.allowed = set(range(0, desc["fsize"]))
        b.unit = 1
        b.dev_kw = {"max_send": desc.get("max_send", 290),
                    "max_recv": desc.get("max_recv", 290)}

        def ref_read():
            f = app.ndef_file
            n = struct.unpack(">I" if nl == 4 else ">H", bytes(f[0:nl]))[0]
            if n > desc["fsize"] - nl:
                return None
            return bytes(f[nl:nl + n])
        b.ref_read = ref_read
        return b
    raise ValueError(kind)


def activate(b, **kw):
    """fresh frontend and fresh activation of the built tag"""
    b.tag.reset()
    dev_kw = dict(b.dev_kw)
    dev_kw.update(kw)
    return tagdev.activate(b.tag, **dev_kw)


def classify(desc):
    k = desc["kind"]
    if k == "t4t":
        return "t4t%s/v%x" % (desc["tech"].lower(), desc["ver"] >> 4)
    if k == "t1t":
        return "t1t/" + ("static" if desc["size"] == 14 else "dynamic")
    return k
