"""Shared generators and tag construction for the tag properties
(C01, C02, C03, C08, C16).  A *tag description* is a JSON-able dict; see
vlib/ref_tlv.py (t1t/t2t layouts) and the strategies below (t3t, t3e, t4t)."""
import contextlib
import io
import struct

from hypothesis import strategies as st

import nfc.clf
import nfc.tag
import nfc.tag.tt3

from vlib import isodep_card, ref_tlv, simtags, tagdev
from vlib.engine import Violation, unexpected

# ------------------------------------------------------------------ messages


def message(n, seed):
    """deterministic message content of length n (never all-zero, varied)"""
    return bytes(((seed * 131 + i * 7 + (i >> 8) * 13 + 1) & 0xFF)
                 for i in range(n))


def resolve_len(spec, cap):
    """length spec -> concrete length: ["cap", d] | ["abs", n] | ["pm", k]"""
    kind, v = spec
    if kind == "mlc":                     # only meaningful for Type 4 (C02)
        return max(0, min(255 + v, cap))
    if kind == "cap":
        return max(0, cap + v)
    if kind == "pm":                      # per mille of capacity
        return cap * v // 1000
    return max(0, min(v, cap + 1))


def len_spec(allow_over=True):
    over = [["cap", 1]] if allow_over else []
    return st.one_of(
        st.sampled_from([["abs", 0], ["abs", 1], ["abs", 253], ["abs", 254],
                         ["abs", 255], ["abs", 256], ["cap", -1], ["cap", 0],
                         ["cap", -2], ["cap", -3]] + over),
        st.tuples(st.just("pm"), st.integers(0, 1000)),
        st.tuples(st.just("abs"), st.integers(0, 40)),
        st.tuples(st.just("abs"), st.integers(0, 2100)))


# ---------------------------------------------------------- T1T / T2T layouts
def ctrl_tlv():
    bpp = st.sampled_from([2, 3, 3, 4, 4, 4, 5, 6, 7, 8])
    small = st.one_of(st.integers(1, 12), st.integers(0, 255),
                      st.sampled_from([0, 255]))   # 0 stands for 256 bytes
    lock = st.fixed_dictionaries({
        "t": st.just(1), "page": st.integers(0, 15), "offs": st.integers(0, 15),
        # 0 stands for 256 lock bits (32 lock bytes)
        "size": st.one_of(st.integers(1, 64), st.integers(0, 255),
                          st.sampled_from([0, 0, 255, 248])),
        "bpp": bpp})
    mem = st.fixed_dictionaries({
        "t": st.just(2), "page": st.integers(0, 15), "offs": st.integers(0, 15),
        "size": small, "bpp": bpp})
    return st.one_of(lock, mem, mem, st.just({"t": 0}),
                     st.fixed_dictionaries({"t": st.just(0xFD),
                                            "len": st.integers(0, 6)}))


def _tlv_len(c):
    return 5 if c["t"] in (1, 2) else 1 if c["t"] == 0 else 2 + c["len"]


def _adjacent(t):
    """put a control TLV in front whose range begins right behind the NDEF
    TLV's header: on the first value byte of a message with a one byte (+2)
    or three byte (+4) length field, on the length field itself (+1), or a
    byte or two further on"""
    d, (sel, delta, n, kind) = t
    if sel or d["size"] * 8 < 48:
        return d
    start = 16 if d["kind"] == "t2t" else 12
    tlv = start + 5 + sum(_tlv_len(c) for c in d["ctrl"]) + d["nulls"]
    addr = tlv + delta
    if addr >= start + d["size"] * 8 - 2 or addr > 255 + 15:
        return d
    bpp = 4
    c = {"t": kind, "page": addr >> bpp, "offs": addr & 15, "bpp": bpp,
         "size": n * 8 if kind == 1 else n}
    return dict(d, ctrl=[c] + list(d["ctrl"]))


_ADJ = st.tuples(st.integers(0, 4), st.sampled_from([2, 2, 4, 4, 3, 5, 6]),
                 st.integers(1, 9), st.sampled_from([2, 2, 1]))


def t2t_desc():
    return st.tuples(_t2t_desc(), _ADJ).map(_adjacent)


def _t2t_desc():
    size = st.one_of(st.integers(1, 16), st.integers(6, 64),
                     st.sampled_from([6, 12, 18, 31, 32, 110, 125, 126, 127,
                                      128, 130, 200, 255]))
    return st.fixed_dictionaries({
        "kind": st.just("t2t"), "size": size,
        "extra": st.sampled_from([0, 0, 4, 8, 16, 20, 40]),
        "ctrl": st.lists(ctrl_tlv(), max_size=4),
        "nulls": st.sampled_from([0, 0, 0, 1, 2, 3, 5]),
        "filler": st.sampled_from([0x00, 0x00, 0xFF, 0x5A, 0xFE, 0x03])})


def t2t_room():
    """layouts whose usable room from the NDEF TLV to the end of the data
    area is right at the 1-byte / 3-byte length format switch (250..262)"""
    def mk(t):
        room, filler, extra = t
        size = (room + 7) // 8
        return {"kind": "t2t", "size": size, "extra": extra, "ctrl": [],
                "nulls": size * 8 - room, "filler": filler}
    return st.tuples(st.integers(250, 262), st.sampled_from([0, 0xFF, 0x5A]),
                     st.sampled_from([0, 0, 16])).map(mk)


def t1t_room():
    def mk(t):
        room, filler = t
        # dynamic memory: bytes 12.. minus the reserved block 104..127
        total = room + 12 + 24
        blocks = (total + 7) // 8
        return {"kind": "t1t", "size": blocks - 1, "extra": 0, "hr1": 0,
                "ctrl": [], "nulls": blocks * 8 - total, "filler": filler}
    return st.tuples(st.integers(250, 262),
                     st.sampled_from([0, 0xFF, 0x5A])).map(mk)


def t1t_desc():
    return st.tuples(_t1t_desc(), _ADJ).map(_adjacent)


def _t1t_desc():
    size = st.one_of(st.just(14), st.just(14), st.integers(15, 63),
                     st.sampled_from([15, 16, 31, 63, 64, 127, 255]))
    return st.fixed_dictionaries({
        "kind": st.just("t1t"), "size": size, "extra": st.just(0),
        "hr1": st.sampled_from([0x00, 0x48, 0x4C, 0x77]),
        "ctrl": st.lists(ctrl_tlv(), max_size=4),
        "nulls": st.sampled_from([0, 0, 0, 1, 2, 3]),
        "filler": st.sampled_from([0x00, 0x00, 0xFF, 0x5A, 0xFE, 0x03])})


# ------------------------------------------------------------------- T3T
def t3t_desc(kind="t3t"):
    def fix(d):
        if d["nmaxb"] > 255:
            d["nbw"] = min(d["nbw"], 12)   # 13 x (3+16) does not fit a frame
        return d
    return st.fixed_dictionaries({
        "kind": st.just(kind), "ver": st.sampled_from([0x10, 0x10, 0x11]),
        "nbr": st.integers(1, 15), "nbw": st.integers(1, 13),
        "nmaxb": st.one_of(st.integers(1, 20), st.integers(1, 600),
                           st.sampled_from([1, 13, 254, 255, 256, 257])),
        "phys_extra": st.integers(0, 3), "nbr_extra": st.integers(0, 2),
        "nbw_extra": st.integers(0, 2),
        "filler": st.sampled_from([0x00, 0xFF, 0xA5])}).map(fix)


# ------------------------------------------------------------------- T4T
def t4t_desc():
    def fix(d):
        if d["ver"] != 0x30:
            d["fsize"] = min(d["fsize"], 0xFFFE)
        return d
    return st.fixed_dictionaries({
        "kind": st.just("t4t"), "tech": st.sampled_from(["A", "B"]),
        "ver": st.sampled_from([0x10, 0x20, 0x20, 0x30]),
        "mle": st.one_of(st.sampled_from([15, 16, 59, 128, 253, 255, 256, 257,
                                          300, 1000, 65535]),
                         st.integers(15, 300)),
        "mlc": st.one_of(st.sampled_from([1, 2, 13, 52, 128, 253, 255, 256,
                                          300, 1000, 65535]),
                         st.integers(1, 300)),
        "fsize": st.one_of(st.integers(5, 300), st.integers(5, 4000),
                           st.sampled_from([5, 6, 7, 1024, 32768, 65534,
                                            65535, 65536, 70000])),
        "phys_extra": st.sampled_from([0, 8, 32]),
        "fsci": st.integers(0, 8), "fwi": st.integers(0, 14),
        "chunk": st.one_of(st.none(), st.integers(1, 253)),
        "wtx": st.sampled_from([0, 0, 0, 1, 2]),
        # INF byte of the card's S(WTX): WTXM + power level indication
        "wtxm": st.sampled_from([1, 1, 2, 0x41, 0x82, 0xC1]),
        "max_send": st.sampled_from([290, 290, 256, 64, 40]),
        "max_recv": st.sampled_from([290, 290, 256, 255, 64]),
        "filler": st.sampled_from([0x00, 0xFF])}).map(fix)


# ------------------------------------------------------------- construction
class EmuTag(simtags.TagSim):
    """the library's own Type3TagEmulation as the tag (service callbacks as
    in examples/tagtool.py: block read/write over a bytearray)"""
    tech = "F"
    brty = "212F"

    def __init__(self, data):
        simtags.TagSim.__init__(self)
        self.data = bytearray(data)
        self.idm = bytes.fromhex("02FE0A0B0C0D0E0F")
        self.pmm = bytes.fromhex("0177FFFFFFFFFFFF")
        self.sys = b"\x12\xFC"
        self.exc = None
        t = nfc.clf.LocalTarget("212F")
        t.sensf_res = bytearray(b"\x01" + self.idm + self.pmm + self.sys)
        t.tt3_cmd = bytearray(b"\x00\xFF\xFF\x01\x00")
        self.emu = nfc.tag.tt3.Type3TagEmulation(None, t)

        def ndef_read(block_number, rb, re):
            if block_number < len(self.data) / 16:
                self.served.update(range(block_number * 16,
                                         block_number * 16 + 16))
                return self.data[block_number * 16:(block_number + 1) * 16]

        def ndef_write(block_number, block_data, wb, we):
            if block_number < len(self.data) / 16:
                self.data[block_number * 16:(block_number + 1) * 16] = \
                    block_data
                self.wlog.append((self.ncmd, block_number * 16, 16))
                return True
        self._nw = ndef_write
        self.emu.add_service(0x0009, ndef_read, self._guarded_write)
        self.emu.add_service(0x000B, ndef_read, lambda *a: False)
        self._in_write = False

    def _guarded_write(self, block_number, block_data, wb, we):
        return self._nw(block_number, block_data, wb, we)

    @property
    def mem(self):
        return self.data

    @property
    def blocks(self):
        return [self.data[i:i + 16] for i in range(0, len(self.data), 16)]

    def target(self, poll):
        req = bytes(poll.sensf_req) if poll.sensf_req else \
            b"\x00\xff\xff\x01\x00"
        res = b"\x01" + self.idm + self.pmm
        if req[3] == 1:
            res += self.sys
        return nfc.clf.RemoteTarget(poll.brty, sensf_res=bytearray(res))

    def command(self, cmd, timeout=None):
        self.ncmd += 1
        iswrite = len(cmd) > 1 and cmd[1] == 0x08
        if iswrite and self._cut():
            return None
        try:
            rsp = self.emu.process_command(bytearray(cmd))
        except Exception as e:          # reported by the leg afterwards
            self.exc = e
            return None
        if iswrite and rsp is not None and bytes(rsp[10:12]) == b"\x00\x00":
            self._wrote()
        return None if rsp is None else bytes(rsp)


class Built(object):
    """a simulated tag plus what the independent model knows about it"""
    pass


def build(desc, old_spec=("abs", 0), old_seed=1):
    """tag description -> Built (or None when the layout has no room for an
    NDEF TLV).  Built: tag, kind, cap (true capacity), old (bytes),
    allowed (set of addresses an NDEF write may change, in tag.mem space),
    dev_kw (TagDevice kwargs), ref_read() -> bytes|None"""
    b = Built()
    b.desc = desc
    kind = b.kind = desc["kind"]
    b.dev_kw = {}
    if kind in ("t1t", "t2t"):
        probe = ref_tlv.build(desc)
        if probe is None:
            return None
        cap = ref_tlv.true_capacity(probe[1])
        old = message(resolve_len(old_spec, cap), old_seed)
        old = old[:cap]
        mem, info = ref_tlv.build(desc, old, desc.get("filler", 0))
        b.info, b.cap, b.old = info, cap, old
        if kind == "t2t":
            b.tag = simtags.T2Tag(mem)
        else:
            hr0 = 0x11 if desc["size"] == 14 else 0x12
            b.tag = simtags.T1Tag(mem, hr=bytes([hr0, desc.get("hr1", 0)]))
        b.allowed = ref_tlv.allowed(info)
        b.unit = 4 if kind == "t2t" else (1 if desc["size"] == 14 else 8)

        def ref_read():
            r = ref_tlv.ref_read(b.tag.mem, kind)
            return r[1] if r[0] == "ndef" else None
        b.ref_read = ref_read
        return b
    if kind in ("t3t", "t3e"):
        cap = desc["nmaxb"] * 16
        old = message(resolve_len(old_spec, cap), old_seed)[:cap]
        blocks = simtags.t3_image(desc["ver"], desc["nbr"], desc["nbw"],
                                  desc["nmaxb"], len(old), old,
                                  desc["nmaxb"] + desc.get("phys_extra", 0),
                                  filler=desc.get("filler", 0))
        if kind == "t3t":
            b.tag = simtags.T3Tag(
                blocks, nbr_phys=min(15, desc["nbr"] + desc.get("nbr_extra", 0)),
                nbw_phys=min(13, desc["nbw"] + desc.get("nbw_extra", 0)))
        else:
            b.tag = EmuTag(b"".join(bytes(x) for x in blocks))
        b.cap, b.old = cap, old
        b.allowed = set(range(0, (desc["nmaxb"] + 1) * 16))
        b.unit = 16
        b.ref_read = lambda: simtags.t3_ref_read(b.tag.blocks)
        return b
    if kind == "t4t":
        nl = 4 if desc["ver"] >> 4 == 3 else 2
        cap = desc["fsize"] - nl
        old = message(resolve_len(old_spec, cap), old_seed)[:cap]
        app = isodep_card.T4App(desc["ver"], desc["mle"], desc["mlc"],
                                desc["fsize"],
                                desc["fsize"] + desc.get("phys_extra", 0),
                                old, filler=desc.get("filler", 0))
        b.tag = isodep_card.T4Tag(app, desc["tech"], desc["fsci"],
                                  desc["fwi"], desc.get("chunk"),
                                  desc.get("wtx", 0),
                                  wtxm=desc.get("wtxm", 1))
        b.app = app
        b.cap, b.old = cap, old
        b.allowed = set(range(0, desc["fsize"]))
        b.unit = 1
        b.dev_kw = {"max_send": desc.get("max_send", 290),
                    "max_recv": desc.get("max_recv", 290)}

        def ref_read():
            f = app.ndef_file
            n = struct.unpack(">I" if nl == 4 else ">H", bytes(f[0:nl]))[0]
            if n > desc["fsize"] - nl:
                return None
            return bytes(f[nl:nl + n])
        b.ref_read = ref_read
        return b
    if kind == "t3s":                  # multi-system FeliCa Standard card
        from props import tagcommon_r4b
        return tagcommon_r4b.build_t3s(b, desc, old_spec, old_seed)
    raise ValueError(kind)


def activate(b, **kw):
    """fresh frontend and fresh activation of the built tag"""
    b.tag.reset()
    dev_kw = dict(b.dev_kw)
    dev_kw.update(kw)
    return tagdev.activate(b.tag, **dev_kw)


def classify(desc):
    k = desc["kind"]
    if k == "t4t":
        return "t4t%s/v%x" % (desc["tech"].lower(), desc["ver"] >> 4)
    if k == "t1t":
        return "t1t/" + ("static" if desc["size"] == 14 else "dynamic")
    return k


# ------------------------------------------------------------------ histories
# Several operations on ONE tag object (C01 / C03 `history` legs).  An
# operation is a JSON-able dict:
#   {"op": "read"}                      tag.ndef (octets when present)
#   {"op": "changed"}                   tag.ndef.has_changed
#   {"op": "write", "len": spec, "seed": n, "again": bool}
#                                       tag.ndef.octets = message; with
#                                       "again" the octets of the last
#                                       attempted assignment (when there is
#                                       one and it fits) instead of len/seed
#   {"op": "format", "version": v, "wipe": w}   tag.format(...)
# each with an optional "fault": [k, kind, burst, phase]: starting with the
# k-th exchange of this operation ``burst`` exchanges (0 = all until the
# operation ends) fail with ``kind`` before ("cmd") or after ("rsp") the tag
# executed the command.  The fault is gone when the operation is over.  k is
# taken modulo the number of exchanges the same operation needs in a
# fault-free rehearsal of the history (see rehearse), so the fault always
# lands inside the operation (exactly, up to the first fault of a history).
# "refuse": not a link fault - the tag answers the command with its refusal
# (Type 2: NAK, the tag is halted afterwards) and executes nothing; tag types
# whose simulator has no such answer lose the command instead
HIST_KINDS = ("timeout", "transmission", "protocol", "refuse")


def hist_fault(p_none=2):
    pos = st.one_of(st.integers(0, 8), st.integers(0, 40),
                    st.integers(0, 400))
    f = st.tuples(pos, st.sampled_from(HIST_KINDS),
                  st.sampled_from([0, 0, 0, 3, 1, 2]),
                  st.sampled_from(["cmd", "rsp"]))
    # (weights through sampled_from: one_of drops repeated strategies)
    return st.tuples(st.sampled_from([False] * p_none + [True]), f).map(
        lambda t: list(t[1]) if t[0] else None)


def hist_len(allow_over):
    return st.one_of(len_spec(allow_over),
                     st.tuples(st.just("abs"), st.integers(0, 60)),
                     st.tuples(st.just("abs"), st.integers(0, 60)))


def hist_ops(allow_over=True, min_size=2, max_size=7, dump=0):
    """strategy: list of operations for one tag object.  Message seeds come
    from a small set and "again" repeats the last attempted assignment, so
    a later assignment regularly carries octets an earlier one carried."""
    write = st.fixed_dictionaries({
        "op": st.just("write"), "len": hist_len(allow_over),
        "seed": st.integers(0, 3),
        "again": st.booleans(),
        "fault": hist_fault(1)})
    read = st.fixed_dictionaries({"op": st.just("read"),
                                  "fault": hist_fault(5)})
    changed = st.fixed_dictionaries({"op": st.just("changed"),
                                     "fault": hist_fault(5)})
    fmt = st.fixed_dictionaries({
        "op": st.just("format"),
        "version": st.sampled_from([None, None, 0x10, 0x11, 0x12, 0x20]),
        "wipe": st.one_of(st.none(), st.integers(0, 255)),
        "fault": hist_fault(5)})
    # {"op": "dump"}: tag.dump() (``dump`` = weight, the others sum to 9)
    dmp = st.fixed_dictionaries({"op": st.just("dump"),
                                 "fault": hist_fault(2)})
    by_name = {"write": write, "read": read, "changed": changed,
               "format": fmt, "dump": dmp}
    op = st.sampled_from(["write"] * 5 + ["read", "changed", "format",
                                          "format"] + ["dump"] * dump
                         ).flatmap(by_name.get)
    return st.lists(op, min_size=min_size, max_size=max_size)


def t1t_hist():
    """Type 1 layouts for histories: as t1t_desc, but a tag that identifies
    itself as Topaz-512 (HR 12 4C) has the 512 bytes of one, so that what
    format() declares exists physically; NDEF TLV anywhere the layout
    strategy puts it (NULL / control TLVs in front)."""
    def fix(d):
        if d["hr1"] == 0x4C and d["size"] != 14:
            d = dict(d, size=63)
        return d
    return st.one_of(
        t1t_desc().map(fix),
        t1t_desc().map(lambda d: dict(d, size=63, hr1=0x4C)),
        t1t_desc().map(lambda d: dict(d, size=14, hr1=0x48)))


def sector_hist():
    """strategy for histories on Type 2 Tags of more than one sector: a tag
    of t2t_sector_desc, an old message, 2..5 operations that are mostly
    assignments long enough to reach beyond the first sector, faults
    (refusals by the tag among them) late in an operation"""
    ln = st.one_of(st.sampled_from([["cap", 0], ["cap", -1], ["cap", -3],
                                    ["pm", 900], ["pm", 700], ["abs", 1100],
                                    ["abs", 1030], ["abs", 1000]]),
                   st.tuples(st.just("pm"), st.integers(400, 1000)),
                   st.tuples(st.just("abs"), st.integers(0, 60)))
    fault = st.one_of(st.none(), st.tuples(
        st.integers(0, 600), st.sampled_from(HIST_KINDS + ("refuse",)),
        st.sampled_from([1, 1, 2, 3, 0]), st.sampled_from(["cmd", "rsp"])
    ).map(list))
    write = st.fixed_dictionaries({
        "op": st.just("write"), "len": ln, "seed": st.integers(0, 3),
        "again": st.booleans(), "fault": fault})
    other = st.one_of(
        st.fixed_dictionaries({"op": st.just("read"), "fault": fault}),
        st.fixed_dictionaries({"op": st.just("changed"), "fault": fault}),
        st.fixed_dictionaries({"op": st.just("format"),
                               "version": st.none(),
                               "wipe": st.one_of(st.none(),
                                                 st.integers(0, 255)),
                               "fault": fault}))
    return st.fixed_dictionaries({
        "tag": t2t_sector_desc(), "old": ln, "old_seed": st.integers(0, 3),
        "ops": st.lists(st.one_of(write, write, write, other), min_size=2,
                        max_size=5)})


def hist_desc(t2t=4, t1t=3, t3t=1, t3e=1, t4t=2, t3s=0):
    """tag descriptions of all types; the arguments are relative weights"""
    if t3s:
        from props import tagcommon_r4b
    by_kind = {
        "t3s": tagcommon_r4b.t3s_desc() if t3s else None,
        "t2t": t2t_desc(), "t1t": t1t_hist(),
        "t3t": t3t_desc("t3t").map(
            lambda d: dict(d, nmaxb=min(d["nmaxb"], 300))),
        "t3e": t3t_desc("t3e").map(
            lambda d: dict(d, nmaxb=min(d["nmaxb"], 300))),
        "t4t": t4t_desc().map(lambda d: dict(d, fsize=min(d["fsize"], 2000)))}
    return st.sampled_from(["t2t"] * t2t + ["t1t"] * t1t + ["t3t"] * t3t +
                           ["t3e"] * t3e + ["t4t"] * t4t + ["t3s"] * t3s
                           ).flatmap(by_kind.get)


class HistDevice(tagdev.TagDevice):
    """TagDevice with a per-operation fault plan (see above).  The second
    packet of the Type 2 SECTOR SELECT is never faulted: it is acknowledged
    by silence, so the reader cannot tell a lost command from the
    acknowledgement (same exemption as C16)."""

    def __init__(self, tag, **kw):
        tagdev.TagDevice.__init__(self, tag, **kw)
        self.plan = None
        self._prev = None

    def arm(self, fault):
        self.plan = None
        if fault is not None:
            self.plan = {"k": fault[0], "kind": fault[1], "burst": fault[2],
                         "phase": fault[3], "seen": 0, "hits": 0}

    def disarm(self):
        plan, self.plan = self.plan, None
        self.script = {}
        return plan

    def send_cmd_recv_rsp(self, target, data, timeout):
        cmd = None if data is None else bytes(data)
        p = self.plan
        if p is not None:
            ss2 = (self._prev == b"\xC2\xFF" and cmd is not None
                   and len(cmd) == 4)
            j = p["seen"]
            p["seen"] += 1
            if not ss2 and j >= p["k"] and (p["burst"] == 0
                                            or p["hits"] < p["burst"]):
                p["hits"] += 1
                self.script = {self.exchanges + 1: (p["kind"], p["phase"])}
            else:
                self.script = {}
        self._prev = cmd
        return tagdev.TagDevice.send_cmd_recv_rsp(self, target, data, timeout)


def activate_hist(b):
    """like activate(), with a HistDevice as the driver"""
    b.tag.reset()
    clf = nfc.clf.ContactlessFrontend()
    clf.device = HistDevice(b.tag, **b.dev_kw)
    return tagdev.activate(b.tag, clf=clf)


def clone(b):
    """a second simulated tag with the same description and a copy of the
    persistent memory of ``b`` as it is now.  Activating the clone is what a
    fresh activation of the tag would see (volatile state such as the
    selected sector or the ISO-DEP block number does not survive a field
    reset) and leaves the session of the tag object under test alone."""
    c = build(b.desc)
    k = b.kind
    if k in ("t1t", "t2t"):
        c.tag.mem[:] = b.tag.mem
    elif k == "t3t":
        c.tag.blocks = [bytearray(x) for x in b.tag.blocks]
    elif k == "t3e":
        c.tag.data[:] = b.tag.data
    else:
        for fid in b.app.files:
            c.app.files[fid][:] = b.app.files[fid]
    return c


def t3_attr(block0):
    """independent parse of a Type 3 attribute block -> dict or None"""
    a = bytes(block0)
    if len(a) != 16 or sum(a[0:14]) != struct.unpack(">H", a[14:16])[0]:
        return None
    return {"ver": a[0], "nbr": a[1], "nbw": a[2],
            "nmaxb": struct.unpack(">H", a[3:5])[0], "writef": a[9],
            "rwflag": a[10],
            "ln": struct.unpack(">I", b"\x00" + a[11:14])[0]}


def current_area(b, image=None):
    """what the independent model says about the tag memory as it is NOW:
    (allowed, capacity) = set of addresses (tag.mem space) that belong to
    the NDEF message area and the true message capacity; None when the
    image holds no NDEF management data the model can read"""
    image = bytes(b.tag.mem) if image is None else bytes(image)
    k = b.kind
    if k == "t3s":
        from props import tagcommon_r4b
        return tagcommon_r4b.area_t3s(b, image)
    if k in ("t1t", "t2t"):
        lay = ref_tlv.layout(image, k)
        if lay is None:
            return None
        return set(lay["avail"]), ref_tlv.true_capacity(lay), lay
    if k in ("t3t", "t3e"):
        a = t3_attr(image[0:16])
        if a is None or a["ver"] >> 4 != 1:
            return None
        nblocks = min(a["nmaxb"], len(image) // 16 - 1)
        return set(range(0, (nblocks + 1) * 16)), nblocks * 16, a
    nl = 4 if b.desc["ver"] >> 4 == 3 else 2
    return set(range(0, b.desc["fsize"])), b.desc["fsize"] - nl, None


def session_undefined(b, out):
    """Type 4: after an operation that met an injected fault the state of
    the ISO-DEP session is what the known findings C12-no-resync-after-error
    and C12-wtx-fault-not-recovered describe (block numbers are not
    resynchronised after an APDU was given up, the next APDU may get a stale
    response).  The operation itself is still judged, the history ends."""
    return b.kind == "t4t" and out["hits"] > 0


def _quiet(fn, *a, **kw):
    with contextlib.redirect_stdout(io.StringIO()):
        return fn(*a, **kw)


class _NoWatch(object):
    def before(self, i, op, tag):
        pass

    def after(self, i, op, out):
        self.counts.append(out.get("exchanges", 0))


def rehearse(desc, old_spec, old_seed, ops):
    """the history without faults on a tag of its own -> number of
    exchanges of every operation (shorter than ops when the rehearsal ended
    early)"""
    b = build(desc, old_spec, old_seed)
    w = _NoWatch()
    w.counts = []
    play(b, [dict(o, fault=None) for o in ops], w)
    return w.counts


def play(b, ops, watch, counts=()):
    """run ``ops`` on one tag object of the built tag ``b``.

    watch.before(i, op, tag) is called before, watch.after(i, op, out) after
    every operation (return "stop" to end the history).  ``counts`` are the
    exchange counts from rehearse() that fault positions are reduced by.
    ``out``: op, status "returned" | "error" (nfc.tag.TagCommandError, the
    only exception type an operation may raise) | "oversize" (ValueError for
    data longer than the capacity) | "skipped" (tag.ndef is None or not
    writeable), hits (number of injected faults), exchanges, and per
    operation result / data / cap / changed / error."""
    clf, tag = activate_hist(b)
    if tag is None:
        raise Violation("activation-failed", repr(b.desc))
    dev = clf.device
    last = None
    for i, op in enumerate(ops):
        name = op["op"]
        out = {"op": name, "status": "returned", "hits": 0}
        watch.before(i, op, tag)
        fault = op.get("fault")
        if fault is not None and i < len(counts) and counts[i]:
            fault = [fault[0] % counts[i]] + list(fault[1:])
        dev.arm(fault)
        n0 = dev.exchanges
        try:
            try:
                last = _hist_op(tag, op, out, last, dev)
            finally:
                plan = dev.disarm()
                out["hits"] = plan["hits"] if plan else 0
                out["exchanges"] = dev.exchanges - n0
        except nfc.tag.TagCommandError as e:
            out["status"], out["error"] = "error", e
            if "data" in out:
                last = out["data"]
        except Violation:
            raise
        except Exception as e:
            raise unexpected(e, name + "-raises", detail="operation %d of %r"
                             % (i, [o["op"] for o in ops]))
        if getattr(b.tag, "exc", None) is not None:
            raise unexpected(b.tag.exc, "emulation-raises")
        if watch.after(i, op, out) == "stop":
            break
    return tag


def _hist_op(tag, op, out, last, dev):
    name = op["op"]
    if name == "read":
        n = tag.ndef
        out["result"] = None if n is None else bytes(n.octets)
        if n is not None:
            out["length"] = n.length
        return last
    if name == "changed":
        n = tag.ndef
        if n is None:
            out["status"] = "skipped"
            return last
        out["changed"] = n.has_changed
        n = tag.ndef
        out["result"] = None if n is None else bytes(n.octets)
        return last
    if name == "write":
        n = tag.ndef
        if n is None or not n.is_writeable:
            out["status"] = "skipped"
            return last
        cap = out["cap"] = n.capacity
        if op.get("again") and last is not None and len(last) <= cap:
            data = last
            out["again"] = True
        else:
            ln = resolve_len(op["len"], cap)
            if op["len"][0] != "cap":
                ln = min(ln, cap)       # only ["cap", 1] asks for too much
            data = message(ln, op["seed"])
        if len(data) > cap:
            n1 = dev.exchanges
            try:
                n.octets = data
            except ValueError:
                out["status"] = "oversize"
                out["oversize_commands"] = dev.exchanges - n1
                return last
            out["status"] = "oversize-accepted"
            return last
        out["data"] = data
        # documented: bytes or bytearray; both forms are exercised
        n.octets = bytearray(data) if op["seed"] & 1 else data
        return data
    if name == "format":
        out["result"] = _quiet(tag.format, version=op["version"],
                               wipe=op["wipe"])
        return last
    if name == "dump":                  # read-only for every tag type
        out["lines"] = len(_quiet(tag.dump))
        return last
    raise ValueError(name)


# --------------------------------------------- multi-sector Type 2 Tag layouts
# (added for the C01 leg `t2t-sectors`; nothing above uses these helpers)
T2_SECTOR = 1024
T2_DATA_START = 16


def t2t_ctrl_bases(lo=272, hi=48, bpps=range(4, 12)):
    """every (boundary, bpp, page) a lock / memory control TLV can use to
    address a byte range that starts between ``lo`` bytes in front of and
    ``hi`` bytes behind a Type 2 Tag sector boundary that a one-byte CC size
    can reach (1024, 2048): start address = page * 2**bpp + offs, page and
    offs are nibbles"""
    out = []
    for boundary in (T2_SECTOR, 2 * T2_SECTOR):
        for bpp in bpps:
            for page in range(16):
                base = page << bpp
                if boundary - lo <= base + 15 and base <= boundary + hi:
                    out.append([boundary, bpp, page])
    return out


def t2t_sector_ctrl(raw, boundary):
    """raw = [base index, byte offset, kind, mode, size, dist] -> one lock
    (kind 1) or memory (kind 2) control TLV whose range lies near or across
    the sector ``boundary`` (1024 or 2048).  The start address is the
    (index modulo number of bases)-th entry of t2t_ctrl_bases for that
    boundary plus the byte offset; the size is ``size`` bytes (mode 0; lock
    control at most 32 bytes) or chosen so that the range ENDS ``dist``
    bytes behind (< 0: in front of) the sector boundary, clipped to what the
    size field can say (1..256 bytes, lock control 1..32 bytes)."""
    idx, offs, kind, mode, anysize, dist = raw
    bases = [b for b in t2t_ctrl_bases() if b[0] == boundary]
    _, bpp, page = bases[idx % len(bases)]
    start = (page << bpp) + offs
    nbytes = anysize if mode == 0 else boundary + dist - start
    nbytes = max(1, min(32 if kind == 1 else 256, nbytes))
    # lock control: number of lock bits, memory control: number of bytes;
    # 0 stands for 256 in both
    size = (nbytes * 8) & 0xFF if kind == 1 else nbytes & 0xFF
    return {"t": kind, "page": page, "offs": offs, "size": size, "bpp": bpp}


def t2t_sector_desc():
    """strategy: Type 2 Tag layouts at and beyond the 1 KiB sector size: data
    area ends just in front of / at / just behind the first sector boundary,
    somewhere in the second sector, or at / behind the second boundary (CC2
    = 125..255 -> data area ends at 1016..2056), physical memory 0..40 bytes
    longer; 1..3 control TLVs from t2t_sector_ctrl (ranges near / across a
    sector boundary: 1024, or - for half of the TLVs of a tag whose data area
    ends behind address 1792 - 2048), optionally one arbitrary TLV of
    ctrl_tlv() in front; NULL TLVs, filler as t2t_desc."""
    size = st.one_of(
        st.sampled_from([125, 126, 127, 128, 129, 130, 132, 134, 160]),
        st.sampled_from([192, 240, 250, 252, 253, 254, 255, 255]),
        st.integers(125, 255))
    raw = st.tuples(
        st.integers(0, 10), st.integers(0, 15),
        st.sampled_from([2, 2, 2, 1]), st.sampled_from([0, 1, 1]),
        st.one_of(st.integers(1, 256), st.integers(1, 48)),
        st.one_of(st.integers(-32, 48),
                  st.sampled_from([-16, -1, 0, 1, 8, 15, 16, 17, 32])),
        st.booleans())

    def mk(d):
        far = T2_DATA_START + 8 * d["size"] > 1792
        ctrl = d["pre"] + [
            t2t_sector_ctrl(r[:6], (2 if far and r[6] else 1) * T2_SECTOR)
            for r in d["near"]]
        return {"kind": "t2t", "size": d["size"], "extra": d["extra"],
                "ctrl": ctrl, "nulls": d["nulls"], "filler": d["filler"]}
    return st.fixed_dictionaries({
        "size": size,
        "extra": st.sampled_from([0, 0, 4, 8, 16, 20, 40]),
        "pre": st.lists(ctrl_tlv(), max_size=1),
        "near": st.lists(raw, min_size=1, max_size=3),
        "nulls": st.sampled_from([0, 0, 0, 1, 2, 3, 5]),
        "filler": st.sampled_from([0x00, 0x00, 0xFF, 0x5A, 0xFE, 0x03])}
    ).map(mk)


def layout_anchors(info):
    """addresses of a Type 1/2 layout (info of ref_tlv.build / layout) where
    the linear walk over the NDEF message area changes: first and
    one-past-last address of every maximal reserved run behind the NDEF TLV's
    tag byte, every 1 KiB sector boundary, the end of the data area (sorted,
    all within tlv_off < A <= data_end)"""
    lo, end, rsvd = info["tlv_off"], info["data_end"], info["reserved"]
    out = set([end])
    for a in range(lo + 1, end + 1):
        if a % T2_SECTOR == 0:
            out.add(a)
        if a < end and (a in rsvd) != ((a - 1) in rsvd):
            out.add(a)
    return sorted(out)


def anchor_len(info, cap, i, d):
    """message length (0..cap+1) whose NDEF TLV - header and value - ends ``d``
    available bytes behind (d < 0: in front of) the i-th anchor of the layout
    (i modulo the number of anchors): with d = 0 the last value byte is the
    last available byte in front of the anchor and the terminator TLV goes
    to the first available byte at / behind it"""
    anchors = layout_anchors(info)
    a = anchors[i % len(anchors)]
    n = len([x for x in info["avail"] if x < a]) + d
    ln = n - 4 if n - 4 >= 255 else min(n - 2, 254)
    return max(0, min(ln, cap + 1))
