"""C02 - an interrupted NDEF write never leaves a corrupt message on the tag.

For each generated (layout, old message, new message): one fault-free write
with a snapshot of the tag memory after every state-changing command
(k = 0..n).  The memory a power cut after the k-th command leaves behind is
exactly snapshot k (the writer is deterministic up to the cut; the harness
cross-checks this against a real cut run for two values of k per case).  A
fresh frontend + fresh activation then reads every snapshot and the result is
classified; the independent reference reader classifies the same image.

allowed after a cut: tag/ndef not readable (None), empty message, the old
message, the complete new message.  k = 0 must read old, k = n must read new.

Leg `after-failed`: the same sweep for a write that FOLLOWS a failed write.
First `ndef.octets = M1` meets a persistent communication fault from its k-th
exchange on (command lost or response lost, until the assignment has raised),
then - tag back in the field - `ndef.octets = M2` on the same NDEF object (or
after a fresh activation) is cut after every state-changing command.  "The
previous message" is what the tag really held before the second write (the
fresh reader's view of the memory the failed write left behind).

Leg `felica-lite`: the sweep for FeliCa Lite / Lite-S tags (vlib.simfelica,
MACs from vlib.ref_felica) with the two dimensions these products add to
"any fresh reader": the WRITER is or is not authenticated (Lite-S: mutual
authentication, every block then goes with a MAC'd write) and the FRESH
READER looks at the tag directly, or authenticates first (with the tag's
key, or with a key the tag does not hold) and then reads - on these products
authentication changes the commands and the code path of the NDEF reader.
"""
import struct

from hypothesis import strategies as st

import nfc.tag
import nfc.tag.tt3_sony

from vlib import ref_felica, ref_tlv, simfelica, simtags, tagdev, vsched
from vlib.engine import HarnessError, Leg, Violation, unexpected
from props import tagcommon as tc

PROPERTY = "C02"
LEVEL = "fault_enumeration"
ASSUMPTIONS = [
    "a power cut takes effect between two commands: each tag command is "
    "atomic (T2T page / T1T byte or 8-byte block / T3T write command / T4T "
    "UPDATE BINARY), as the property's 'after any command' states",
    "Type 4 Tags with MLc smaller than the NLEN field are outside the domain "
    "(no writer can update NLEN atomically there)",
    "simulators and layout model as in C01",
    "after-failed leg: the persistent fault of the first write never hits the "
    "second packet of the Type 2 SECTOR SELECT (acknowledged by silence, same "
    "exemption as C16); on Type 4 the second write follows a fresh activation "
    "(the ISO-DEP session after a given-up APDU is the known finding "
    "C12-no-resync-after-error); a second write that raises "
    "TagCommandError although no fault is injected is accepted (its cut "
    "points are still judged), other exception types are not",
]

LENS = [0, 1, 2, 10, 100, 253, 254, 255, 256, 257, 300, 520, 871]


def c02_len():
    return st.one_of(
        st.sampled_from([["abs", n] for n in LENS] +
                        [["cap", 0], ["cap", -1], ["pm", 500]]),
        st.tuples(st.just("abs"), st.integers(0, 600)))


def t2t_desc():
    # data areas that hold > 255 bytes most of the time, NDEF TLV offset
    # unaligned to the 4-byte page through NULL TLVs / control TLVs
    return tc.t2t_desc().map(lambda d: dict(
        d, size=d["size"] if d["size"] >= 6 else d["size"] + 40))


def t2t_big():
    return st.fixed_dictionaries({
        "kind": st.just("t2t"),
        "size": st.sampled_from([36, 40, 60, 110, 126, 130]),
        "extra": st.sampled_from([0, 8]),
        "ctrl": st.lists(tc.ctrl_tlv(), max_size=2),
        "nulls": st.integers(0, 7),
        "filler": st.sampled_from([0x00, 0xFF, 0x03])})


def t1t_big():
    return st.fixed_dictionaries({
        "kind": st.just("t1t"),
        "size": st.sampled_from([14, 40, 63, 80, 127]),
        "extra": st.just(0), "hr1": st.sampled_from([0x00, 0x4C]),
        "ctrl": st.lists(tc.ctrl_tlv(), max_size=2),
        "nulls": st.integers(0, 9),
        "filler": st.sampled_from([0x00, 0xFF, 0x03])})


def t4_len():
    """lengths around the single-command limit NLEN+L <= MLc"""
    return st.one_of(c02_len(), st.tuples(st.just("mlc"),
                                          st.integers(-6, 2)))


def t4t_desc():
    def fix(d):
        nl = 4 if d["ver"] >> 4 == 3 else 2
        d["mlc"] = max(d["mlc"], nl)
        d["fsize"] = min(d["fsize"], 3000)
        return d
    return tc.t4t_desc().map(fix)


def case_strategy(desc, tier, lens=None):
    lens = lens or c02_len()
    return st.fixed_dictionaries({
        "tag": desc, "old": lens, "old_seed": st.integers(0, 255),
        "new": lens, "new_seed": st.integers(0, 255),
        "cuts": st.just("all" if tier == "thorough" else "edges")})


def set_image(b, snap):
    k = b.kind
    if k in ("t1t", "t2t"):
        b.tag.mem[:] = snap
    elif k == "t3t":
        for i in range(len(b.tag.blocks)):
            b.tag.blocks[i][:] = snap[16 * i:16 * i + 16]
    elif k == "t3e":
        b.tag.data[:] = snap
    else:
        b.app.ndef_file[:] = snap


def fresh_read(case, snap):
    """fresh tag object with the given memory, fresh frontend, fresh
    activation -> ('none'|'octets', bytes) and the reference reader's view"""
    b = tc.build(case["tag"], case["old"], case["old_seed"])
    set_image(b, snap)
    raised = None
    try:
        clf, tag = tc.activate(b)
        ndef = tag.ndef if tag is not None else None
        lib = None if ndef is None or not ndef.is_readable else ndef.octets
    except Exception as e:
        # a reader that raises did not deliver a message: "not readable"
        # here; that reading arbitrary memory must not raise is C08's matter
        unexpected(e)           # (a harness failure still surfaces)
        lib, raised = None, type(e).__name__
    return lib, b.ref_read(), raised


def classify(x, old, new):
    if x is None:
        return "unreadable"
    if x == b"":
        return "empty"
    if x == new:
        return "new"
    if x == old:
        return "old"
    return "MIXTURE"


def run(case, ctx):
    desc = case["tag"]
    b = tc.build(desc, case["old"], case["old_seed"])
    if b is None:
        ctx.label("layout-without-room")
        return
    kind = tc.classify(desc)
    ctx.label(kind)
    old = b.old
    try:
        clf, tag = tc.activate(b)
        ndef = tag.ndef
        cap = ndef.capacity
    except Exception as e:
        raise unexpected(e, "setup-raises")
    if case["new"][0] == "mlc":
        # relative to the effective command data limit of short APDUs
        L = max(0, min(min(desc.get("mlc", 255), 255) + case["new"][1], cap))
    else:
        L = min(tc.resolve_len(case["new"], cap), cap)
    new = tc.message(L, case["new_seed"] ^ 0x80)
    if kind.startswith("t4t") and desc["ver"] == 0x30 and \
            desc["fsize"] > 0xFFFF:
        ctx.label("skipped:file>64k")
        return
    ctx.set_class("%s/new-length-%s" % (desc["kind"],
                                        "3-byte" if L >= 255 else "1-byte"))
    b.tag.snaps = [bytes(b.tag.mem)]
    try:
        ndef.octets = new
    except Exception as e:
        raise unexpected(e, "write-raises")
    if getattr(b.tag, "exc", None) is not None:
        raise unexpected(b.tag.exc, "emulation-raises")
    snaps = b.tag.snaps
    n = len(snaps) - 1
    if n != b.tag.writes:
        raise HarnessError("snapshot count %d != writes %d" % (n, b.tag.writes))
    if case["cuts"] == "all" or n <= 40:
        ks = list(range(0, n + 1))
        ctx.label("cuts-exhaustive")
    else:
        ks = sorted(set(list(range(0, 14)) + list(range(n - 13, n + 1)) +
                        list(range(14, n - 13, max(1, (n - 27) // 12)))))
        ctx.label("cuts-edges+sampled")
    # harness self check: a real power cut leaves exactly the snapshot
    for k in sorted(set([n // 2, max(0, n - 1)])):
        b2 = tc.build(desc, case["old"], case["old_seed"])
        b2.tag.cut_after = k
        try:
            clf2, tag2 = tc.activate(b2)
            tag2.ndef.octets = new
        except Exception:
            pass
        if bytes(b2.tag.mem) != snaps[k]:
            raise HarnessError("cut at %d differs from snapshot" % k)
    seen = {}
    for k in ks:
        key = snaps[k]
        if key in seen:
            lib, ref, raised = seen[key]
        else:
            lib, ref, raised = seen[key] = fresh_read(case, snaps[k])
            if raised:
                ctx.label("reader-raised:" + raised)
        for who, x in (("library-reader", lib), ("reference-reader", ref)):
            c = classify(x, old, new)
            if k == 0 and c not in ("old",) and not (old == b"" and
                                                     c == "empty"):
                if not (old == new and c == "new"):
                    raise Violation("cut-at-0-not-old", "%s sees %s" % (who, c))
            if k == n and c != "new" and not (new == b"" and c == "empty") \
                    and not (old == new and c == "old"):
                raise Violation("complete-write-not-new",
                                "%s sees %s after all %d commands"
                                % (who, c, n))
            if c == "MIXTURE":
                if b.kind in ("t1t", "t2t"):
                    # is the cut inside the final update of the length field
                    # (memory differs from the final image only in the up
                    # to three length bytes of the NDEF TLV)?
                    off = b.info["tlv_off"]
                    lenbytes = set(range(off + 1, off + 4))
                    diff = [a for a in range(len(snaps[n]))
                            if snaps[k][a] != snaps[n][a]]
                    ctx.set_class("%s/new-length-%s/cut-%s-length-update" % (
                        b.kind, "3-byte" if L >= 255 else "1-byte",
                        "inside" if set(diff) <= lenbytes else "before"))
                raise Violation(
                    "mixture", "%s after cut %d of %d sees %d bytes (old %d, "
                    "new %d), common prefix with new %d: %r"
                    % (who, k, n, len(x), len(old), len(new),
                       _prefix(x, new), desc))
            ctx.label(c)
    if n >= 2 and old != new and L > 0:
        ctx.nontrivial()
    ctx.note({"writes": n, "cuts": len(ks), "old": len(old), "new": L})


# message lengths relative to the tag layout ---------------------------------
def edge_lengths(lay):
    """message lengths whose LAST byte lies at a distinguished place of the
    layout ``lay`` (ref_tlv.layout() / build() info: "avail" = the usable
    addresses from the NDEF TLV's tag byte to the end of the data area).
    -> {length: [labels]}.  With idx = position of the last message byte in
    "avail" (a message of L bytes has a 2 or 4 byte TLV header, idx = L+1 or
    L+3) and j = position of the last usable byte in front of a reserved /
    lock byte range of g bytes that lies inside the area:
      range-2 range-1 range-0   idx = j-2, j-1, j (ends 2, 1, 0 bytes before)
      range+1 range+2           idx = j+1, j+2 (the byte that had to jump over
                                the range, and the next; a writer that does
                                not skip puts byte j+1 on the first range byte)
      range-unskipped-last/-after   idx = j+g, j+g+1: without skipping the
                                message would end on the last range byte /
                                just behind the range
      end-2 end-1 end-0         the same in front of the end of the data area
                                (terminator fits for the first two only)
      length-format             253..256, both sides of the 1 / 3 byte format
    """
    avail = lay["avail"]
    n = len(avail)
    cap = ref_tlv.true_capacity(lay)
    out = {}

    def add(idx, label):
        for L in (idx - 1, idx - 3):
            if 0 < L <= cap and L + (2 if L < 255 else 4) - 1 == idx:
                if label not in out.setdefault(L, []):
                    out[L].append(label)
    for j in range(1, n - 1):
        g = avail[j + 1] - avail[j] - 1
        if g > 0:
            for r in (-2, -1, 0, 1, 2):
                add(j + r, "range%s%d" % ("+" if r > 0 else "-", abs(r)))
            add(j + g, "range-unskipped-last")
            add(j + g + 1, "range-unskipped-after")
    for r in (-2, -1, 0):
        add(n - 1 + r, "end-%d" % -r)
    for L in (253, 254, 255, 256):
        if L <= cap:
            out.setdefault(L, []).append("length-format")
    return out


def interior_ranges(lay):
    a = lay["avail"]
    return len([j for j in range(1, len(a) - 1) if a[j + 1] != a[j] + 1])


def _ctrl_at(t, addr, nbytes, odd_bits):
    """lock control (t=1) / memory control (t=2) TLV description for
    ``nbytes`` bytes from (about) ``addr``: the smallest page size that can
    address it, byte offset cut down to the 4 bits the field has"""
    bpp = 4
    while (addr >> bpp) > 15:
        bpp += 1
    c = {"t": t, "page": addr >> bpp, "offs": min(addr & ((1 << bpp) - 1), 15),
         "bpp": bpp}
    if t == 1:                          # size in bits, 0 = 256
        c["size"] = (min(nbytes, 32) * 8 - odd_bits) & 0xFF
    else:                               # size in bytes, 0 = 256
        c["size"] = nbytes & 0xFF
    return c


@st.composite
def edge_case(draw, tier):
    """(Type 1 / Type 2 layout, old, new): static and dynamic Type 1
    memories, Type 2 memories of 48..1040 bytes, 0..2 lock / memory control
    TLVs whose byte range lies INSIDE the message area (behind the NDEF TLV
    header, by construction; mostly near enough for a 1-byte-length message
    to reach it); old and new length drawn from edge_lengths() of the layout
    the reference model finds in the built image"""
    kind = draw(st.sampled_from(["t1t", "t1t", "t1t", "t2t", "t2t"]))
    if kind == "t1t":
        size = draw(st.sampled_from([14, 14, 14, 15, 16, 31, 40, 63, 63, 63,
                                     80, 127]))
        desc = {"kind": "t1t", "size": size, "extra": 0,
                "hr1": 0x4C if size == 63 else draw(st.sampled_from(
                    [0x00, 0x48])),
                "nulls": draw(st.integers(0, 9))}
    else:
        desc = {"kind": "t2t",
                "size": draw(st.sampled_from([6, 12, 18, 32, 36, 60, 110,
                                              126, 130])),
                "extra": draw(st.sampled_from([0, 8])),
                "nulls": draw(st.integers(0, 7))}
    desc["filler"] = draw(st.sampled_from([0x00, 0xFF, 0x03]))
    start, end, _, _ = ref_tlv.geometry(desc)
    nctrl = draw(st.sampled_from([0, 1, 1, 1, 2, 2]))
    # first address behind the header of the NDEF TLV when nothing in front
    # of it is reserved
    lo = start + 5 * nctrl + desc["nulls"] + 2
    ctrl = []
    for _ in range(nctrl):
        addr = draw(st.one_of(st.integers(lo, min(lo + 70, end - 1)),
                              st.integers(lo, min(lo + 70, end - 1)),
                              st.integers(lo, end - 1)))
        ctrl.append(_ctrl_at(
            draw(st.sampled_from([1, 2, 2])), addr,
            draw(st.one_of(st.integers(1, 12),
                           st.sampled_from([1, 2, 4, 8, 16, 24]))),
            draw(st.sampled_from([0, 0, 3, 7]))))
    desc["ctrl"] = ctrl
    probe = ref_tlv.build(desc)
    if probe is None:                   # (the ranges left no room)
        desc["ctrl"], desc["nulls"] = [], 0
        probe = ref_tlv.build(desc)
    lay = ref_tlv.layout(probe[0], kind) if probe is not None else None
    marks = edge_lengths(lay) if lay is not None else {}
    # (a layout without any edge inside its capacity still gets a case)
    lens = sorted(marks) or [0]
    # (an old message also ends on an edge, is empty, or is short)
    old = draw(st.one_of(st.sampled_from(lens), st.sampled_from(lens),
                         st.sampled_from([0, 1, 10])))
    new = draw(st.sampled_from(lens))
    return {"tag": desc, "old": ["abs", old],
            "old_seed": draw(st.integers(0, 255)), "new": ["abs", new],
            "new_seed": draw(st.integers(0, 255)),
            "cuts": "all" if tier == "thorough" else "edges"}


def run_edges(case, ctx):
    b = tc.build(case["tag"], case["old"], case["old_seed"])
    if b is None:
        ctx.label("layout-without-room")
        return
    lay = ref_tlv.layout(bytes(b.tag.mem), b.kind)
    if lay is None:
        raise HarnessError("reference model finds no NDEF TLV in the image")
    marks = edge_lengths(lay)
    for m in marks.get(case["new"][1], ["not-an-edge"]):
        ctx.label("new-ends:" + m)
    for m in marks.get(case["old"][1], ["elsewhere"]):
        ctx.label("old-ends:" + m)
    ctx.label("ranges-inside-the-message-area:%d" % interior_ranges(lay))
    return run(case, ctx)


# a write that follows a failed write ----------------------------------------
def _length(spec, desc, cap):
    if spec[0] == "mlc":
        # relative to the effective command data limit of short APDUs
        return max(0, min(min(desc.get("mlc", 255), 255) + spec[1], cap))
    return min(tc.resolve_len(spec, cap), cap)


def _lencls(b, L, inside):
    return "%s/new-length-%s/cut-%s-length-update" % (
        b.kind, "3-byte" if L >= 255 else "1-byte",
        "inside" if inside else "before")


def _only_length_bytes(b, image, final):
    """the image differs from the final image of the write only in the (up
    to three) length bytes of the NDEF TLV: the cut is inside the final
    length update (known findings C02-ext-length-t1t/t2t)"""
    off = b.info["tlv_off"]
    lenbytes = set(range(off + 1, off + 4))
    diff = [a for a in range(len(final)) if image[a] != final[a]]
    return set(diff) <= lenbytes


def run_after_failed(case, ctx):
    desc = case["tag"]
    b = tc.build(desc, case["old"], case["old_seed"])
    if b is None:
        ctx.label("layout-without-room")
        return
    kind = tc.classify(desc)
    ctx.label(kind)
    if desc["kind"] == "t4t" and desc["ver"] == 0x30 and \
            desc["fsize"] > 0xFFFF:
        ctx.label("skipped:file>64k")
        return
    old = b.old
    # rehearsal: the first write without fault on a tag of its own -> number
    # of exchanges, final image
    b0 = tc.build(desc, case["old"], case["old_seed"])
    try:
        clf0, tag0 = tc.activate(b0)
        nd0 = tag0.ndef
        cap = nd0.capacity
    except Exception as e:
        raise unexpected(e, "setup-raises")
    L1 = _length(case["m1"], desc, cap)
    L2 = _length(case["m2"], desc, cap)
    m1 = tc.message(L1, case["m1_seed"] ^ 0x40)
    m2 = tc.message(L2, case["m2_seed"] ^ 0x80)
    ctx.set_class("%s/new-length-%s" % (desc["kind"],
                                        "3-byte" if L1 >= 255 else "1-byte"))
    e0 = clf0.device.exchanges
    try:
        nd0.octets = m1
    except Exception as e:
        raise unexpected(e, "write-raises")
    n1 = clf0.device.exchanges - e0
    final1 = bytes(b0.tag.mem)
    # the failed write
    try:
        clf, tag = tc.activate_hist(b)
        ndef = tag.ndef
        ndef.capacity
    except Exception as e:
        raise unexpected(e, "setup-raises")
    dev = clf.device
    where, i, fkind, phase = case["fault"][:4]
    burst = case["fault"][4] if len(case["fault"]) > 4 else 0
    i = i % max(n1, 1)
    k = i if where == "abs" else max(n1, 1) - 1 - i
    dev.arm([k, fkind, burst, phase])
    if burst:
        ctx.label("first-write-disturbed-by-burst:%d" % burst)
    st1 = "returned"
    try:
        ndef.octets = m1
    except nfc.tag.TagCommandError:
        st1 = "error"
    except Exception as e:
        raise unexpected(e, "faulted-write-raises",
                         detail="persistent %s (%s lost) from exchange %d of "
                                "%d" % (fkind, phase, k, n1))
    finally:
        plan = dev.disarm()
    if getattr(b.tag, "exc", None) is not None:
        raise unexpected(b.tag.exc, "emulation-raises")
    ctx.label("first-write:%s:%s-lost" % (st1, phase))
    image0 = bytes(b.tag.mem)
    # what the tag really holds now (fresh reader / reference reader)
    held = fresh_read(case, image0)
    if held[2]:
        ctx.label("reader-raised:" + held[2])
    for who, x in (("library-reader", held[0]), ("reference-reader", held[1])):
        c = classify(x, old, m1)
        if c == "MIXTURE":
            if b.kind in ("t1t", "t2t"):
                ctx.set_class(_lencls(b, L1, _only_length_bytes(
                    b, image0, final1)))
            raise Violation(
                "mixture", "%s after the failed first write (persistent %s, "
                "%s lost, from exchange %d of %d) sees %d bytes (old %d, new "
                "%d): %r" % (who, fkind, phase, k, n1, len(x), len(old),
                             len(m1), desc))
        ctx.label("held-" + c)
    # the second write, tag back in the field
    reuse = bool(case["reuse"]) and desc["kind"] != "t4t"
    if not reuse:
        try:
            clf, tag = tc.activate(b)
            ndef = tag.ndef if tag is not None else None
            ok = ndef is not None and ndef.is_writeable and \
                L2 <= ndef.capacity
        except Exception as e:
            # reading whatever a failed write left behind: C08's matter
            unexpected(e)
            ok = False
        if not ok:
            ctx.label("no-second-write:fresh-activation-finds-no-ndef")
            return
    ctx.label("second-write:" + ("same-object" if reuse else
                                 "fresh-activation"))
    ctx.set_class("%s/new-length-%s" % (desc["kind"],
                                        "3-byte" if L2 >= 255 else "1-byte"))
    b.tag.snaps = [image0]
    w0 = b.tag.writes
    st2 = "returned"
    try:
        ndef.octets = m2
    except nfc.tag.TagCommandError:
        st2 = "error"
    except Exception as e:
        raise unexpected(e, "second-write-raises",
                         detail="after a first write that %s (persistent %s, "
                                "%s lost, from exchange %d of %d)"
                                % (st1, fkind, phase, k, n1))
    if getattr(b.tag, "exc", None) is not None:
        raise unexpected(b.tag.exc, "emulation-raises")
    ctx.label("second-write:" + st2)
    snaps = b.tag.snaps
    b.tag.snaps = None
    n = len(snaps) - 1
    if n != b.tag.writes - w0:
        raise HarnessError("snapshot count %d != writes %d"
                           % (n, b.tag.writes - w0))
    if case["cuts"] == "all" or n <= 40:
        ks = list(range(0, n + 1))
        ctx.label("cuts-exhaustive")
    else:
        ks = sorted(set(list(range(0, 14)) + list(range(n - 13, n + 1)) +
                        list(range(14, n - 13, max(1, (n - 27) // 12)))))
        ctx.label("cuts-edges+sampled")
    seen = {image0: held}
    for kk in ks:
        key = snaps[kk]
        if key in seen:
            lib, ref, raised = seen[key]
        else:
            lib, ref, raised = seen[key] = fresh_read(case, snaps[kk])
            if raised:
                ctx.label("reader-raised:" + raised)
        for who, x, was in (("library-reader", lib, held[0]),
                            ("reference-reader", ref, held[1])):
            c = classify(x, was, m2)
            if kk == n and st2 == "returned" and c != "new" and \
                    not (m2 == b"" and c == "empty") and \
                    not (was == m2 and c == "old"):
                raise Violation("complete-write-not-new",
                                "%s sees %s after all %d commands of the "
                                "second write" % (who, c, n))
            if c == "MIXTURE":
                if b.kind in ("t1t", "t2t"):
                    ctx.set_class(_lencls(
                        b, L2, st2 == "returned" and _only_length_bytes(
                            b, snaps[kk], snaps[n])))
                raise Violation(
                    "mixture", "%s after cut %d of %d of the second write "
                    "(%s) sees %d bytes; the tag held %s before it, new "
                    "message %d bytes, common prefix with new %d; first "
                    "write: %d bytes over %d old, %s (persistent %s, %s "
                    "lost, from exchange %d of %d): %r"
                    % (who, kk, n, "same NDEF object" if reuse else
                       "fresh activation", len(x),
                       "nothing readable" if was is None else
                       "%d bytes" % len(was), len(m2), _prefix(x, m2), len(m1),
                       len(old), st1, fkind, phase, k, n1, desc))
            ctx.label(c)
    if st1 == "error" and plan and plan["hits"] and n >= 2 and L2 > 0 \
            and held[0] != m2:
        ctx.nontrivial()
    ctx.note({"first": st1, "exchanges-first": n1, "fault-from": k,
              "second": st2, "writes": n, "cuts": len(ks), "old": len(old),
              "m1": L1, "m2": L2})


def _prefix(a, b):
    i = 0
    for x, y in zip(a, b):
        if x != y:
            break
        i += 1
    return i


# FeliCa Lite / Lite-S: authenticated writers and authenticating readers -----
LITE_CLS = {"lite": nfc.tag.tt3_sony.FelicaLite,
            "lites": nfc.tag.tt3_sony.FelicaLiteS}
LITE_OTHER_KEY = b"not-the-card-key"
LITE_USER = range(0, 14)              # attribute block + S_PAD1..13


def setup():
    # deterministic authentication challenges (os.urandom inside
    # nfc.tag.tt3_sony); without a scheduler the time/threading shims are
    # the real modules
    vsched.patch_nfc()
    # pyDes needs ~0.4 ms per DES block: memoise the simulator's pure single
    # block 3DES inside this process (as C16 does); nfcpy is not touched
    if not getattr(ref_felica.ede2_encrypt, "memoised", False):
        import functools
        cached = functools.lru_cache(maxsize=1 << 16)(ref_felica.ede2_encrypt)

        def ede2_encrypt(k1, k2, block):
            return cached(bytes(k1), bytes(k2), bytes(block))
        ede2_encrypt.memoised = True
        ref_felica.ede2_encrypt = ede2_encrypt


def lite_mc(case):
    """memory configuration block as protect() of the product leaves it for
    the generated protect_from / read_protect (simfelica docstring)"""
    mc = bytearray([0xFF, 0xFF, 0xFF, 0x01, 0x07]) + bytearray(11)
    prot, pf = case["prot"], case["protect_from"]
    if prot == "open":
        return bytes(mc)
    mask = struct.pack("<H", 2 ** 14 - 2 ** pf)
    if case["prod"] == "lite":
        mc[0:2] = struct.pack("<H", 0x7FFF ^ (2 ** 14 - 2 ** pf))
    else:
        mc[8:10] = mc[10:12] = mask
        if prot == "rw":
            mc[6:8] = mask
        mc[5] = 0x01
    mc[2] = 0x00
    return bytes(mc)


def lite_sim(case, old):
    prod = case["prod"]
    filler = bytes([case["filler"]]) * 16
    user = dict((n, filler) for n in range(1, 15))
    user[0] = bytes(simtags.t3_attribute(0x10, case["nbr"], 1, case["nmaxb"],
                                         0, 1, len(old)))
    data = old + bytes(-len(old) % 16)
    for i in range(len(data) // 16):
        user[1 + i] = data[16 * i:16 * i + 16]
    kw = dict(key=case["key"], ndef=True, user=user, mc=lite_mc(case))
    if prod == "lites":
        cls = simfelica.SimFelicaLiteSCountRC if case["count_rc"] \
            else simfelica.SimFelicaLiteS
        return cls(wcnt=case["wcnt"], **kw)
    return simfelica.SimFelicaLite(**kw)


def lite_image(sim):
    """the non-volatile state: every block but the challenge (RC is lost
    with the field) and the Lite-S write counter"""
    return (tuple((n, bytes(sim.mem[n])) for n in sorted(sim.mem)
                  if n != simfelica.RC), getattr(sim, "wcnt", None))


class _Snapshots(object):
    """a simfelica tag that records its non-volatile state after every
    command that the tag counted as a write (a power cut after that command
    leaves exactly this state)"""

    def __init__(self, inner):
        self.inner = inner
        self.snaps = [lite_image(inner)]

    def __getattr__(self, name):
        return getattr(self.inner, name)

    def command(self, data, timeout=None):
        w = self.inner.writes
        rsp = self.inner.command(data, timeout)
        if self.inner.writes != w:
            self.snaps.append(lite_image(self.inner))
        return rsp


def lite_restore(case, old, image):
    sim = lite_sim(case, old)
    mem, wcnt = image
    for n, data in mem:
        sim.mem[n] = bytearray(data)
    if wcnt is not None:
        sim.wcnt = wcnt
    sim.reset()
    return sim


def lite_password(case, right=True):
    """what authenticate() is given: the 16 byte card key (empty = factory
    key, as documented) or a key the tag does not hold"""
    if right:
        return b"" if case["key"] is None and case["empty_pw"] \
            else (case["key"] or bytes(16))
    return LITE_OTHER_KEY if case["key"] is None else b""


def lite_open(sim, case, how, useed):
    """fresh frontend, fresh activation, then - as ``how`` says -
      plain       tag.ndef
      auth        tag.authenticate(card key), tag.ndef
      ndef-auth   tag.ndef, tag.authenticate(card key), has_changed (the
                  documented complete update), tag.ndef
      auth-other  tag.authenticate(a key the tag does not hold), tag.ndef
    -> (tag, ndef, authenticate result)"""
    vsched.seed_urandom(useed)
    try:
        clf, tag = tagdev.activate(sim)
        if not isinstance(tag, LITE_CLS[case["prod"]]):
            raise HarnessError("%s simulator activated as %r"
                               % (case["prod"], tag))
        authed = None
        if how == "plain":
            return tag, tag.ndef, None
        if how == "ndef-auth":
            ndef = tag.ndef
            authed = tag.authenticate(lite_password(case))
            if ndef is not None:
                ndef.has_changed
            return tag, tag.ndef, authed
        authed = tag.authenticate(lite_password(case, how == "auth"))
        return tag, tag.ndef, authed
    finally:
        vsched.seed_urandom(None)


def lite_fresh_read(case, old, image, how):
    """-> (what the library reader delivers | None, raised, authenticated)"""
    sim = lite_restore(case, old, image)
    try:
        tag, ndef, authed = lite_open(sim, case, how, case["useed"] + 1)
        lib = None if ndef is None or not ndef.is_readable else ndef.octets
        return lib, None, authed
    except Exception as e:
        # a reader that raises did not deliver a message (that reading
        # must not raise is the matter of C08 / C16)
        unexpected(e)               # (a harness failure still surfaces)
        return None, type(e).__name__, None


def lite_ref_read(image):
    mem = dict(image[0])
    return simtags.t3_ref_read([mem[n] for n in LITE_USER])


def run_lite(case, ctx):
    prod, writer = case["prod"], case["writer"]
    cap = case["nmaxb"] * 16
    old = tc.message(min(tc.resolve_len(case["old"], cap), cap),
                     case["old_seed"])
    ctx.label("%s:%s:writer-%s" % (prod, case["prot"], writer))
    ctx.set_class("%s/writer-%s" % (prod, writer))
    sim = _Snapshots(lite_sim(case, old))
    try:
        tag, ndef, wauth = lite_open(sim, case, writer, case["useed"])
        if ndef is None:
            ctx.label("writer-finds-no-ndef")
            return
        if wauth is False:
            # not this property's matter (C20 judges authenticate)
            ctx.label("writer-authentication-failed")
            return
        if not ndef.is_writeable:
            ctx.label("writer-finds-read-only")
            return
        if ndef.capacity != cap:
            raise Violation("capacity-differs", "%d, attribute block says %d "
                            "blocks" % (ndef.capacity, case["nmaxb"]))
    except (Violation, HarnessError):
        raise
    except Exception as e:
        raise unexpected(e, "setup-raises")
    L = min(tc.resolve_len(case["new"], cap), cap)
    new = tc.message(L, case["new_seed"] ^ 0x80)
    first = len(sim.snaps) - 1        # writes of the authentication
    status = "returned"
    vsched.seed_urandom(case["useed"] + 2)
    try:
        ndef.octets = new
    except nfc.tag.TagCommandError:
        # the tag refuses a block (a plain writer on a protected tag)
        status = "error"
    except Exception as e:
        raise unexpected(e, "write-raises")
    finally:
        vsched.seed_urandom(None)
    ctx.label("write:" + status)
    snaps = sim.snaps
    n = len(snaps) - 1
    if n != sim.writes:
        raise HarnessError("snapshot count %d != writes %d" % (n, sim.writes))
    # harness self check: a real power cut leaves exactly the snapshot
    k = first + (n - first) // 2
    sim2 = lite_sim(case, old)
    sim2.cut_after = k
    try:
        tag2, ndef2, _ = lite_open(sim2, case, writer, case["useed"])
        vsched.seed_urandom(case["useed"] + 2)
        ndef2.octets = new
    except Exception:
        pass
    finally:
        vsched.seed_urandom(None)
    if lite_image(sim2)[0] != snaps[k][0] or (k < n and not sim2.dead):
        raise HarnessError("cut at %d differs from snapshot" % k)
    readers = ["plain", "auth"] + ([case["reader"]] if case["reader"] else [])
    readable_plain = not (prod == "lites" and case["prot"] == "rw")
    seen = {}
    inside = False
    m = n - first
    if case.get("cuts", "all") == "all" or m <= 8:
        ks = list(range(0, n + 1))
        ctx.label("cuts-exhaustive")
    else:
        # the authenticated readers pay ~10 ms of DES per block read
        ks = sorted(set(list(range(0, first + 4)) + list(range(n - 2, n + 1))
                        + [first + 4 + (m - 7) // 3,
                           first + 4 + 2 * (m - 7) // 3]))
        ctx.label("cuts-edges+sampled")
    for k in ks:
        key = snaps[k][0]
        if key not in seen:
            seen[key] = [("reference-reader", lite_ref_read(snaps[k]), True)]
            for how in readers:
                lib, raised, authed = lite_fresh_read(case, old, snaps[k], how)
                if raised:
                    ctx.label("reader-raised:" + raised)
                if how != "plain":
                    # (the result of authenticate is C20's matter)
                    ctx.label("reader-%s:authenticate->%s" % (how, authed))
                # can this reader read the tag at all?
                able = raised is None and (authed is True or readable_plain)
                seen[key].append(("library-reader:" + how, lib, able))
                if authed and snaps[k][0] not in (snaps[0][0], snaps[n][0]):
                    inside = True
        for who, x, able in seen[key]:
            c = classify(x, old, new)
            ctx.set_class("%s/%s" % (prod, who))
            if k <= first and able and c != "old" and \
                    not (old == b"" and c == "empty") and \
                    not (old == new and c == "new"):
                raise Violation("cut-at-0-not-old", "%s sees %s before the "
                                "first command of the write" % (who, c))
            if k == n and status == "returned" and able and c != "new" and \
                    not (new == b"" and c == "empty") and \
                    not (old == new and c == "old"):
                raise Violation("complete-write-not-new",
                                "%s sees %s after all %d commands"
                                % (who, c, n))
            if c == "MIXTURE":
                raise Violation(
                    "mixture", "%s after cut %d of %d (%s writer, %d of the "
                    "commands belong to its authentication) sees %d bytes "
                    "(old %d, new %d), common prefix with new %d, with old %d"
                    % (who, k, n, writer, first, len(x), len(old), len(new),
                       _prefix(x, new), _prefix(x, old)))
            ctx.label("%s:%s" % (who.split(":")[-1], c))
    ctx.set_class("%s/writer-%s" % (prod, writer))
    if n - first >= 3 and old != new and L > 0 and inside:
        ctx.nontrivial()
    ctx.note({"writes": n, "of-authentication": first, "cuts": len(ks),
              "old": len(old),
              "new": L, "status": status, "readers": readers})


def lite_strategy(tier):
    lens = st.one_of(
        st.sampled_from([["abs", n] for n in (0, 1, 5, 15, 16, 17, 32, 40,
                                              100, 192, 207, 208)] +
                        [["cap", 0], ["cap", -1], ["cap", -16], ["pm", 500]]),
        st.tuples(st.just("abs"), st.integers(0, 208)))
    short = st.one_of(st.sampled_from([["abs", n] for n in (1, 5, 16, 17,
                                                            32, 40, 48)]),
                      st.tuples(st.just("abs"), st.integers(1, 64)))
    key16 = st.binary(min_size=16, max_size=16)

    @st.composite
    def s(draw):
        prod = draw(st.sampled_from(["lites", "lites", "lite"]))
        prot = draw(st.sampled_from(
            ["open", "open", "w", "rw"] if prod == "lites"
            else ["open", "open", "open", "w"]))
        return {
            "prod": prod, "prot": prot,
            # protect(protect_from=0) makes the NDEF area read-only: no writer
            "protect_from": draw(st.sampled_from([1, 1, 2, 3, 5, 13, 14])),
            "key": draw(st.one_of(st.none(), key16, key16)),
            "empty_pw": draw(st.booleans()),
            "count_rc": draw(st.booleans()),
            "wcnt": draw(st.sampled_from([0, 0, 1, 255, 256, 0xFFFF,
                                          0x123456])),
            "nmaxb": draw(st.sampled_from([13, 13, 13, 13, 12, 8, 4, 2, 1])),
            "nbr": draw(st.sampled_from([4, 4, 4, 3, 2, 1])),
            "filler": draw(st.sampled_from([0x00, 0xFF, 0xA5])),
            # every fresh reader of an intermediate image reads the blocks
            # of the old length: mostly short old messages
            "old": draw(st.one_of(short, short, lens)),
            "old_seed": draw(st.integers(0, 255)),
            "new": draw(lens), "new_seed": draw(st.integers(0, 255)),
            "cuts": "all" if tier == "thorough" else "edges",
            "writer": draw(st.sampled_from(["plain", "auth", "auth",
                                            "ndef-auth"])),
            "reader": draw(st.sampled_from([None, "ndef-auth", "auth-other"])),
            "useed": draw(st.integers(0, 9999))}
    return s()


def _leg(name, desc, quick, thorough, lens=None):
    return Leg(name, run=run,
               gen=lambda tier: case_strategy(desc, tier, lens),
               quick=quick, thorough=thorough, shards_quick=4,
               shards_thorough=16, nt_floor=0.15,
               rule="(%s layout, old, new) triples biased to unaligned NDEF "
                    "TLV offsets and lengths on both sides of 254/255; every "
                    "cut point k=0..n of the write is read by a fresh reader "
                    "(quick tier: all k when n<=40, else first/last 14 + 12 "
                    "in between); one evaluation = one triple with all its "
                    "cuts; non-trivial = n>=2, old!=new, new non-empty."
                    % name)


def after_failed_strategy(tier):
    desc = st.sampled_from(["t2t"] * 4 + ["t1t"] * 3 + ["t3t", "t3e", "t4t"]
                           ).flatmap({
        "t2t": st.one_of(t2t_big(), t2t_desc()),
        "t1t": st.one_of(t1t_big(), tc.t1t_desc()),
        "t3t": tc.t3t_desc("t3t"), "t3e": tc.t3t_desc("t3e"),
        "t4t": t4t_desc()}.get)
    lens = st.one_of(c02_len(), c02_len(),
                     st.tuples(st.just("mlc"), st.integers(-6, 2)))
    pos = st.one_of(
        st.tuples(st.sampled_from(["abs", "end"]), st.integers(0, 3)),
        st.tuples(st.just("abs"), st.integers(0, 400)))
    return st.fixed_dictionaries({
        "tag": desc,
        # a freshly formatted (empty) tag is the usual first state
        "old": st.one_of(st.just(["abs", 0]), c02_len(), c02_len()),
        "old_seed": st.integers(0, 255),
        "m1": lens, "m1_seed": st.integers(0, 255),
        "m2": lens, "m2_seed": st.integers(0, 255),
        # the disturbance: persistent until the assignment has ended (0), or
        # a burst of 3 / 4 / 6 exchanges (the retries of one or two commands
        # are used up, then the tag answers again: whatever the library does
        # to clean up reaches the tag), or one command refused by the tag
        "fault": st.tuples(pos, st.sampled_from(tc.HIST_KINDS),
                           st.sampled_from(["cmd", "rsp"]),
                           st.sampled_from([0, 0, 3, 3, 4, 6, 1])).map(
            lambda t: [t[0][0], t[0][1], t[1], t[2],
                       (1 if t[1] == "refuse" else 3 if t[3] == 1
                        else t[3])]),
        "reuse": st.sampled_from([True, True, True, False]),
        "cuts": st.just("all" if tier == "thorough" else "edges")})


LEGS = [
    # (the slowest shards first: the job pool drains evenly)
    Leg("felica-lite", run=run_lite, gen=lite_strategy, quick=200,
        thorough=4000, shards_quick=10, shards_thorough=16, nt_floor=0.15,
        rule="FeliCa Lite / Lite-S tag (card key factory or generated; open, "
             "write protected or - Lite-S - read+write protected from block "
             "1..14 on as protect() configures it; Nmaxb 1..13, Nbr 1..4, "
             "Lite-S write counter value and RC counting policy) x old x new "
             "message (the old one short in 2 of 3 cases) x WRITER {plain, "
             "authenticate then tag.ndef, tag.ndef then authenticate}; every "
             "cut point k=0..n of the state changing commands, those of the "
             "authentication included (quick tier, more than 8 commands in "
             "the write: the first 4, the last 3 and 2 in between), is "
             "read by the reference reader and by FRESH READERS: plain, one "
             "that AUTHENTICATES FIRST with the card key, and a third one "
             "out of {none, tag.ndef / authenticate / has_changed, "
             "authenticate with a key the tag does not hold}.  Oracle as "
             "for the other legs (old / new / empty / nothing readable, "
             "never a mixture; before the first command of the write: old; "
             "after the last one of a write that returned: new - for every "
             "reader that may read the tag).  non-trivial = the write has "
             ">= 3 state changing commands, old != new, new non-empty and "
             "an authenticated fresh reader (authenticate returned True) "
             "looked at an image that is neither the first nor the last."),
    _leg("t2t", st.one_of(t2t_big(), t2t_big(), t2t_desc()), 400, 4000),
    _leg("t1t", st.one_of(t1t_big(), t1t_big(), tc.t1t_desc()), 300, 4000),
    Leg("layout-edges", run=run_edges, gen=edge_case, quick=480,
        thorough=6000, shards_quick=6, shards_thorough=16, nt_floor=0.15,
        rule="Type 1 (static 120 byte and dynamic 128..1024 byte memories, "
             "Topaz-512 included) and Type 2 (48..1040 byte data area) "
             "layouts with 0..2 lock / memory control TLVs whose byte range "
             "lies INSIDE the message area (constructed behind the NDEF TLV "
             "header, mostly within reach of a 1-byte-length message) and "
             "0..9 NULL TLVs; the OLD and the NEW message length are taken "
             "from the layout the reference model (ref_tlv.layout) finds in "
             "the image: for every reserved / lock byte range inside the "
             "area and for the end of the data area the lengths whose last "
             "byte is 2, 1, 0 usable bytes in front of it, the first and "
             "second byte behind the range (= on the first range byte for a "
             "writer that does not skip), on the last range byte / just "
             "behind the range if nothing were skipped, in the 1-byte and "
             "in the 3-byte length format, plus 253..256 (old also 0, 1, "
             "10).  Every cut point k=0..n of the write is read by a fresh "
             "reader and the reference reader as in the t1t / t2t legs "
             "(quick tier: all k when n<=40, else first/last 14 + 12 in "
             "between; k=n, the state after the complete write, always); "
             "oracle: old / new / empty / nothing readable, k=0 old, k=n "
             "new.  non-trivial = n>=2, old!=new, new non-empty (every new "
             "length is such an edge length by construction; labels "
             "new-ends:* say which)."),
    _leg("t3t", tc.t3t_desc("t3t"), 300, 4000),
    _leg("t3e", tc.t3t_desc("t3e"), 200, 3000),
    _leg("t4t", t4t_desc(), 300, 4000, t4_len()),
    Leg("after-failed", run=run_after_failed, gen=after_failed_strategy,
        quick=1600, thorough=16000, shards_quick=8, shards_thorough=16,
        nt_floor=0.15,
        rule="(layout of any tag type the module covers, old message - empty "
             "in a third of the cases -, M1, M2, fault) : `ndef.octets = M1` "
             "with a persistent fault (timeout / transmission / protocol; "
             "command lost or response lost) from its k-th exchange on (k "
             "from both ends of the fault-free exchange sequence or anywhere "
             "in it) until the assignment has raised; then `ndef.octets = "
             "M2` on the SAME NDEF object (3 of 4; Type 4 always and 1 of 4 "
             "otherwise: after a fresh activation) with every cut point "
             "k=0..n read by a fresh reader and the reference reader (quick "
             "tier: all k when n<=40, else first/last 14 + 12 in between).  "
             "Oracle: the state the failed write left is old / M1 / empty / "
             "unreadable; after every cut of the second write a reader sees "
             "what it saw before the second write, M2, empty or nothing "
             "readable - never a mixture; k=n reads M2 when the assignment "
             "returned.  non-trivial = the first assignment raised because "
             "of the injected fault, the second write has n>=2, M2 "
             "non-empty and different from what the tag held."),
]
