"""C02 - an interrupted NDEF write never leaves a corrupt message on the tag.

For each generated (layout, old message, new message): one fault-free write
with a snapshot of the tag memory after every state-changing command
(k = 0..n).  The memory a power cut after the k-th command leaves behind is
exactly snapshot k (the writer is deterministic up to the cut; the harness
cross-checks this against a real cut run for two values of k per case).  A
fresh frontend + fresh activation then reads every snapshot and the result is
classified; the independent reference reader classifies the same image.

allowed after a cut: tag/ndef not readable (None), empty message, the old
message, the complete new message.  k = 0 must read old, k = n must read new.
"""
from hypothesis import strategies as st

from vlib.engine import HarnessError, Leg, Violation, unexpected
from props import tagcommon as tc

PROPERTY = "C02"
LEVEL = "fault_enumeration"
ASSUMPTIONS = [
    "a power cut takes effect between two commands: each tag command is "
    "atomic (T2T page / T1T byte or 8-byte block / T3T write command / T4T "
    "UPDATE BINARY), as the property's 'after any command' states",
    "Type 4 Tags with MLc smaller than the NLEN field are outside the domain "
    "(no writer can update NLEN atomically there)",
    "simulators and layout model as in C01",
]

LENS = [0, 1, 2, 10, 100, 253, 254, 255, 256, 257, 300, 520, 871]


def c02_len():
    return st.one_of(
        st.sampled_from([["abs", n] for n in LENS] +
                        [["cap", 0], ["cap", -1], ["pm", 500]]),
        st.tuples(st.just("abs"), st.integers(0, 600)))


def t2t_desc():
    # data areas that hold > 255 bytes most of the time, NDEF TLV offset
    # unaligned to the 4-byte page through NULL TLVs / control TLVs
    return tc.t2t_desc().map(lambda d: dict(
        d, size=d["size"] if d["size"] >= 6 else d["size"] + 40))


def t2t_big():
    return st.fixed_dictionaries({
        "kind": st.just("t2t"),
        "size": st.sampled_from([36, 40, 60, 110, 126, 130]),
        "extra": st.sampled_from([0, 8]),
        "ctrl": st.lists(tc.ctrl_tlv(), max_size=2),
        "nulls": st.integers(0, 7),
        "filler": st.sampled_from([0x00, 0xFF, 0x03])})


def t1t_big():
    return st.fixed_dictionaries({
        "kind": st.just("t1t"),
        "size": st.sampled_from([14, 40, 63, 80, 127]),
        "extra": st.just(0), "hr1": st.sampled_from([0x00, 0x4C]),
        "ctrl": st.lists(tc.ctrl_tlv(), max_size=2),
        "nulls": st.integers(0, 9),
        "filler": st.sampled_from([0x00, 0xFF, 0x03])})


def t4_len():
    """lengths around the single-command limit NLEN+L <= MLc"""
    return st.one_of(c02_len(), st.tuples(st.just("mlc"),
                                          st.integers(-6, 2)))


def t4t_desc():
    def fix(d):
        nl = 4 if d["ver"] >> 4 == 3 else 2
        d["mlc"] = max(d["mlc"], nl)
        d["fsize"] = min(d["fsize"], 3000)
        return d
    return tc.t4t_desc().map(fix)


def case_strategy(desc, tier, lens=None):
    lens = lens or c02_len()
    return st.fixed_dictionaries({
        "tag": desc, "old": lens, "old_seed": st.integers(0, 255),
        "new": lens, "new_seed": st.integers(0, 255),
        "cuts": st.just("all" if tier == "thorough" else "edges")})


def set_image(b, snap):
    k = b.kind
    if k in ("t1t", "t2t"):
        b.tag.mem[:] = snap
    elif k == "t3t":
        for i in range(len(b.tag.blocks)):
            b.tag.blocks[i][:] = snap[16 * i:16 * i + 16]
    elif k == "t3e":
        b.tag.data[:] = snap
    else:
        b.app.ndef_file[:] = snap


def fresh_read(case, snap):
    """fresh tag object with the given memory, fresh frontend, fresh
    activation -> ('none'|'octets', bytes) and the reference reader's view"""
    b = tc.build(case["tag"], case["old"], case["old_seed"])
    set_image(b, snap)
    raised = None
    try:
        clf, tag = tc.activate(b)
        ndef = tag.ndef if tag is not None else None
        lib = None if ndef is None or not ndef.is_readable else ndef.octets
    except Exception as e:
        # a reader that raises did not deliver a message: "not readable"
        # here; that reading arbitrary memory must not raise is C08's matter
        unexpected(e)           # (a harness failure still surfaces)
        lib, raised = None, type(e).__name__
    return lib, b.ref_read(), raised


def classify(x, old, new):
    if x is None:
        return "unreadable"
    if x == b"":
        return "empty"
    if x == new:
        return "new"
    if x == old:
        return "old"
    return "MIXTURE"


def run(case, ctx):
    desc = case["tag"]
    b = tc.build(desc, case["old"], case["old_seed"])
    if b is None:
        ctx.label("layout-without-room")
        return
    kind = tc.classify(desc)
    ctx.label(kind)
    old = b.old
    try:
        clf, tag = tc.activate(b)
        ndef = tag.ndef
        cap = ndef.capacity
    except Exception as e:
        raise unexpected(e, "setup-raises")
    if case["new"][0] == "mlc":
        # relative to the effective command data limit of short APDUs
        L = max(0, min(min(desc.get("mlc", 255), 255) + case["new"][1], cap))
    else:
        L = min(tc.resolve_len(case["new"], cap), cap)
    new = tc.message(L, case["new_seed"] ^ 0x80)
    if kind.startswith("t4t") and desc["ver"] == 0x30 and \
            desc["fsize"] > 0xFFFF:
        ctx.label("skipped:file>64k")
        return
    ctx.set_class("%s/new-length-%s" % (desc["kind"],
                                        "3-byte" if L >= 255 else "1-byte"))
    b.tag.snaps = [bytes(b.tag.mem)]
    try:
        ndef.octets = new
    except Exception as e:
        raise unexpected(e, "write-raises")
    if getattr(b.tag, "exc", None) is not None:
        raise unexpected(b.tag.exc, "emulation-raises")
    snaps = b.tag.snaps
    n = len(snaps) - 1
    if n != b.tag.writes:
        raise HarnessError("snapshot count %d != writes %d" % (n, b.tag.writes))
    if case["cuts"] == "all" or n <= 40:
        ks = list(range(0, n + 1))
        ctx.label("cuts-exhaustive")
    else:
        ks = sorted(set(list(range(0, 14)) + list(range(n - 13, n + 1)) +
                        list(range(14, n - 13, max(1, (n - 27) // 12)))))
        ctx.label("cuts-edges+sampled")
    # harness self check: a real power cut leaves exactly the snapshot
    for k in sorted(set([n // 2, max(0, n - 1)])):
        b2 = tc.build(desc, case["old"], case["old_seed"])
        b2.tag.cut_after = k
        try:
            clf2, tag2 = tc.activate(b2)
            tag2.ndef.octets = new
        except Exception:
            pass
        if bytes(b2.tag.mem) != snaps[k]:
            raise HarnessError("cut at %d differs from snapshot" % k)
    seen = {}
    for k in ks:
        key = snaps[k]
        if key in seen:
            lib, ref, raised = seen[key]
        else:
            lib, ref, raised = seen[key] = fresh_read(case, snaps[k])
            if raised:
                ctx.label("reader-raised:" + raised)
        for who, x in (("library-reader", lib), ("reference-reader", ref)):
            c = classify(x, old, new)
            if k == 0 and c not in ("old",) and not (old == b"" and
                                                     c == "empty"):
                if not (old == new and c == "new"):
                    raise Violation("cut-at-0-not-old", "%s sees %s" % (who, c))
            if k == n and c != "new" and not (new == b"" and c == "empty") \
                    and not (old == new and c == "old"):
                raise Violation("complete-write-not-new",
                                "%s sees %s after all %d commands"
                                % (who, c, n))
            if c == "MIXTURE":
                if b.kind in ("t1t", "t2t"):
                    # is the cut inside the final update of the length field
                    # (memory differs from the final image only in the up
                    # to three length bytes of the NDEF TLV)?
                    off = b.info["tlv_off"]
                    lenbytes = set(range(off + 1, off + 4))
                    diff = [a for a in range(len(snaps[n]))
                            if snaps[k][a] != snaps[n][a]]
                    ctx.set_class("%s/new-length-%s/cut-%s-length-update" % (
                        b.kind, "3-byte" if L >= 255 else "1-byte",
                        "inside" if set(diff) <= lenbytes else "before"))
                raise Violation(
                    "mixture", "%s after cut %d of %d sees %d bytes (old %d, "
                    "new %d), common prefix with new %d: %r"
                    % (who, k, n, len(x), len(old), len(new),
                       _prefix(x, new), desc))
            ctx.label(c)
    if n >= 2 and old != new and L > 0:
        ctx.nontrivial()
    ctx.note({"writes": n, "cuts": len(ks), "old": len(old), "new": L})


def _prefix(a, b):
    i = 0
    for x, y in zip(a, b):
        if x != y:
            break
        i += 1
    return i


def _leg(name, desc, quick, thorough, lens=None):
    return Leg(name, run=run,
               gen=lambda tier: case_strategy(desc, tier, lens),
               quick=quick, thorough=thorough, shards_quick=4,
               shards_thorough=16, nt_floor=0.15,
               rule="(%s layout, old, new) triples biased to unaligned NDEF "
                    "TLV offsets and lengths on both sides of 254/255; every "
                    "cut point k=0..n of the write is read by a fresh reader "
                    "(quick tier: all k when n<=40, else first/last 14 + 12 "
                    "in between); one evaluation = one triple with all its "
                    "cuts; non-trivial = n>=2, old!=new, new non-empty."
                    % name)


LEGS = [
    _leg("t2t", st.one_of(t2t_big(), t2t_big(), t2t_desc()), 400, 4000),
    _leg("t1t", st.one_of(t1t_big(), t1t_big(), tc.t1t_desc()), 300, 4000),
    _leg("t3t", tc.t3t_desc("t3t"), 300, 4000),
    _leg("t3e", tc.t3t_desc("t3e"), 200, 3000),
    _leg("t4t", t4t_desc(), 300, 4000, t4_len()),
]
