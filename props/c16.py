"""C16 - tag commands retry transient errors and fail only as TagCommandError.

A *fixture* is a simulated tag (fixed small layout, or generated) plus one
operation of the tag object.  One fault-free run yields the exchange sequence
(n exchanges after activation), the result and the final tag memory.  Then a
communication fault is injected:

   position k < n  x  kind {timeout, transmission, protocol}
                   x  burst {1, 2, 3, 4, persistent}
                   x  phase {command lost, response lost}

Oracles
 (a) the operation returns normally (including the documented None / False)
     or raises nfc.tag.TagCommandError - never a raw CommunicationError or
     any other exception type
 (b) burst below the retry budget (3 attempts on Type 1-3 -> bursts 1 and 2;
     Type 4: floor((budget+1)/2) with the FWI derived budget): result, final
     tag memory and the sequence of *answered* commands are identical to the
     fault-free run (so no answered command is sent again and nothing is
     skipped)
 (c) persistent error: a raised TagCommandError carries the reason code of the
     injected kind (TIMEOUT_ERROR / RECEIVE_ERROR / PROTOCOL_ERROR)
 (e) no command is attempted more often than the budget in a row

NXP personalities (nfc/tag/tt2_nxp.py, simulators in vlib.simnxp): Mifare
Ultralight, Ultralight C (3DES mutual authentication, AUTH0 / AUTH1, key
pages), NTAG203, Ultralight EV1 MF0UL(H)11 / MF0UL(H)21, NTAG210 / 212 / 213 /
215 / 216 and NTAG I2C 1k / 2k are fixtures of the legs enum, mixed,
generated, mixed_generated (table NXP, strategy nxp_desc) and of the
re-activation legs: every operation the class offers (NDEF read / write,
is_present, format of a formatted and of a blank tag, dump, protect with lock
bits / password / empty password / read protection / a short password,
authenticate with the right / a wrong / the ex works / a short password,
authenticate followed by NDEF read, NDEF write, dump on a protected tag,
signature, raw read / write, session registers behind a SECTOR SELECT).  An
operation whose fault-free run ends with a TagCommandError because the tag
refuses a command (a page behind AUTH0) must end with the same error after an
absorbed burst.

History legs (felica_hist_enum, felica_hist): several operations on ONE FeliCa
Lite / Lite-S tag object (authenticate with the right / a wrong key, NDEF
read / re-read / write, read_with_mac, plain and MAC'd block writes, presence
check) with one error burst at a command position of one of them.  The tag
object carries session state from one operation to the next, so oracle (a)
is applied to the faulted operation AND to every later one; (b) compares the
whole history with its fault-free run; an authenticate that starts after the
burst must give the result the tag's key dictates.

History leg mem_hist: several NDEF level operations on ONE Type 1 / Type 2
tag object, one of them with an error burst, the others fault-free.  The
clause "a command that was answered is not sent again" is judged ACROSS the
operations (the tag object's memory image lives on): no write command may
reach the tag that is identical to the last write command the tag executed
and answered for the same memory unit - see _WriteWatch.

Mixed-kind legs (mixed, mixed_generated): the errors of one burst are NOT all
of the same kind - a sequence over {timeout, transmission, protocol} of
length 2..4 with command or response lost per element (a garbled frame, then
silence: a tag pulled out of the field in the middle of a command),
optionally with its last element persisting from then on - at a command
position of every operation of every tag type.  Oracles (a), (b), (e) as
above; (c) when the operation ends with a TagCommandError right after an
exchange that failed, the reason code is that of the error of this LAST
attempt (the error that persisted), not of an earlier attempt.

Re-activation legs (reactivate_enum, reactivate): the Type 2 tag code senses
the tag again after a NAK and after protect(password).  Faults there - tag
not found, communication error inside sense(), tag out of the field from an
event position counted over commands and polls - followed by FURTHER
operations on the same tag object: oracle (a) on every one of them.
"""
import collections
import contextlib
import functools
import io
import os

from hypothesis import strategies as st

import nfc.tag
import nfc.tag.tt1
import nfc.tag.tt2
import nfc.tag.tt2_nxp
import nfc.tag.tt3
import nfc.tag.tt3_sony
import nfc.tag.tt4

from vlib import isodep_card, ref_felica, simfelica, simntag, simnxp, tagdev
from vlib import vsched
from vlib.engine import HarnessError, Leg, Violation, unexpected, twin_env
from props import tagcommon as tc

PROPERTY = "C16"
LEVEL = "fault_enumeration"
ASSUMPTIONS = [
    "faults are injected after activation; the second packet of the Type 2 "
    "SECTOR SELECT (passive acknowledge = silence) is exempt from oracle (b) "
    "because a lost command cannot be told from the acknowledgement",
    "FeliCa Lite-S MAC'd writes with 'response lost' are not idempotent (WCNT "
    "advanced): a TagCommandError is accepted there",
    "simulators as in C01 / C20",
    "NXP personalities: simulators of vlib.simnxp (command sets, page "
    "layouts and access conditions after the NXP data sheets as far as "
    "nfc/tag/tt2_nxp.py depends on them; AUTH0 / AUTH1 / key / PWD changes "
    "take effect with the next activation); the tag side of the Ultralight C "
    "authentication reproduces the transcript recorded in "
    "tests/test_tag_tt2_nxp.py",
    "commands that cannot be repeated with the fault-free outcome are exempt "
    "from oracle (b): the AFh step of the Ultralight C authentication when "
    "the tag executed it and the response was lost (the tag has left the "
    "authentication sequence and refuses the repetition, authenticate() "
    "returns the documented False); a command the tag refuses with a NAK when "
    "that response was lost (the tag is in HALT state, the repetition times "
    "out); a command the tag refuses by silence (every attempt of the "
    "fault-free run is a timeout already)",
    "the AFh commands of two runs differ by the tag's fresh challenge: for "
    "'no answered command is sent again' they are compared by command code",
    "a password shorter than documented (Ultralight C < 16, NTAG21x < 6 "
    "byte) is answered with ValueError as documented",
    "history legs (felica_hist*): the tag holds the key of the password used, "
    "protect() is not part of the histories (what a CK write does to a running "
    "session is an approximation in the simulator); the fault-free run of the "
    "same history is the reference for bursts below the retry budget",
    "history leg mem_hist: which write commands the tag executed and which "
    "unit they addressed is taken from the simulator's write log; a write "
    "command that got no answer (lost, refused) voids what the reader knows "
    "about its unit; format() works on a memory view of its own (Topaz: a "
    "new memory image), the judgement restarts after it; the second packet "
    "of the Type 2 SECTOR SELECT is never faulted (as in enum)",
    "re-activation legs: a tag that is out of the field answers neither "
    "polls nor commands and keeps its memory; a communication error inside "
    "the driver's sense_tta is reported by ContactlessFrontend.sense() as "
    "'no target' (its documented behaviour); faults start after the tag "
    "object exists (activation itself is not faulted); only Type 2 tag code "
    "re-activates (tt2.py, tt2_nxp.py - no clf.sense in the other tag "
    "modules)",
]

ERRNO = {"timeout": nfc.tag.TIMEOUT_ERROR, "transmission": nfc.tag.RECEIVE_ERROR,
         "protocol": nfc.tag.PROTOCOL_ERROR}
KINDS = ("timeout", "transmission", "protocol")
ERRNO["empty"] = nfc.tag.RECEIVE_ERROR
BURSTS = (1, 2, 3, 4, 0)          # 0 = persistent
PHASES = ("cmd", "rsp")


def setup():
    vsched.patch_nfc()
    # The history legs repeat the same seeded challenges thousands of times
    # and pyDes needs ~0.4 ms per DES block: memoise the simulator's pure
    # single block 3DES (vlib.ref_felica.ede2_encrypt) inside this process.
    # The code under test is not touched.
    if not getattr(ref_felica.ede2_encrypt, "memoised", False):
        cached = functools.lru_cache(maxsize=1 << 16)(ref_felica.ede2_encrypt)

        def ede2_encrypt(k1, k2, block):
            return cached(bytes(k1), bytes(k2), bytes(block))
        ede2_encrypt.memoised = True
        ref_felica.ede2_encrypt = ede2_encrypt


def quiet(fn, *a, **kw):
    with contextlib.redirect_stdout(io.StringIO()):
        return fn(*a, **kw)


# ------------------------------------------------------------------ fixtures
T2 = {"kind": "t2t", "size": 12, "extra": 8, "nulls": 1, "filler": 0,
      "ctrl": [{"t": 1, "page": 7, "offs": 0, "size": 12, "bpp": 4}]}
T2BIG = {"kind": "t2t", "size": 130, "extra": 0, "nulls": 0, "filler": 0,
         "ctrl": []}
T1S = {"kind": "t1t", "size": 14, "extra": 0, "hr1": 0x00, "ctrl": [],
       "nulls": 0, "filler": 0}
T1TOPAZ = dict(T1S, hr1=0x48)
T1D = {"kind": "t1t", "size": 31, "extra": 0, "hr1": 0x00, "nulls": 1,
       "filler": 0, "ctrl": []}
T1TOPAZ512 = {"kind": "t1t", "size": 63, "extra": 0, "hr1": 0x4C, "nulls": 0,
              "filler": 0,
              "ctrl": [{"t": 1, "page": 15, "offs": 2, "size": 48, "bpp": 3},
                       {"t": 2, "page": 15, "offs": 0, "size": 2, "bpp": 3}]}
T3 = {"kind": "t3t", "ver": 0x10, "nbr": 3, "nbw": 2, "nmaxb": 6,
      "phys_extra": 0, "nbr_extra": 1, "nbw_extra": 1, "filler": 0}
T4A = {"kind": "t4t", "tech": "A", "ver": 0x20, "mle": 40, "mlc": 30,
       "fsize": 120, "phys_extra": 8, "fsci": 2, "fwi": 4, "chunk": 11,
       "wtx": 0, "max_send": 290, "max_recv": 290, "filler": 0}
T4B = dict(T4A, tech="B", fsci=5, chunk=None, ver=0x30, fwi=8)
T4SLOW = dict(T4A, fwi=12)
# a card that asks for a waiting time extension before every answer (the
# S(WTX) answer of the reader is one more exchange that can fail)
T4WTX = dict(T4A, wtx=1, wtxm=0x41)

OPS = {
    "t1t": ["ndef", "write", "present", "dump", "protect",
            "raw:read_id", "raw:read_all", "raw:read_byte", "raw:write_byte"],
    "t1t-dyn": ["ndef", "write", "present", "protect", "raw:read_block",
                "raw:write_block", "raw:read_segment"],
    "topaz": ["format", "format-wipe", "protect", "dump"],
    "topaz512": ["format", "format-wipe", "protect"],
    "t2t": ["ndef", "write", "present", "format", "format-wipe", "protect",
            "dump", "raw:read", "raw:write"],
    "t2t-big": ["ndef", "write-big", "raw:sector_select"],
    "t3t": ["ndef", "write", "present", "format", "format-wipe",
            "format-default", "dump", "raw:polling", "raw:read", "raw:write"],
    "t4t": ["ndef", "write", "present", "format-wipe", "dump", "raw:apdu"],
    "ntag": ["ndef", "write", "present", "format", "protect", "protect-pw",
             "auth", "dump"],
    "lite": ["ndef", "write", "present", "format", "protect-pw",
             "protect-pw-str", "auth", "dump"],
    "lites": ["ndef", "write", "present", "format", "protect-pw",
              "protect-pw-str", "auth", "dump"],
}

FIXTURES = {
    "t1t": T1S, "t1t-dyn": T1D, "topaz": T1TOPAZ, "topaz512": T1TOPAZ512,
    "t2t": T2, "t2t-big": T2BIG, "t3t": T3, "t4t": T4A, "t4t-b": T4B,
    "t4t-slow": T4SLOW, "t4t-wtx": T4WTX,
}
OPS["t4t-b"] = ["ndef", "write", "present"]
OPS["t4t-slow"] = ["ndef", "present"]
OPS["t4t-wtx"] = ["ndef", "write", "format-wipe"]

PW = b"0123456789abcdef"
PW2 = b"fedcba9876543210"

# NXP personalities of nfc/tag/tt2_nxp.py (vlib.simnxp): fixture -> simulator
# parameters.  "key": the tag holds PW (Ultralight C: the 16 byte 3DES key,
# PWD_AUTH products: PWD = PW[0:4], PACK = PW[4:6]) instead of the ex works
# secret; auth0 / prot: first protected page / read protection; cc3: byte 3 of
# the capability container (88h / 08h = what protect(password) leaves);
# ndef: message length | "blank" (capability container, empty data area).
NXP = {
    "ul": {"product": "UL"},
    "ulc": {"product": "ULC"},
    "ulc-prot": {"product": "ULC", "key": True, "auth0": 3, "prot": True,
                 "cc3": 0x88},
    "ulc-wprot": {"product": "ULC", "key": True, "auth0": 3, "prot": False,
                  "cc3": 0x08},
    "ntag203": {"product": "NTAG203"},
    "ntag203-blank": {"product": "NTAG203", "ndef": "blank"},
    "ev1-11": {"product": "MF0UL11"},
    "ev1-h11": {"product": "MF0ULH11", "nak": "mute"},
    "ev1-21": {"product": "MF0UL21"},
    "ev1-h21": {"product": "MF0ULH21", "nak": "mute"},
    "ntag210": {"product": "NTAG210"},
    "ntag210-prot": {"product": "NTAG210", "key": True, "auth0": 3,
                     "prot": True, "cc3": 0x88},
    "ntag210-blank": {"product": "NTAG210", "ndef": "blank"},
    "ntag212": {"product": "NTAG212"},
    "ntag212-blank": {"product": "NTAG212", "ndef": "blank"},
    "ntag213-blank": {"product": "NTAG213", "ndef": "blank"},
    "ntag215": {"product": "NTAG215", "nak": "mute"},
    "ntag215-blank": {"product": "NTAG215", "ndef": "blank"},
    "ntag216": {"product": "NTAG216"},
    "ntag216-blank": {"product": "NTAG216", "ndef": "blank"},
    "i2c1k": {"product": "NT3H1101"},
    "i2c2k": {"product": "NT3H1201"},
}
OPS.update({
    "ul": ["ndef", "write", "present", "format", "format-wipe", "protect",
           "protect-pw", "auth", "dump", "raw:read", "raw:write"],
    "ulc": ["ndef", "write", "present", "format", "format-wipe", "protect",
            "protect-pw", "protect-pw-read", "protect-empty", "protect-short",
            "auth", "auth-empty", "auth-short", "dump", "raw:read",
            "raw:write"],
    "ulc-prot": ["ndef", "present", "auth", "auth-other", "auth-ndef",
                 "auth-write", "auth-dump", "dump", "protect", "raw:read"],
    "ulc-wprot": ["ndef", "auth-write", "raw:write"],
    "ntag203": ["ndef", "write", "present", "format", "format-wipe",
                "protect", "protect-pw", "auth", "dump", "raw:read",
                "raw:write"],
    "ntag203-blank": ["format", "protect"],
    "ev1-11": ["ndef", "write", "present", "format", "protect", "protect-pw",
               "protect-short", "auth", "auth-empty", "auth-short", "dump",
               "signature"],
    "ev1-h11": ["dump"],
    "ev1-21": ["ndef", "protect", "protect-pw-read", "dump", "signature"],
    "ev1-h21": ["dump"],
    "ntag210": ["ndef", "write", "format", "protect", "protect-pw",
                "protect-empty", "auth-empty", "dump", "signature"],
    "ntag210-prot": ["ndef", "auth", "auth-other", "auth-ndef", "auth-write",
                     "auth-dump", "dump", "protect"],
    "ntag210-blank": ["format"],
    "ntag212": ["ndef", "format", "protect", "protect-pw-read", "dump",
                "signature"],
    "ntag212-blank": ["format"],
    "ntag213-blank": ["format"],
    "ntag215": ["ndef", "protect", "protect-pw", "dump"],
    "ntag215-blank": ["format"],
    "ntag216": ["protect-pw", "dump"],
    "ntag216-blank": ["format"],
    "i2c1k": ["ndef", "write", "present", "format", "protect", "protect-pw",
              "auth", "dump", "raw:session"],
    "i2c2k": ["ndef", "write", "protect", "dump"],
})
OPS["ntag"] = OPS["ntag"] + ["signature", "auth-empty", "auth-short",
                             "protect-short"]


def nxp_sim(spec):
    p = spec["product"]
    nd = spec.get("ndef", 20)
    kw = {"nak": "byte" if p == "NTAG203" else spec.get("nak", "byte")}
    auth0 = spec.get("auth0")
    if p == "ULC":
        kw.update(key=PW if spec.get("key") else None,
                  auth0=0x30 if auth0 is None else auth0,
                  read_protect=bool(spec.get("prot", True)),
                  cc3=spec.get("cc3", 0))
    elif p in simnxp.PWD_AUTH:
        kw.update(auth0=0xFF if auth0 is None else auth0,
                  prot=bool(spec.get("prot", False)))
        if spec.get("key"):
            kw.update(pwd=PW[0:4], pack=PW[4:6])
        if spec.get("cc3") is not None:
            kw.update(cc3=spec["cc3"])
    return simnxp.make(p, ndef=tc.message(nd, 3) if isinstance(nd, int)
                       else nd, **kw)


class Fx(object):
    pass


class NoRoom(Exception):
    """generated layout without room for an NDEF TLV"""


def make(fixture, desc=None):
    """-> Fx(tag sim, kind, budget, mem() snapshot function, dev_kw)"""
    f = Fx()
    f.name = fixture
    f.dev_kw = {}
    f.budget = 3
    if fixture in ("ntag",):
        f.sim = simntag.make("NTAG213", ndef=tc.message(20, 3))
        f.kind = "t2t"
        f.mem = lambda: bytes(f.sim.mem)
        f.expect = nfc.tag.tt2_nxp.NTAG213
        return f
    if (desc or {}).get("kind") == "nxp" or (desc is None and fixture in NXP):
        spec = desc or NXP[fixture]
        f.sim = nxp_sim(spec)
        f.kind = "t2t"
        f.mem = lambda: bytes(f.sim.mem)
        f.expect = getattr(nfc.tag.tt2_nxp, simnxp.EXPECT[spec["product"]])
        return f
    if fixture in ("lite", "lites"):
        f.sim = simfelica.make(fixture, key=PW, ndef=True)
        f.kind = "t3t"
        f.mem = lambda: b"".join(bytes(f.sim.mem[k])
                                 for k in sorted(f.sim.mem))
        return f
    desc = desc or FIXTURES[fixture]
    b = tc.build(desc, ("abs", 21), 5)
    if b is None:
        raise NoRoom()
    f.sim, f.kind, f.b = b.tag, desc["kind"], b
    f.dev_kw = b.dev_kw
    f.mem = lambda: bytes(b.tag.mem)
    if desc["kind"] == "t4t":
        fwt = 4096 / 13.56E6 * (2 ** desc["fwi"])
        f.budget = min(int(1 / fwt), 5)
    return f


def do_op(tag, op, f):
    """run one operation; returns a comparable result"""
    if op == "ndef":
        n = tag.ndef
        return None if n is None else bytes(n.octets)
    if op in ("write", "write-big"):
        n = tag.ndef
        if n is None:
            return "no-ndef"
        if not n.is_writeable:
            return "read-only"
        ln = 300 if op == "write-big" else min(33, n.capacity)
        n.octets = tc.message(ln, 9)
        return "written"
    if op == "present":
        return tag.is_present
    if op == "format":
        if isinstance(tag, nfc.tag.tt3.Type3Tag) and \
                type(tag) is nfc.tag.tt3.Type3Tag:
            return quiet(tag.format, version=0x10)
        return quiet(tag.format)
    if op == "format-default":
        return quiet(tag.format)
    if op == "format-wipe":
        if type(tag) is nfc.tag.tt3.Type3Tag:
            return quiet(tag.format, version=0x10, wipe=0x5A)
        return quiet(tag.format, wipe=0x5A)
    if op == "protect":
        return tag.protect()
    if op == "protect-pw":
        return tag.protect(PW)
    if op == "protect-pw-str":
        return tag.protect(PW.decode("ascii"))
    if op == "protect-pw-read":
        return tag.protect(PW, True, 5)
    if op == "protect-empty":
        return tag.protect(b"")
    if op in ("protect-short", "auth-short"):
        # documented: "a password length between 1 and 15 generates a
        # ValueError" (Ultralight C), "must be ... at least 6 byte" (NTAG21x)
        try:
            return tag.protect(b"abc") if op == "protect-short" else \
                tag.authenticate(b"abc")
        except ValueError:
            return "value-error"
    if op == "auth":
        return tag.authenticate(PW)
    if op == "auth-empty":
        return tag.authenticate(b"")
    if op == "auth-other":
        return tag.authenticate(PW2)
    if op == "auth-ndef":
        a, n = tag.authenticate(PW), tag.ndef
        return (a, None if n is None else bytes(n.octets))
    if op == "auth-write":
        a, n = tag.authenticate(PW), tag.ndef
        if n is None:
            return (a, "no-ndef")
        if not n.is_writeable:
            return (a, "read-only")
        n.octets = tc.message(min(33, n.capacity), 9)
        return (a, "written")
    if op == "auth-dump":
        return (tag.authenticate(PW), list(tag.dump()))
    if op == "dump":
        return list(tag.dump())
    if op == "signature":
        return bytes(tag.signature)
    if op == "raw:session":
        a = tag.sector_select(3)
        r = bytes(tag.read(0xF8))
        return (a, r, tag.sector_select(0))
    if op == "raw:read_id":
        return bytes(tag.read_id())
    if op == "raw:read_all":
        return bytes(tag.read_all())
    if op == "raw:read_byte":
        return tag.read_byte(20)
    if op == "raw:write_byte":
        return bytes(tag.write_byte(20, 0x77))
    if op == "raw:read_block":
        return bytes(tag.read_block(17))
    if op == "raw:write_block":
        return tag.write_block(17, bytearray(b"ABCDEFGH"))
    if op == "raw:read_segment":
        return bytes(tag.read_segment(1))
    if op == "raw:read":
        if f.kind == "t2t":
            return bytes(tag.read(5))
        return bytes(tag.read_from_ndef_service(1, 2))
    if op == "raw:write":
        if f.kind == "t2t":
            return tag.write(8, bytearray(b"WXYZ"))
        return tag.write_to_ndef_service(bytearray(range(16)), 2)
    if op == "raw:sector_select":
        a = tag.sector_select(1)
        r = bytes(tag.read(2))
        return (a, r, tag.sector_select(0))
    if op == "raw:polling":
        return [bytes(x) for x in tag.polling(0x12FC)]
    if op == "raw:apdu":
        return bytes(tag.send_apdu(0x00, 0xEE, 0x00, 70, bytes(range(40)),
                                   check_status=False))
    raise ValueError(op)


def execute(fixture, op, fault, desc=None):
    """one run. fault = None | (k, kind, burst, phase).  returns dict"""
    f = make(fixture, desc)
    vsched.seed_urandom(7)
    clf, tag = tagdev.activate(f.sim, **f.dev_kw)
    if tag is None:
        raise Violation("activation-failed", fixture)
    if not isinstance(tag, getattr(f, "expect", nfc.tag.Tag)):
        raise Violation("activation-failed", "%s: activated as %s, not as %s"
                        % (fixture, type(tag).__name__, f.expect.__name__))
    dev = clf.device
    base = dev.exchanges
    if fault is not None and fault[0] == "seq":
        _, k, seq, tail = fault
        dev.script = _SeqScript(base + 1 + k, seq, tail)
    elif fault is not None:
        k, kind, burst, phase = fault
        last = base + 1 + k + (burst if burst else 100000)
        dev.script = _Script(base + 1 + k, last, kind, phase)
    out = {"tag": type(tag).__name__}
    try:
        out["result"] = do_op(tag, op, f)
    except nfc.tag.TagCommandError as e:
        out["error"] = e
    except Exception as e:
        out["other"] = e
    finally:
        vsched.seed_urandom(None)
    out["mem"] = f.mem()
    out["xlog"] = dev.xlog[base:]
    out["n"] = dev.exchanges - base
    out["budget"] = f.budget
    out["f"] = f
    return out


class _Script(object):
    """fault on every exchange index in [first, last)"""

    def __init__(self, first, last, kind, phase):
        self.first, self.last, self.kind, self.phase = first, last, kind, phase

    def get(self, idx):
        if isinstance(idx, int) and self.first <= idx < self.last:
            return (self.kind, self.phase)
        return None


class _SeqScript(object):
    """exchange first+i fails with seq[i] = (kind, phase); with tail the last
    element goes on failing every later exchange"""

    def __init__(self, first, seq, tail):
        self.first, self.seq, self.tail = first, [tuple(x) for x in seq], tail

    def get(self, idx):
        if not isinstance(idx, int) or idx < self.first:
            return None
        i = idx - self.first
        if i < len(self.seq):
            return self.seq[i]
        return self.seq[-1] if self.tail else None


def answered(xlog):
    return [cmd for _, cmd, rsp, _ in xlog if isinstance(rsp, bytes)]


def is_sector_select_2(xlog, k):
    """exchange k (0-based after activation) is the second SECTOR SELECT
    packet when the previous command was C2 FF"""
    return k > 0 and xlog[k - 1][1] == b"\xC2\xFF"



def desc_wtx(fixture, desc):
    d = desc if desc is not None else FIXTURES.get(fixture, {})
    return bool(d.get("wtx"))


def _hits_wtx(xlog):
    """a fault of this run hit the waiting time extension exchange of a Type 4
    card: the reader's S(WTX) answer was lost, its answer was lost, or the
    card's S(WTX) request itself (the known ISO-DEP finding: that exchange is
    outside the retry loops)"""
    prev = None
    for e in xlog:
        cmd, rsp = e[1], e[2]
        if isinstance(rsp, str) and rsp.startswith("ERR:"):
            if (cmd and bytes(cmd)[:1] == b"\xF2") or \
                    (prev is not None and prev[:1] == b"\xF2"):
                return True
            # the answer that was lost may have been the S(WTX) request
            if cmd and bytes(cmd)[0] & 0xE2 == 0x02 and e[3] == "rsp":
                return "maybe"
        prev = bytes(rsp) if isinstance(rsp, (bytes, bytearray)) else None
    return False

def _known_locally(exc, tagname, ctx):
    """a class of its own for the (repaired, fde77b7) Ultralight EV1 defect:
    protect() of NTAG21x needs self._cfgpage, which no MifareUltralightEV1
    class used to set; nothing is excluded"""
    if isinstance(exc, AttributeError) and "_cfgpage" in str(exc) and \
            tagname.startswith("MF0UL"):
        ctx.set_class("ev1/protect")
    return False


_fixed_ref = {}


def reference(fixture, op, desc):
    """the fault-free run; memoised for the fixed fixtures (it is a pure
    function of fixture and op)"""
    key = (fixture, op)
    if desc is None and key in _fixed_ref:
        return _fixed_ref[key]
    ref = execute(fixture, op, None, desc)
    if desc is None:
        _fixed_ref[key] = ref
    return ref


def _refused(rsp):
    """the tag's answer to a command it does not execute: NAK or silence"""
    return rsp is None or (isinstance(rsp, bytes) and len(rsp) == 1
                           and rsp[0] & 0xFA == 0x00)


def _ulc_af(f, cmd):
    """second step of the Ultralight C authentication"""
    return f.kind == "t2t" and bool(cmd) and cmd[0] == 0xAF and len(cmd) == 17


def _once(ref, k, response_lost):
    """the command at position k of the fault-free run cannot be repeated
    with the fault-free outcome, by the nature of the tag (see ASSUMPTIONS):
    * the tag refused it by silence (a "mute" NAK: every attempt of the
      fault-free run is a timeout already, the burst only takes the place of
      some of these attempts)
    * the tag executed it and the response was lost, for the AFh step of the
      Ultralight C authentication (the tag is not waiting for it any more) and
      for the command the tag refused with a NAK (it is in HALT state then)"""
    cmd, rsp = ref["xlog"][k][1], ref["xlog"][k][2]
    if rsp is None and ref["f"].kind == "t2t" and \
            not is_sector_select_2(ref["xlog"], k):
        return True
    return response_lost and (_ulc_af(ref["f"], cmd) or (
        "error" in ref and k == ref["n"] - 1 and _refused(rsp)))


def _same_commands(f, xlog):
    """answered commands for the 'not sent again' comparison.  The AFh step
    of the Ultralight C authentication carries the tag's fresh challenge: it
    is compared by its command code"""
    return collections.Counter(
        b"\xAF" if _ulc_af(f, cmd) else cmd for cmd in answered(xlog))


def check(case, ctx):
    fixture, op = case["fixture"], case["op"]
    desc = case.get("desc")
    ctx.label(fixture + ":" + op)
    ctx.set_class("%s/%s" % (fixture, op))
    try:
        ref = reference(fixture, op, desc)
    except NoRoom:
        ctx.label("layout-without-room")
        return None
    if "other" in ref:
        if _known_locally(ref["other"], ref["tag"], ctx):
            return None
        raise unexpected(ref["other"], "fault-free-op-raises")
    if case.get("fault") is None:
        ctx.note({"exchanges": ref["n"], "tag": ref["tag"]})
        return ref
    k, kind, burst, phase = case["fault"]
    if case.get("kmod") and ref["n"]:
        k = k % ref["n"]
    if k >= ref["n"]:
        ctx.label("fault-beyond-operation")
        return ref
    cls = "%s/%s/%s-%s%s" % (fixture, op, kind, phase,
                             "" if burst else "-persistent")
    if ref["f"].kind == "t4t" and op == "present":
        cls = "t4t/presence-check"
    elif ref["f"].kind == "t4t" and kind == "protocol" and burst:
        cls = "t4t/protocol-error-burst"
    ctx.set_class(cls)
    run = execute(fixture, op, (k, kind, burst, phase), desc)
    if ref["f"].kind == "t4t" and desc_wtx(fixture, desc) and \
            _hits_wtx(run["xlog"]):
        ctx.set_class("t4t/wtx-exchange")
    budget = run["budget"]
    target_cmd = ref["xlog"][k][1]
    ss2 = ref["f"].kind == "t2t" and is_sector_select_2(ref["xlog"], k)
    # not repeatable by the nature of the tag (see ASSUMPTIONS): the AFh step
    # of the Ultralight C authentication once the tag has executed it, and a
    # command the tag refused (it is in HALT state then)
    once = _once(ref, k, phase == "rsp")
    statechange = bool(ref["xlog"][k][1]) and _is_write(ref["f"], target_cmd)
    if k == 0 or statechange:
        ctx.nontrivial()
    # (a)
    if "other" in run:
        # (an exception that is no TagCommandError is never part of the
        # known waiting-time-extension finding: back to the plain class)
        ctx.set_class(cls)
        if _known_locally(run["other"], run["tag"], ctx):
            return None
        raise unexpected(run["other"], "raw-or-unrelated-exception",
                         detail="fault %r on command %s" % (
                             case["fault"], (target_cmd or b"").hex()[:40]))
    is_t4 = ref["f"].kind == "t4t"
    absorb = (budget + 1) // 2 if is_t4 else budget - 1
    if burst and burst <= absorb and not ss2 and once:
        ctx.label("burst-below-budget:command-not-repeatable")
    elif burst and burst <= absorb and not ss2:
        ctx.label("burst-below-budget")
        # (b)
        if "error" in ref:
            # the tag refuses a command of the fault-free operation: the
            # absorbed burst leaves exactly that TagCommandError
            ctx.label("fault-free-run-ends-with-TagCommandError")
            if "error" not in run or \
                    run["error"].errno != ref["error"].errno or \
                    type(run["error"]) is not type(ref["error"]):
                raise Violation("result-differs-from-fault-free",
                                "burst %d at exchange %d (%s): %r, fault-free "
                                "%r" % (burst, k,
                                        (target_cmd or b"").hex()[:40],
                                        run.get("error", run.get("result")),
                                        ref["error"]))
        elif "error" in run and not _nonidempotent(fixture, op, phase):
            raise Violation("transient-error-not-absorbed",
                            "burst %d (budget %d attempts) at exchange %d "
                            "(%s) raised %r" % (burst, budget, k,
                                                (target_cmd or b"").hex()[:40],
                                                run["error"]))
        if ("error" in run) == ("error" in ref):
            if "error" not in run and run["result"] != ref["result"]:
                raise Violation("result-differs-from-fault-free",
                                "%r vs %r" % (run["result"], ref["result"]))
            if run["mem"] != ref["mem"] and not _nonidempotent(fixture, op,
                                                               phase):
                raise Violation("memory-differs-from-fault-free", "")
            if not is_t4 and not _nonidempotent(fixture, op, phase):
                # (d) result and memory are equal: then no command may have
                # been answered more often than in the fault-free run
                ca = _same_commands(ref["f"], run["xlog"])
                cb = _same_commands(ref["f"], ref["xlog"])
                extra = [c for c in ca if ca[c] > cb.get(c, 0)]
                if extra:
                    raise Violation(
                        "answered-command-sent-again",
                        "%s answered %d times, fault-free %d"
                        % (extra[0].hex()[:40], ca[extra[0]],
                           cb.get(extra[0], 0)))
    else:
        ctx.label("burst-at-or-over-budget" if burst else "persistent")
        if not burst and "error" in run and not ss2:
            # (c) the first error the application sees names the cause
            if run["error"].errno != ERRNO[kind] and not _c_exempt(
                    fixture, op, run["error"]):
                raise Violation("reason-code-mismatch",
                                "persistent %s error reported as %r (errno "
                                "%d)" % (kind, run["error"],
                                         run["error"].errno))
    # (f) "when the error persists it ends with a TagCommandError ... or with
    # the documented None/False result": with every exchange failing from
    # position k on, an operation that reports success as True (format,
    # protect, authenticate) does not report it
    if not burst and "error" not in run and run.get("result") is True and \
            op.split(":")[0].split("-")[0] in ("format", "protect", "auth"):
        raise Violation("success-reported-despite-persistent-error",
                        "%s %s returned True although no command was "
                        "answered from exchange %d (%s) on; the fault-free "
                        "operation has %d exchanges"
                        % (fixture, op, k, (target_cmd or b"").hex()[:40],
                           ref["n"]))
    # (e) bounded effort: with every exchange failing from position k on,
    # the operation gives up after a bounded number of attempts
    if not burst and run["n"] > k + 3 * max(ref["n"], 4) + 20:
        raise Violation("excessive-retries",
                        "%d exchanges after the error became persistent at "
                        "%d (fault-free run: %d)" % (run["n"] - k, k,
                                                     ref["n"]))
    ctx.label("error" if "error" in run else "returned")
    return run


def _is_write(f, cmd):
    if not cmd:
        return False
    if f.kind == "t2t":
        return cmd[0] == 0xA2
    if f.kind == "t1t":
        return cmd[0] in (0x53, 0x1A, 0x54, 0x1B)
    if f.kind == "t3t":
        return len(cmd) > 1 and cmd[1] == 0x08
    return False


def _nonidempotent(fixture, op, phase):
    # Lite-S: MAC'd write whose response was lost advanced WCNT on the tag
    # Lite/Lite-S protect: the MC / key block writes change what may be
    # written afterwards, a repeated write is refused by the tag
    if phase != "rsp":
        return False
    return (fixture == "lites" and op in ("auth", "protect-pw",
                                          "protect-pw-str")) or \
        (fixture == "lite" and op in ("protect-pw", "protect-pw-str"))


def _c_exempt(fixture, op, err):
    # Type 2 READ: after a NAK / failed re-sense the documented reason is
    # the page error; tag status words of Type 3/4 are errno > 255
    return False


def run(case, ctx):
    check(case, ctx)


# ------------------------------------------------- bursts of mixed kinds
_mixed_ref = {}


def _last_failed_kind(xlog):
    """kind of the communication error the LAST exchange ended with (injected,
    or no response from the tag = timeout); None when it was answered"""
    if not xlog:
        return None
    rsp = xlog[-1][2]
    if rsp is None:
        return "timeout"
    if isinstance(rsp, str) and rsp.startswith("ERR:"):
        return rsp[4:]
    return None


def check_mixed(case, ctx):
    fixture, op = case["fixture"], case["op"]
    desc = case.get("desc")
    seq, tail = [list(x) for x in case["seq"]], bool(case.get("tail"))
    kinds = [x[0] for x in seq]
    ctx.label("mixed:%s:%s" % (fixture, op))
    ctx.set_class("%s/%s" % (fixture, op))
    key = (fixture, op)
    ref = _mixed_ref.get(key) if desc is None else None
    if ref is None:
        try:
            ref = execute(fixture, op, None, desc)
        except NoRoom:
            ctx.label("layout-without-room")
            return
        if "other" in ref:
            if _known_locally(ref["other"], ref["tag"], ctx):
                return
            raise unexpected(ref["other"], "fault-free-op-raises")
        if desc is None:
            _mixed_ref[key] = ref
    k = case["k"]
    if case.get("kmod") and ref["n"]:
        k = k % ref["n"]
    if k >= ref["n"]:
        ctx.label("fault-beyond-operation")
        return
    is_t4 = ref["f"].kind == "t4t"
    cls = "%s/%s/mixed-%s%s" % (fixture, op, "-".join(x[:2] for x in kinds),
                                "-persistent" if tail else "")
    if is_t4 and op == "present":
        cls = "t4t/presence-check"
    elif is_t4 and "protocol" in kinds:
        cls = "t4t/protocol-error-burst"
    ctx.set_class(cls)
    run = execute(fixture, op, ("seq", k, seq, tail), desc)
    if is_t4 and desc_wtx(fixture, desc) and _hits_wtx(run["xlog"]):
        ctx.set_class("t4t/wtx-exchange")
    budget = run["budget"]
    target_cmd = ref["xlog"][k][1]
    ss2 = ref["f"].kind == "t2t" and is_sector_select_2(ref["xlog"], k)
    what = "errors %s%s from exchange %d (%s) on" % (
        ", ".join("%s(%s lost)" % (a, "command" if b == "cmd" else "response")
                  for a, b in seq),
        ", the last one persisting" if tail else "", k,
        (target_cmd or b"").hex()[:40])
    # (a)
    if "other" in run:
        ctx.set_class(cls)      # (as in check(): never the known WTX class)
        if _known_locally(run["other"], run["tag"], ctx):
            return
        raise unexpected(run["other"], "raw-or-unrelated-exception",
                         detail=what)
    absorb = (budget + 1) // 2 if is_t4 else budget - 1
    nonidem = any(_nonidempotent(fixture, op, ph) for _, ph in seq)
    # not repeatable once the tag has executed it (see check)
    once = _once(ref, k, any(ph == "rsp" for _, ph in seq))
    if not tail and len(seq) <= absorb and not ss2 and once:
        ctx.label("mixed:burst-below-budget:command-not-repeatable")
    elif not tail and len(seq) <= absorb and not ss2:
        ctx.label("mixed:burst-below-budget")
        ctx.nontrivial()
        # (b)
        if "error" in ref:
            ctx.label("mixed:fault-free-run-ends-with-TagCommandError")
            if "error" not in run or \
                    run["error"].errno != ref["error"].errno or \
                    type(run["error"]) is not type(ref["error"]):
                raise Violation("result-differs-from-fault-free",
                                "%s: %r, fault-free %r" % (
                                    what, run.get("error", run.get("result")),
                                    ref["error"]))
        elif "error" in run and not nonidem:
            raise Violation("transient-error-not-absorbed",
                            "%s (budget %d attempts) raised %r"
                            % (what, budget, run["error"]))
        if ("error" in run) == ("error" in ref):
            if "error" not in run and run["result"] != ref["result"]:
                raise Violation("result-differs-from-fault-free",
                                "%s: %r vs %r" % (what, run["result"],
                                                  ref["result"]))
            if run["mem"] != ref["mem"] and not nonidem:
                raise Violation("memory-differs-from-fault-free", what)
            if not is_t4 and not nonidem:
                ca = _same_commands(ref["f"], run["xlog"])
                cb = _same_commands(ref["f"], ref["xlog"])
                extra = [c for c in ca if ca[c] > cb.get(c, 0)]
                if extra:
                    raise Violation(
                        "answered-command-sent-again",
                        "%s: %s answered %d times, fault-free %d"
                        % (what, extra[0].hex()[:40], ca[extra[0]],
                           cb.get(extra[0], 0)))
    else:
        ctx.label("mixed:persistent" if tail else
                  "mixed:burst-at-or-over-budget")
    # (c) the error that persisted names the cause: the operation ended with a
    # TagCommandError right after a failed exchange - the last permitted
    # attempt of a command - and reports the error of that attempt
    last = _last_failed_kind(run["xlog"])
    if "error" in run and last is not None and not ss2:
        ctx.label("mixed:reason-code-judged")
        # the attempts of the command that failed: the trailing failed
        # exchanges with the same command bytes
        cmd = run["xlog"][-1][1]
        tried = []
        for _, c, rsp, _ in reversed(run["xlog"]):
            if c != cmd or isinstance(rsp, bytes):
                break
            tried.append("timeout" if rsp is None else rsp[4:])
        tried.reverse()
        if len(set(tried)) > 1:
            ctx.label("mixed:attempts-of-failed-command-differ-in-kind")
            ctx.nontrivial()
        if run["error"].errno != ERRNO[last] and not _c_exempt(
                fixture, op, run["error"]):
            raise Violation(
                "reason-code-mismatch",
                "%s: the attempts of the last command (%s) failed with %s, "
                "the operation raised %r (errno %d), the reason code of the "
                "error that persisted (%s) is %d" % (
                    what, (cmd or b"").hex()[:40], ", ".join(tried),
                    run["error"], run["error"].errno, last, ERRNO[last]))
    # (e) bounded effort
    if tail and run["n"] > k + 3 * max(ref["n"], 4) + 20:
        raise Violation("excessive-retries",
                        "%s: %d exchanges after the error became persistent "
                        "(fault-free run: %d)" % (what, run["n"] - k,
                                                  ref["n"]))
    ctx.label("mixed:error" if "error" in run else "mixed:returned")


def mixed_sequences(length):
    """all kind sequences of the length that are not of one single kind"""
    import itertools
    return [list(t) for t in itertools.product(KINDS, repeat=length)
            if len(set(t)) > 1]


PHASE_PATTERNS = ("cccc", "rrrr", "crcr", "rcrc", "ccrr", "rrcc", "crrc",
                  "rccr")


def _with_phases(kinds, pattern):
    return [[kd, "cmd" if pattern[i] == "c" else "rsp"]
            for i, kd in enumerate(kinds)]


def enum_mixed(tier, seed):
    quick = tier == "quick"
    seqs = {n: mixed_sequences(n) for n in (2, 3, 4)}
    count = seed
    for fx in list(OPS):
        for op in OPS[fx]:
            try:
                ref = reference(fx, op, None)
            except Violation:
                continue
            n = ref["n"]
            if not n or "other" in ref:
                continue
            count += 1
            if quick:
                ks = sorted(set([0, 1 % n, n - 1, (2 + count) % n]))
            else:
                ks = sorted(set(list(range(0, min(n, 6))) +
                                list(range(max(0, n - 4), n)) +
                                list(range(6, n, max(1, n // 6)))))
            for k in ks:
                todo = list(seqs[2]) + list(seqs[3])
                if quick:
                    # a rotating dozen of the 78 sequences of four
                    todo += [seqs[4][(count * 12 + j * 7) % len(seqs[4])]
                             for j in range(12)]
                else:
                    todo += seqs[4]
                for kinds in todo:
                    count += 1
                    if quick:
                        # phases and persistence rotate instead of multiplying
                        variants = [(PHASE_PATTERNS[count % 8],
                                     count // 8 % 3 == 0)]
                    else:
                        variants = [(PHASE_PATTERNS[count % 8], False),
                                    (PHASE_PATTERNS[(count + 3) % 8], True)]
                    for pattern, tail in variants:
                        yield {"fixture": fx, "op": op, "k": k,
                               "seq": _with_phases(kinds, pattern),
                               "tail": bool(tail)}


NXP_GEN_OPS = ["ndef", "ndef", "write", "write", "present", "format", "dump",
               "protect", "protect-pw", "protect-pw-read", "protect-empty",
               "auth", "auth-empty", "auth-other", "auth-ndef", "auth-write",
               "auth-dump", "raw:read", "raw:write"]


def nxp_desc():
    """generated NXP personality: product x message length / blank / no
    capability container x NAK as byte or silence x (Ultralight C and the
    PWD_AUTH products) secret ex works or PW x AUTH0 x read protection x
    access byte of the capability container -> (fixture name, desc)"""
    def per_product(p):
        cap = simnxp.CAPACITY[p]
        fields = {
            "kind": st.just("nxp"), "product": st.just(p),
            "ndef": st.one_of(st.integers(0, min(40, cap - 3)),
                              st.integers(0, min(40, cap - 3)),
                              st.sampled_from(["blank", None])),
            "nak": st.just("byte") if p == "NTAG203" else
            st.sampled_from(["byte", "byte", "mute"])}
        if p == "ULC" or p in simnxp.PWD_AUTH:
            off, last = (0x30, 47) if p == "ULC" else (0xFF, cap // 4 + 8)
            fields.update({
                "key": st.booleans(),
                "auth0": st.one_of(st.just(off), st.integers(3, last)),
                "prot": st.booleans(),
                "cc3": st.sampled_from([0x00, 0x00, 0x08, 0x88, 0x0F])})
        return st.fixed_dictionaries(fields).map(
            lambda d: ("gen-" + p.lower(), d))
    return st.sampled_from(sorted(simnxp.EXPECT)).flatmap(per_product)


def nxp_op(product):
    ops = NXP_GEN_OPS + (["signature"] if product in simnxp.PWD_AUTH else [])
    return st.sampled_from(ops)


def gen_mixed(tier):
    descs = st.one_of(
        nxp_desc(),
        tc.t2t_desc().map(lambda d: ("t2t", dict(d, size=min(d["size"], 40)))),
        tc.t1t_desc().map(lambda d: (
            "t1t" if d["size"] == 14 else "t1t-dyn",
            dict(d, size=min(d["size"], 40), hr1=0))),
        tc.t3t_desc().map(lambda d: ("t3t", dict(d, nmaxb=min(d["nmaxb"], 30)))),
        tc.t4t_desc().map(lambda d: ("t4t", dict(
            d, fsize=min(max(d["fsize"], 60), 400), wtx=0))))
    element = st.tuples(st.sampled_from(KINDS), st.sampled_from(PHASES)).map(
        list)

    @st.composite
    def s(draw):
        fx, desc = draw(descs)
        seq = draw(st.lists(element, min_size=2, max_size=4))
        if len(set(x[0] for x in seq)) == 1:
            # one kind only is the business of the other legs: change one
            i = draw(st.integers(0, len(seq) - 1))
            seq[i][0] = KINDS[(KINDS.index(seq[i][0]) +
                               draw(st.integers(1, 2))) % 3]
        return {"fixture": fx, "desc": desc, "kmod": True,
                "op": draw(nxp_op(desc["product"])
                           if desc["kind"] == "nxp" else
                           st.sampled_from(["ndef", "write", "present"])),
                "k": draw(st.one_of(st.integers(0, 12),
                                    st.integers(0, 100000))),
                "seq": seq, "tail": draw(st.booleans())}
    return s()


# ------------------------------------------------------------ enumeration
def enum_faults(tier, seed):
    fixtures = list(OPS)
    count = seed
    for fx in fixtures:
        for op in OPS[fx]:
            yield {"fixture": fx, "op": op, "fault": None}
            try:
                ref = reference(fx, op, None)
            except Violation:
                continue
            if "other" in ref:
                continue
            n = ref["n"]
            # quick, long operations of the NXP personalities (dump of 135 to
            # 480 pages, lock bits of the NTAG I2C): the error kind rotates
            # from position to position instead of multiplying
            rotate = tier == "quick" and fx in NXP and n > 100
            if tier == "quick":
                ks = sorted(set(list(range(0, min(n, 6))) +
                                list(range(max(0, n - 4), n)) +
                                list(range(6, n, max(1, n // 6)))))
                bursts = (1, 2, 3, 0)
            else:
                ks = range(n) if n <= 120 else sorted(set(
                    list(range(0, 40)) + list(range(n - 40, n)) +
                    list(range(40, n - 40, max(1, n // 60)))))
                bursts = BURSTS
            for k in ks:
                count += 1
                for kind in ([KINDS[count % 3]] if rotate else KINDS):
                    for burst in bursts:
                        for phase in PHASES:
                            yield {"fixture": fx, "op": op,
                                   "fault": [k, kind, burst, phase]}
                if fx.startswith("t4t"):
                    # Type 4: the driver returns a frame without a single
                    # octet (tt4.py takes that for a transmission error)
                    for burst in bursts:
                        yield {"fixture": fx, "op": op,
                               "fault": [k, "empty", burst, "rsp"]}


def gen_case(tier):
    descs = st.one_of(
        nxp_desc(),
        tc.t2t_desc().map(lambda d: ("t2t", dict(d, size=min(d["size"], 40)))),
        tc.t1t_desc().map(lambda d: (
            "t1t" if d["size"] == 14 else "t1t-dyn",
            dict(d, size=min(d["size"], 40), hr1=0))),
        tc.t3t_desc().map(lambda d: ("t3t", dict(d, nmaxb=min(d["nmaxb"], 30)))),
        tc.t4t_desc().map(lambda d: ("t4t", dict(
            d, fsize=min(max(d["fsize"], 60), 400), wtx=0))))

    @st.composite
    def s(draw):
        fx, desc = draw(descs)
        op = draw(nxp_op(desc["product"]) if desc["kind"] == "nxp" else
                  st.sampled_from(["ndef", "write", "present"]))
        return {"fixture": fx, "op": op, "desc": desc, "kmod": True,
                "fault": [draw(st.one_of(st.integers(0, 12),
                                         st.integers(0, 100000))),
                          draw(st.sampled_from(KINDS)),
                          draw(st.sampled_from(BURSTS)),
                          draw(st.sampled_from(PHASES))]}
    return s()


# ------------------------------------------- FeliCa Lite / Lite-S histories
# Several operations on ONE tag object, an error burst at a generated command
# position of one of them.  The tag object carries session state
# (authentication status, session key, the read/write method bound to the
# NDEF services, the cached NDEF object), so what an operation does after an
# earlier one failed is part of "every operation of a tag object".
HWRONG = PW[0:15] + b"F"          # differs from PW in a non-parity key bit
HMSG = tc.message(10, 3)     # short: pyDes makes every MAC'd block costly
HIST_OPS = ("auth", "auth-wrong", "ndef", "changed", "write", "write-long",
            "rmac", "rplain", "wplain", "wmac", "present")


def hist_attr(ln, nmaxb=13, rw=1):
    a = bytearray(16)
    a[0:5] = bytes([0x10, 4, 1, nmaxb >> 8, nmaxb & 255])
    a[10] = rw
    a[11:14] = ln.to_bytes(3, "big")
    a[14:16] = sum(a[0:14]).to_bytes(2, "big")
    return bytes(a)


def hist_sim(prod):
    data = HMSG + bytes(-len(HMSG) % 16)
    user = {0: hist_attr(len(HMSG))}
    for i in range(len(data) // 16):
        user[1 + i] = data[16 * i:16 * i + 16]
    return simfelica.make(prod, key=PW, ndef=True, user=user)


def hist_op(tag, op, state):
    """one step of a history -> comparable result.  Only documented use:
    octets are assigned to a writeable NDEF area only, RuntimeError is the
    documented answer of the MAC methods on a never authenticated object."""
    if op in ("auth", "auth-wrong"):
        r = tag.authenticate(PW if op == "auth" else HWRONG)
        if r is True:
            state["authed"] = True
        return r
    if op == "ndef":
        n = tag.ndef
        return None if n is None else bytes(n.octets)
    if op == "changed":
        n = tag.ndef
        if n is not None:
            n.has_changed               # complete update from the tag
            n = tag.ndef                # "always verify tag.ndef afterwards"
        return None if n is None else bytes(n.octets)
    if op in ("write", "write-long"):
        n = tag.ndef
        if n is None:
            return "no-ndef"
        if not n.is_writeable:
            return "read-only"
        n.octets = tc.message(min(12 if op == "write" else 40, n.capacity),
                              9 if op == "write" else 11)
        return "written"
    if op == "rplain":
        return bytes(tag.read_without_mac(3, 0x82))
    if op == "wplain" or (op == "wmac" and not hasattr(tag, "write_with_mac")):
        return tag.write_without_mac(bytearray(b"plain write 0123"), 12)
    if op == "present":
        return tag.is_present
    try:
        if op == "rmac":
            d = tag.read_with_mac(1, 2)
            return None if d is None else bytes(d)
        if op == "wmac":
            return tag.write_with_mac(bytearray(b"write with mac 0"), 11)
    except RuntimeError:
        if state["authed"]:
            raise
        return "authentication-required"
    raise ValueError(op)


_hist_ref = {}


def run_history(prod, ops, fault):
    """fault = None | (k, kind, burst, phase), k counts the exchanges of the
    whole history from 0.  The fault-free run is memoised (it is a pure
    function of prod and ops)."""
    key = (prod, tuple(ops))
    if fault is None and key in _hist_ref:
        return _hist_ref[key]
    sim = hist_sim(prod)
    vsched.seed_urandom(7)
    try:
        clf, tag = tagdev.activate(sim)
        if not isinstance(tag, nfc.tag.tt3_sony.FelicaLite):
            raise Violation("activation-failed", "%s -> %r" % (prod, tag))
        dev = clf.device
        base = dev.exchanges
        if fault is not None:
            k, kind, burst, phase = fault
            dev.script = _Script(base + 1 + k, base + 1 + k +
                                 (burst if burst else 100000), kind, phase)
        state = {"authed": False}
        outs, spans = [], []
        for op in ops:
            first = dev.exchanges - base
            try:
                o = ("ok", hist_op(tag, op, state))
            except nfc.tag.TagCommandError as e:
                o = ("tce", e.errno, e)
            except Exception as e:
                o = ("other", e)
            outs.append(o)
            spans.append((first, dev.exchanges - base))
    finally:
        vsched.seed_urandom(None)
    h = Fx()
    h.outs, h.spans, h.xlog = outs, spans, dev.xlog[base:]
    h.mem = b"".join(bytes(sim.mem[n]) for n in sorted(sim.mem))
    h.authed = bool(tag.is_authenticated)
    if fault is None:
        if len(_hist_ref) > 512:
            _hist_ref.clear()
        _hist_ref[key] = h
    return h


def _is_mac_write(cmd):
    return bool(cmd) and len(cmd) > 14 and cmd[1] == 0x08 and cmd[13] == 2


def _answered_seq(xlog):
    """answered commands in order; the MAC_A block of a Lite-S write with MAC
    depends on the write counter and is left out of the comparison"""
    return [cmd[:-16] if _is_mac_write(cmd) else cmd for cmd in answered(xlog)]


def _plain(o):
    return o[0:2]


def check_history(case, ctx):
    prod, ops = case["prod"], list(case["ops"])
    ref = run_history(prod, ops, None)
    for op, o in zip(ops, ref.outs):
        if o[0] == "other":
            ctx.set_class("hist/%s/%s" % (prod, op))
            raise unexpected(o[1], "fault-free-op-raises",
                             detail="history %r" % (ops,))
    if case.get("fault") is None:
        ctx.label("hist:fault-free")
        return
    j, p, kind, burst, phase = case["fault"]
    # the faulted operation: the first one from j on (cyclic) that exchanges
    # commands in the fault-free run
    order = [(j + i) % len(ops) for i in range(len(ops))]
    order = [i for i in order if ref.spans[i][1] > ref.spans[i][0]]
    if not order:
        ctx.label("hist:no-exchange")
        return
    j = order[0]
    a, b = ref.spans[j]
    if case.get("pmod"):
        p = p % (b - a)
    if p >= b - a:
        ctx.label("hist:fault-beyond-operation")
        return
    k = a + p
    target = ref.xlog[k][1]
    ctx.label("hist:%s:%s" % (prod, ops[j]))
    ctx.set_class("hist/%s/%s/%s-%s%s" % (prod, ops[j], kind, phase,
                                         "" if burst else "-persistent"))
    run = run_history(prod, ops, (k, kind, burst, phase))
    if [_plain(o) for o in run.outs[:j]] != \
            [_plain(o) for o in ref.outs[:j]]:
        raise HarnessError("history %r is not deterministic: the steps "
                           "before the fault differ" % (ops,))
    later = [i for i in range(j + 1, len(ops))
             if run.spans[i][1] > run.spans[i][0]]
    if later:
        ctx.nontrivial()
    what = "history %r, %s x%s (%s) at command %d of step %d (%s)" % (
        ops, kind, burst or "persistent", phase, p, j, (target or b"").hex()[:44])
    # (a) every step - the faulted one and all later ones - ends as documented
    for i in range(j, len(ops)):
        if run.outs[i][0] == "other":
            ctx.set_class("hist/%s/%s-after-%s" % (prod, ops[i], ops[j])
                          if i > j else "hist/%s/%s" % (prod, ops[j]))
            raise unexpected(
                run.outs[i][1], "raw-or-unrelated-exception",
                detail="%s: step %d (%s), is_authenticated=%r" % (
                    what, i, ops[i], run.authed))
    nonidem = phase == "rsp" and _is_mac_write(target)
    if burst and burst <= 2:
        ctx.label("hist:burst-below-budget")
        # (b) survived: the whole history is the fault-free one
        if run.outs[j][0] == "tce" and nonidem:
            ctx.label("hist:mac-write-repeated-after-lost-response")
        else:
            for i in range(j, len(ops)):
                if _plain(run.outs[i]) != _plain(ref.outs[i]):
                    raise Violation(
                        "transient-error-not-absorbed" if i == j and
                        run.outs[i][0] == "tce" else
                        "result-differs-from-fault-free",
                        "%s: step %d (%s) gave %r, fault-free %r" % (
                            what, i, ops[i], _plain(run.outs[i]),
                            _plain(ref.outs[i])))
            if run.mem != ref.mem:
                raise Violation("memory-differs-from-fault-free", what)
            if not nonidem and _answered_seq(run.xlog) != \
                    _answered_seq(ref.xlog):
                raise Violation("answered-command-sent-again", what)
    else:
        ctx.label("hist:burst-at-or-over-budget" if burst
                  else "hist:persistent")
        o = run.outs[j]
        if not burst and o[0] == "tce" and o[1] != ERRNO[kind]:
            # (c)
            raise Violation("reason-code-mismatch",
                            "%s reported as %r (errno %d)" % (what, o[2], o[1]))
        if burst:
            # steps that start after the burst is over run undisturbed: the
            # tag still holds PW, so the documented result of authenticate
            # is True for PW and False for another key
            for i in later:
                if run.spans[i][0] < k + burst or ops[i] not in (
                        "auth", "auth-wrong"):
                    continue
                want = ("ok", ops[i] == "auth")
                if _plain(run.outs[i]) != want:
                    raise Violation(
                        "undisturbed-authenticate-wrong-result",
                        "%s: step %d (%s) gave %r" % (
                            what, i, ops[i], _plain(run.outs[i])))
        if burst and ops[j] in ("auth", "auth-wrong", "changed", "rmac",
                                "rplain", "present"):
            # (d) the failed operation does not write to the NDEF area, so an
            # NDEF re-read that starts after the burst is over finds the tag
            # content of the fault-free run and must report it: a failed
            # authenticate must not leave the object unable to read
            for i in later:
                if run.spans[i][0] < k + burst or ops[i] != "changed":
                    continue
                if _plain(run.outs[i]) != _plain(ref.outs[i]):
                    raise Violation(
                        "undisturbed-ndef-read-differs",
                        "%s: step %d (%s) gave %r, fault-free %r, "
                        "is_authenticated=%r" % (
                            what, i, ops[i], _plain(run.outs[i]),
                            _plain(ref.outs[i]), run.authed))
    # (e) bounded effort
    if not burst and len(run.xlog) > k + 3 * max(len(ref.xlog), 4) + 20:
        raise Violation("excessive-retries", what)
    ctx.label("hist:faulted-step-" + run.outs[j][0])
    for i in later:
        ctx.label("hist:later-step-" + run.outs[i][0])


def enum_histories(tier, seed):
    quick = tier == "quick"
    firsts = [[], ["auth"], ["auth-wrong"], ["write"]]
    hit = ["auth", "auth-wrong", "changed", "write", "rmac", "wplain", "wmac",
           "present"]
    follows = ["changed", "auth", "write"]
    bursts = (2, 3) if quick else BURSTS
    if not quick:
        firsts += [["changed"], ["auth", "changed"], ["auth", "write"],
                   ["auth-wrong", "auth"]]
        hit += ["rplain"]
        follows += ["rmac", "wmac"]
    count = 0
    for prod in ("lite", "lites"):
        for first in firsts:
            for op in hit:
                try:
                    ref = run_history(prod, first + [op], None)
                except Violation:
                    continue
                a, b = ref.spans[len(first)]
                for follow in follows:
                    for p in range(b - a):
                        for burst in bursts:
                            for phase in PHASES:
                                count += 1
                                # quick: the error kind rotates instead of
                                # multiplying (it only selects the errno)
                                for kind in ([KINDS[(count + seed) % 3]]
                                             if quick or burst in (1, 4)
                                             else KINDS):
                                    yield {"prod": prod,
                                           "ops": first + [op, follow],
                                           "fault": [len(first), p, kind,
                                                     burst, phase]}


def gen_history(tier):
    weighted = ["auth"] * 4 + ["auth-wrong"] * 2 + ["changed"] * 3 + \
        ["ndef", "write", "write", "write-long", "rmac", "rmac", "rplain",
         "wplain", "wmac", "present"]

    @st.composite
    def s(draw):
        n = draw(st.integers(2, 7))
        ops = [draw(st.sampled_from(weighted)) for _ in range(n)]
        # mostly not the last step: what follows the fault is the point
        j = draw(st.one_of(st.integers(0, n - 2), st.integers(0, n - 2),
                           st.integers(0, n - 2), st.just(n - 1)))
        return {"prod": draw(st.sampled_from(["lite", "lites"])),
                "ops": ops, "pmod": True,
                "fault": [j,
                          draw(st.one_of(st.integers(0, 5),
                                         st.integers(0, 1000))),
                          draw(st.sampled_from(KINDS)),
                          draw(st.sampled_from([1, 2, 3, 3, 4, 4, 0])),
                          draw(st.sampled_from(PHASES))]}
    return s()


# ------------------------------------------ Type 1 / Type 2 tag histories
# Several NDEF level operations on ONE Type 1 / Type 2 tag object (props.
# tagcommon histories: tag.ndef, has_changed, assignments, the last attempted
# assignment again, format), exactly one of them with an error burst at a
# command position, all others fault-free.  The tag object keeps a memory
# image (what it read, what it changed, which write commands failed) from one
# operation to the next, so "a command that was answered is not sent again"
# is judged over the whole history: the tag simulator's log tells for every
# EXECUTED write command which unit it addressed and whether the reader got
# the answer.  A write command is a violation when the very same command was
# the last one executed for that unit and the reader had its answer (the tag
# holds the content, the reader was told so).  Sound for the one legitimate
# repetition: a write whose response was lost (executed, not answered) may be
# - must be - sent again until it is answered once; any write command for the
# unit that got no answer (lost on the way, refused) voids what the reader
# knows about the unit.  The judgement runs from one format() to the next:
# format() works on a memory view of its own.
def _mem_write_unit(kind, cmd):
    """(address within the 1 KiB sector / block 0 based byte address) of a
    Type 1 / Type 2 write command, None for any other command"""
    if not cmd:
        return None
    if kind == "t2t":
        return cmd[1] * 4 if cmd[0] == 0xA2 and len(cmd) == 6 else None
    if cmd[0] in (0x53, 0x1A) and len(cmd) == 7:
        return cmd[1] & 0x7F
    if cmd[0] in (0x54, 0x1B) and len(cmd) == 14:
        return cmd[1] * 8
    return None


class _WriteWatch(object):
    def __init__(self, b, ctx, faulted):
        self.b, self.ctx, self.faulted = b, ctx, faulted
        self.state = {}             # unit -> [command, answered, op index]
        self.dev = None
        self.outs = []
        self.later_writes = 0
        self.hits = 0
        self.hit_write = False

    def before(self, i, op, tag):
        self.dev = tag.clf.device
        self.x0, self.w0 = len(self.dev.xlog), len(self.b.tag.wlog)

    def after(self, i, op, out):
        kind = self.b.kind
        wlog = self.b.tag.wlog[self.w0:]
        wi = 0
        for idx, cmd, rsp, phase in self.dev.xlog[self.x0:]:
            unit = _mem_write_unit(kind, cmd)
            if unit is None:
                continue
            injected = isinstance(rsp, str)
            if injected:
                self.hit_write = True
            executed = phase != "cmd" and wi < len(wlog) and (
                wlog[wi][1] == unit if kind == "t1t"
                else wlog[wi][1] % 1024 == unit)
            if not executed:
                # lost on the way to the tag, or refused by it (NAK / mute):
                # the reader has no answer, what it knows about the unit (in
                # whatever sector) is void
                for addr in self.state:
                    if addr == unit or (kind == "t2t"
                                        and addr % 1024 == unit):
                        self.state[addr] = [cmd, False, i]
                continue
            addr = wlog[wi][1]
            wi += 1
            answered = isinstance(rsp, bytes)
            if i > self.faulted:
                self.later_writes += 1
            st_ = self.state.get(addr)
            if st_ is not None and st_[0] == cmd:
                if st_[1]:
                    raise Violation(
                        "answered-command-sent-again",
                        "operation %d (%s) sent %s for the unit at %d again; "
                        "the tag executed and answered exactly this command "
                        "in operation %d (%s) and nothing was written to the "
                        "unit since; error burst was in operation %d"
                        % (i, op["op"], cmd.hex(), addr, st_[2],
                           self.ops[st_[2]]["op"], self.faulted))
                st_[1] = answered
                continue
            self.state[addr] = [cmd, answered, i]
        if wi != len(wlog):
            raise HarnessError("executed write not matched with an exchange: "
                               "%r vs %d write commands" % (wlog, wi))
        if op["op"] == "format":
            # format() works on a view of the tag memory of its own (Topaz:
            # a new memory image; the cached NDEF object is dropped only
            # when format returned True): what was answered to it is not
            # what the NDEF object of a later operation was told
            self.state.clear()
        if i == self.faulted:
            self.hits = out["hits"]
        self.outs.append((out["op"], out["status"]))
        self.ctx.label("memhist:%s:%s%s" % (
            out["op"], out["status"],
            "" if i != self.faulted else ":faulted"))


def check_mem_history(case, ctx):
    desc = case["tag"]
    b = tc.build(desc, case["old"], case["old_seed"])
    if b is None:
        ctx.label("layout-without-room")
        return
    ops = case["ops"]
    faulted = [i for i, o in enumerate(ops) if o.get("fault") is not None]
    if len(faulted) != 1:
        raise HarnessError("one faulted operation per history")
    ctx.label("memhist:" + tc.classify(desc))
    ctx.set_class("memhist/" + tc.classify(desc))
    counts = tc.rehearse(desc, case["old"], case["old_seed"], ops)
    w = _WriteWatch(b, ctx, faulted[0])
    w.ops = ops
    # oracle (a) is applied by play(): every operation - the faulted one and
    # all later ones - returns or raises nfc.tag.TagCommandError
    tc.play(b, ops, w, counts)
    if w.hits and w.later_writes:
        ctx.nontrivial()
    if w.hits and w.hit_write:
        ctx.label("memhist:burst-on-write-command")
    ctx.note({"outcomes": w.outs, "faulted": faulted[0], "hits": w.hits,
              "writes-executed-later": w.later_writes})


def gen_mem_history(tier):
    fault = st.tuples(
        st.one_of(st.integers(0, 8), st.integers(0, 40), st.integers(0, 400)),
        st.sampled_from(KINDS), st.sampled_from([0, 0, 3, 3, 4, 1, 2]),
        st.sampled_from(PHASES))

    @st.composite
    def s(draw):
        desc = draw(tc.hist_desc(t2t=1, t1t=1, t3t=0, t3e=0, t4t=0))
        ops = draw(tc.hist_ops(False, 2, 6))
        n = len(ops)
        # mostly not the last operation: what follows the burst is the point
        j = draw(st.one_of(st.integers(0, n - 2), st.integers(0, n - 2),
                           st.integers(0, n - 2), st.just(n - 1)))
        f = list(draw(fault))
        ops = [dict(o, fault=f if i == j else None)
               for i, o in enumerate(ops)]
        return {"tag": desc, "old": draw(tc.hist_len(False)),
                "old_seed": draw(st.integers(0, 3)), "ops": ops}
    return s()


# --------------------------------------------- faults at the re-activation
# Type 2 tag code re-activates the tag with clf.sense(): after a NAK answer
# to READ (reading beyond the physical memory - every dump() of a generic
# tag ends that way -, a page behind AUTH0 of a read protected NTAG21x),
# after protect(password) of an NTAG21x.  That exchange is not one of the
# "command positions" of the legs above: a communication error there, or a
# tag that is not found again, is reported by sense() as None and the
# frontend has no target any more (exchange() then returns None).  "Every
# operation of a tag object" covers what the SAME tag object does from then
# on.  Several operations on one tag object; the field model _Field lets
#   * the n-th re-activation poll (and `span`-1 more, 0 = all later ones)
#     fail: tag not found, or timeout / transmission / protocol error raised
#     by the driver's sense_tta, or
#   * the tag leave the field at an event position counted over commands AND
#     polls (for `span` events, 0 = for good): next to a NAK, at the start of
#     a later operation, anywhere.
RE_PW = {"factory": (b"", b"wrong!"), "custom": (b"passPK", b"pbssPK")}
RE_PW_NXP = {"factory": (b"", PW2), "custom": (PW, PW2)}
RE_OPS_ALL = ("ndef", "changed", "write", "present", "dump", "format",
              "protect", "read", "read-out", "write-page", "auth",
              "auth-wrong", "protect-pw", "protect-pw-read")


class _Field(object):
    """a tag simulator in a field it may leave, with re-activation polls
    that may fail.  Counting starts with arm(); ``events`` logs (kind,
    refused) with refused = no answer / NAK / nothing found."""

    def __init__(self, inner):
        self.inner = inner
        self.plan = None
        self.armed = False
        self.events = []
        self.polls = 0
        self.hits = 0

    def __getattr__(self, name):
        return getattr(self.inner, name)

    def arm(self, plan):
        self.plan, self.armed = plan, True
        self.events, self.polls, self.hits = [], 0, 0

    def _window(self, i):
        p = self.plan
        return i >= p["at"] and (p["span"] == 0 or i < p["at"] + p["span"])

    def away(self):
        return self.armed and self.plan is not None and \
            self.plan["mode"] == "leave" and self._window(len(self.events))

    def target(self, poll):
        if not self.armed:
            return self.inner.target(poll)
        fail = "none" if self.away() else None
        if fail is None and self.plan is not None and \
                self.plan["mode"] == "poll" and self._window(self.polls):
            fail = self.plan["how"]
        self.polls += 1
        if fail is not None:
            self.hits += 1
            self.events.append(("poll", True))
            if fail != "none":
                raise tagdev.ERR[fail]("sim: injected %s in the "
                                       "re-activation" % fail)
            return None
        r = self.inner.target(poll)
        self.events.append(("poll", r is None))
        return r

    def command(self, cmd, timeout=None):
        if not self.armed:
            return self.inner.command(cmd, timeout)
        if self.away():
            self.hits += 1
            r = None
        else:
            r = self.inner.command(cmd, timeout)
        self.events.append(("cmd", r is None or (
            len(r) == 1 and r[0] & 0xFA == 0x00)))
        return r


def re_sim(spec):
    """-> (simulator, first page behind the physical memory) or None"""
    if spec["fam"] == "ntag":
        pwd, pack = (None, None) if spec["pw"] == "factory" else \
            (b"pass", b"PK")
        sim = simntag.make(spec["product"], pwd=pwd, pack=pack,
                           auth0=spec["auth0"], prot=spec["prot"],
                           ndef=tc.message(spec["ndef"], 3), nak=spec["nak"])
        return sim, sim.pages
    if spec["fam"] == "nxp":
        # a personality of vlib.simnxp; "custom": the tag holds PW (3DES key
        # of the Ultralight C, PWD / PACK of the PWD_AUTH products)
        sim = nxp_sim({"product": spec["product"], "ndef": spec["ndef"],
                       "nak": spec["nak"], "key": spec["pw"] == "custom",
                       "auth0": spec["auth0"], "prot": spec["prot"]})
        return sim, sim.pages
    b = tc.build(spec["desc"], spec["old"], 5)
    if b is None:
        return None
    mem = b.tag.mem
    if spec["phys_cut"] and len(mem) - spec["phys_cut"] >= 64:
        del mem[len(mem) - spec["phys_cut"]:]   # less memory than declared
    if spec["fam"] == "ul":
        # an NXP UID: activated as Mifare Ultralight (no GET_VERSION, no
        # 3DES AUTHENTICATE)
        mem[0] = 0x04
        b.tag.uid = bytes(mem[0:3] + mem[4:8])
    return b.tag, (len(mem) + 3) // 4


def re_op(tag, op, spec, out_page):
    """one operation of the history, documented use only"""
    if op == "ndef":
        n = tag.ndef
        return None if n is None else bytes(n.octets)
    if op == "changed":
        n = tag.ndef
        if n is not None:
            n.has_changed               # complete update from the tag
            n = tag.ndef                # "always verify tag.ndef afterwards"
        return None if n is None else bytes(n.octets)
    if op == "write":
        n = tag.ndef
        if n is None:
            return "no-ndef"
        if not n.is_writeable:
            return "read-only"
        n.octets = tc.message(min(19, n.capacity), 9)
        return "written"
    if op == "present":
        return tag.is_present
    if op == "dump":
        return list(tag.dump())
    if op == "format":
        return quiet(tag.format)
    if op == "protect":
        return quiet(tag.protect)
    if op == "read":
        return bytes(tag.read(4))
    if op == "read-out":
        return bytes(tag.read(out_page))
    if op == "write-page":
        return tag.write(6, bytearray(b"WXYZ"))
    right, wrong = (RE_PW_NXP if spec["fam"] == "nxp" else RE_PW)[
        spec.get("pw", "factory")]
    if op == "auth":
        return tag.authenticate(right)
    if op == "auth-wrong":
        return tag.authenticate(wrong)
    if op == "protect-pw":
        return quiet(tag.protect, right)
    if op == "protect-pw-read":
        return quiet(tag.protect, right, True, 5)
    raise ValueError(op)


_re_ref = {}


def run_reactivation(spec, ops, plan):
    """the history on one tag object; plan None = the fault-free rehearsal
    (memoised, it is a pure function of spec and ops)"""
    key = repr((spec, ops))
    if plan is None and key in _re_ref:
        return _re_ref[key]
    made = re_sim(spec)
    if made is None:
        return None
    sim, out_page = made
    field = _Field(sim)
    clf, tag = tagdev.activate(field, budget=30000)
    if not isinstance(tag, nfc.tag.tt2.Type2Tag) or (
            spec["fam"] == "nxp" and type(tag).__name__ !=
            simnxp.EXPECT[spec["product"]]):
        raise Violation("activation-failed", "%r -> %r" % (spec, tag))
    field.arm(plan)
    h = Fx()
    h.tag = type(tag).__name__
    h.outs, h.starts, h.hit_at = [], [], []
    for op in ops:
        h.starts.append(len(field.events))
        h.hit_at.append(field.hits)
        try:
            o = ("ok", re_op(tag, op, spec, out_page))
        except nfc.tag.TagCommandError as e:
            o = ("tce", e.errno, e)
        except tagdev.BudgetExceeded:
            raise Violation("excessive-retries", "history %r: more than "
                            "30000 exchanges" % (ops,))
        except Exception as e:
            o = ("other", e)
        h.outs.append(o)
    h.events, h.hits, h.polls = field.events, field.hits, field.polls
    h.target_known = tag.target is not None
    if plan is None:
        if len(_re_ref) > 256:
            _re_ref.clear()
        _re_ref[key] = h
    return h


def check_reactivation(case, ctx):
    spec, ops, plan = case["tag"], list(case["ops"]), case["plan"]
    fam = spec["fam"] if spec["fam"] not in ("ntag", "nxp") else \
        spec["product"].lower()
    ctx.set_class("reactivate/" + fam)
    ref = run_reactivation(spec, ops, None)
    if ref is None:
        ctx.label("layout-without-room")
        return
    ctx.label("reactivate:" + ref.tag)
    for op, o in zip(ops, ref.outs):
        if o[0] == "other":
            ctx.set_class("reactivate/%s/%s" % (fam, op))
            if _known_locally(o[1], ref.tag, ctx):
                continue
            raise unexpected(o[1], "fault-free-op-raises",
                             detail="history %r" % (ops,))
    polls = [i for i, (k, _) in enumerate(ref.events) if k == "poll"]
    naks = [i for i, (k, refused) in enumerate(ref.events)
            if k == "cmd" and refused]
    ctx.label("reactivate:%s-re-activations-in-history" % (
        "no" if not polls else "with"))
    sel = plan["sel"]
    mode = plan["mode"]
    if mode == "poll" and not polls:
        # nothing to fail: the tag leaves at an event position instead
        mode, sel = "leave", ["abs", sel[1]]
    if mode == "poll":
        at = sel[1] % len(polls)
        where = "re-activation %d of %d" % (at, len(polls))
    elif sel[0] == "poll" and polls:
        at = polls[sel[1] % len(polls)] + sel[2]
        where = "event %d (re-activation poll %+d)" % (at, sel[2])
    elif sel[0] == "nak" and naks:
        at = naks[sel[1] % len(naks)] + sel[2]
        where = "event %d (refused command %+d)" % (at, sel[2])
    elif sel[0] == "op" and len(ops) > 1:
        j = 1 + sel[1] % (len(ops) - 1)
        at = ref.starts[j] + sel[2]
        where = "event %d (start of operation %d %+d)" % (at, j, sel[2])
    else:
        at = sel[1] % max(1, len(ref.events))
        where = "event %d" % at
    at = max(0, at)
    how = plan["how"] if mode == "poll" else "leaves"
    span = plan["span"]
    ctx.label("reactivate:%s:%s:%s" % (
        mode, how, "for-good" if span == 0 else "%d-times" % span))
    run = run_reactivation(spec, ops, {"mode": mode, "at": at, "span": span,
                                       "how": plan["how"]})
    what = "history %r on one %s object (%r), %s: %s %s" % (
        ops, run.tag, spec, where,
        "tag not found" if how == "none" else
        "tag out of the field" if how == "leaves" else
        how + " error in sense()",
        "from then on" if span == 0 else "for %d %s" % (
            span, "polls" if mode == "poll" else "events"))
    if not run.hits:
        ctx.label("reactivate:fault-not-reached")
        return
    # the operation that met the fault, and those that started after it
    j = max(i for i in range(len(ops)) if run.hit_at[i] == 0)
    def plain(o):
        return o[0:2] if o[0] != "other" else (o[0], repr(o[1]))
    if [plain(o) for o in run.outs[:j]] != [plain(o) for o in ref.outs[:j]]:
        raise HarnessError("history %r is not deterministic: the steps "
                           "before the fault differ" % (ops,))
    ctx.label("reactivate:hit-during:" + ops[j])
    if j + 1 < len(ops):
        ctx.nontrivial()
    gone = mode == "leave" and span == 0
    for i in range(j, len(ops)):
        o = run.outs[i]
        cls = "reactivate/%s/%s" % (fam, ops[j]) if i == j else \
            "reactivate/%s/%s-after-%s" % (fam, ops[i], ops[j])
        # (a) the documented result or TagCommandError
        if o[0] == "other":
            ctx.set_class(cls)
            if _known_locally(o[1], run.tag, ctx):
                continue
            raise unexpected(
                o[1], "raw-or-unrelated-exception",
                detail="%s: operation %d (%s); the tag object %s" % (
                    what, i, ops[i], "still names a target" if
                    run.target_known else "knows the target is gone"))
        if ops[i] == "present" and o[0] == "ok":
            if o[1] is not True and o[1] is not False:
                ctx.set_class(cls)
                raise Violation("is-present-not-bool", "%s: %r" % (what, o[1]))
            if o[1] is True and gone and i > j:
                ctx.set_class(cls)
                raise Violation("present-although-gone",
                                "%s: operation %d is_present -> True" % (
                                    what, i))
        ctx.label("reactivate:%s:%s" % (
            "faulted-step" if i == j else "later-step",
            o[0] if o[0] != "ok" else "returned"))
    ctx.note({"tag": run.tag, "events": len(run.events), "at": at,
              "hits": run.hits, "faulted": ops[j]})


RE_T2 = {"fam": "t2t", "desc": T2, "old": ["abs", 21], "phys_cut": 0}
RE_UL = {"fam": "ul", "old": ["abs", 21], "phys_cut": 0,
         "desc": {"kind": "t2t", "size": 6, "extra": 0, "nulls": 0,
                  "filler": 0, "ctrl": []}}
RE_NTAG = {"fam": "ntag", "product": "NTAG213", "auth0": 0xFF, "prot": False,
           "pw": "factory", "ndef": 20, "nak": "byte"}
RE_FIXTURES = [
    RE_T2, dict(RE_T2, phys_cut=16), RE_UL, RE_NTAG,
    dict(RE_NTAG, auth0=8, prot=True, pw="custom", ndef=40),
    dict(RE_NTAG, product="NTAG210", auth0=6, prot=True, ndef=30),
    dict(RE_NTAG, product="NTAG215", auth0=0x10, prot=False, pw="custom",
         nak="mute"),
]
RE_ULC = {"fam": "nxp", "product": "ULC", "auth0": None, "prot": True,
          "pw": "factory", "ndef": 20, "nak": "byte"}
RE_FIXTURES += [
    RE_ULC, dict(RE_ULC, auth0=6, pw="custom"),
    dict(RE_ULC, product="NTAG203"),
    dict(RE_ULC, product="MF0UL21", auth0=8, pw="custom"),
    dict(RE_ULC, product="NT3H1101"),
]


def enum_reactivation(tier, seed):
    quick = tier == "quick"
    firsts = ["dump", "read-out", "ndef", "protect-pw", "auth-wrong"]
    follows = ["present", "read", "changed", "write", "write-page", "dump",
               "format", "protect", "auth"]
    if not quick:
        firsts += ["changed", "protect-pw-read", "write"]
        follows += ["ndef", "read-out", "protect-pw", "auth-wrong"]
    count = 0
    for spec in RE_FIXTURES:
        for first in firsts:
            ref = run_reactivation(spec, [first], None)
            if ref is None:
                continue
            npolls = sum(1 for k, _ in ref.events if k == "poll")
            for r in range(npolls):
                plans = [{"mode": "poll", "sel": ["poll", r], "span": 1,
                          "how": "none"},
                         {"mode": "leave", "sel": ["poll", r, 0], "span": 0,
                          "how": "none"},
                         {"mode": "leave", "sel": ["poll", r, -1], "span": 0,
                          "how": "none"},
                         {"mode": "leave", "sel": ["poll", r, 0], "span": 2,
                          "how": "none"}]
                for follow in follows:
                    count += 1
                    # quick: the error kind rotates (it never reaches the
                    # tag object: sense() answers None for all of them)
                    kinds = [KINDS[(count + seed) % 3]] if quick else KINDS
                    for plan in plans + [
                            {"mode": "poll", "sel": ["poll", r],
                             "span": sp, "how": kind}
                            for kind in kinds
                            for sp in ((1,) if quick else (1, 0))]:
                        yield {"tag": spec, "ops": [first, follow],
                               "plan": plan}
                        if not quick:
                            yield {"tag": spec,
                                   "ops": [first, follow, "present"],
                                   "plan": plan}


def gen_reactivation(tier):
    t2 = tc.t2t_desc().map(lambda d: dict(d, size=min(d["size"], 40)))
    generic = st.fixed_dictionaries({
        "fam": st.sampled_from(["t2t", "t2t", "ul"]), "desc": t2,
        "old": tc.hist_len(False),
        "phys_cut": st.sampled_from([0, 0, 0, 8, 16, 64])}).map(
        lambda d: dict(d, desc=dict(d["desc"], size=6, extra=0, ctrl=[]))
        if d["fam"] == "ul" else d)
    ntag = st.sampled_from(sorted(simntag.PRODUCTS)).flatmap(
        lambda p: st.fixed_dictionaries({
            "fam": st.just("ntag"), "product": st.just(p),
            "auth0": st.one_of(st.just(0xFF), st.integers(
                3, simntag.PRODUCTS[p][1] + 1)),
            "prot": st.booleans(),
            "pw": st.sampled_from(["factory", "custom"]),
            "ndef": st.integers(0, 40),
            "nak": st.sampled_from(["byte", "byte", "mute"])}))
    nxp = st.sampled_from(sorted(
        p for p in simnxp.EXPECT if p not in simntag.PRODUCTS)).flatmap(
        lambda p: st.fixed_dictionaries({
            "fam": st.just("nxp"), "product": st.just(p),
            "auth0": st.one_of(st.none(), st.integers(
                3, min(simnxp.CAPACITY[p] // 4 + 8, 47))),
            "prot": st.booleans(),
            "pw": st.sampled_from(["factory", "custom"]),
            "ndef": st.integers(0, 40),
            "nak": st.just("byte") if p == "NTAG203" else
            st.sampled_from(["byte", "byte", "mute"])}))
    weighted = ["dump"] * 3 + ["read-out"] * 3 + ["ndef", "changed",
        "changed", "write", "present", "present", "format", "protect",
        "read", "write-page", "auth", "auth-wrong", "auth-wrong",
        "protect-pw", "protect-pw", "protect-pw-read"]
    near = st.sampled_from([-1, 0, 0, 0, 1, 2])

    @st.composite
    def s(draw):
        spec = draw(st.one_of(generic, ntag, ntag, nxp, nxp))
        n = draw(st.integers(2, 6))
        ops = [draw(st.sampled_from(weighted)) for _ in range(n)]
        mode = draw(st.sampled_from(["poll", "poll", "leave", "leave",
                                     "leave"]))
        idx = draw(st.one_of(st.integers(0, 5), st.integers(0, 300)))
        if mode == "poll":
            sel = ["poll", idx]
        else:
            sel = draw(st.sampled_from(
                [["poll", idx, 0], ["nak", idx, 0], ["op", idx, 0],
                 ["abs", idx]]))
            if len(sel) == 3:
                sel = [sel[0], sel[1], draw(near)]
        return {"tag": spec, "ops": ops,
                "plan": {"mode": mode, "sel": sel,
                         "span": draw(st.sampled_from([0, 0, 0, 1, 2, 3, 6])),
                         "how": draw(st.sampled_from(("none",) + KINDS))}}
    return s()


LEGS = [
    Leg("enum", run=run, enum=enum_faults, exhaustive=True, shards_quick=12,
        shards_thorough=16,
        rule="fixed fixtures (generic T1T static/dynamic, Topaz, Topaz-512, "
             "generic T2T small and multi-sector, NTAG213, generic T3T, FeliCa "
             "Lite and Lite-S, T4T 4A/4B/slow; NXP personalities: Mifare "
             "Ultralight, Ultralight C ex works / read+write protected / write "
             "protected with a custom 3DES key, NTAG203 formatted / blank, "
             "Ultralight EV1 MF0UL11 / MF0ULH11 / MF0UL21 / MF0ULH21, NTAG210 "
             "open / protected / blank, NTAG212 / 213 / 215 / 216 formatted "
             "and blank, NTAG I2C 1k / 2k) x operations (NXP: NDEF read, "
             "write, is_present, format, dump, protect with lock bits / "
             "password / empty / short password / read protection, "
             "authenticate right / wrong / ex works / short password, "
             "authenticate + NDEF read / write / dump, signature, raw read / "
             "write, session registers) x fault position "
             "(thorough: every position; quick: both ends + samples) x kind x "
             "burst {1,2,3,4,persistent} x {command lost, response lost} "
             "(quick, NXP operations of more than 100 commands: the kind "
             "rotates over the positions); "
             "non-trivial = fault on the first command of the operation or on "
             "a state-changing command."),
    Leg("generated", run=run, gen=gen_case, quick=1000, thorough=36000,
        shards_quick=4, shards_thorough=16, nt_floor=0.02,
        rule="generated layouts (C01 strategies, bounded size) x {ndef read, "
             "write, presence check} and generated NXP personalities (14 "
             "products x message length / blank / no capability container x "
             "NAK as byte or silence x secret ex works or custom x AUTH0 x "
             "read protection x access byte of the capability container) x "
             "an operation out of the NXP list of leg enum x generated fault; "
             "non-trivial as above."),
    Leg("mixed", run=lambda case, ctx: check_mixed(case, ctx),
        enum=enum_mixed, exhaustive=True, shards_quick=12,
        shards_thorough=16,
        rule="the fixtures and operations of leg enum x fault position "
             "(quick: first, second, last and one rotating position; "
             "thorough: both ends + samples) x error bursts of MIXED kinds: "
             "every sequence over {timeout, transmission, protocol} of "
             "length 2 (6) and 3 (24) that is not of one single kind and of "
             "length 4 (quick: a rotating dozen of the 78; thorough: all), "
             "each element with the command or the response lost (quick: one "
             "of 8 phase patterns, rotating; thorough: two of them), the "
             "burst ending there or its last element persisting from then on "
             "(quick: every third case persists; thorough: both).  Oracles: "
             "return or TagCommandError; a burst shorter than the retry "
             "budget is absorbed (result, memory, answered commands equal "
             "the fault-free run); when the operation ends with a "
             "TagCommandError right after a failed exchange the reason code "
             "is that of this last attempt, the error that persisted; "
             "bounded effort.  non-trivial = the burst was below the budget "
             "(absorption judged), or the attempts of the command the "
             "operation gave up on failed with different kinds and the "
             "reason code was judged."),
    Leg("mixed_generated", run=lambda case, ctx: check_mixed(case, ctx),
        gen=gen_mixed, quick=750, thorough=24000, shards_quick=4,
        shards_thorough=16, nt_floor=0.1,
        rule="generated layouts and NXP personalities with their operations "
             "(as leg generated) x generated position x generated sequence of "
             "2-4 errors of at least two kinds, command or response lost per "
             "element, with or without the last one persisting; oracles and "
             "non-trivial rule as in leg mixed."),
    Leg("felica_hist_enum", run=lambda case, ctx: check_history(case, ctx),
        enum=enum_histories, exhaustive=True, shards_quick=12,
        shards_thorough=16,
        rule="histories on ONE FeliCa Lite / Lite-S tag object (card key = "
             "the password, NDEF message present): [nothing | authenticate | "
             "authenticate(wrong key) | NDEF write (thorough: also NDEF "
             "re-read and three two-step prefixes)] then a faulted operation "
             "out of {authenticate right/wrong key, NDEF re-read "
             "(has_changed), NDEF write, read_with_mac, write_without_mac, "
             "write_with_mac, presence check (thorough: also "
             "read_without_mac)} with the error burst at EVERY "
             "command position x burst {2,3} x {command lost, response "
             "lost} with the error kind rotating (thorough: burst "
             "1,2,3,4,persistent, every kind for 2,3,persistent), then one "
             "more operation {NDEF re-read, authenticate, NDEF write} "
             "(thorough: also read_with_mac, write_with_mac).  Oracles: "
             "every step from the faulted one on "
             "returns or raises TagCommandError (RuntimeError only from the "
             "MAC methods of a never authenticated object, as documented); "
             "burst below the budget: all results, the tag memory and the "
             "sequence of answered commands equal the fault-free history "
             "(a Lite-S write with MAC whose response was lost may fail); "
             "persistent: matching reason code; an authenticate that starts "
             "after the burst gives True for the card key and False for "
             "another key.  non-trivial = an operation after the faulted one "
             "exchanged commands with the tag."),
    Leg("felica_hist", run=lambda case, ctx: check_history(case, ctx),
        gen=gen_history, quick=500, thorough=12000, shards_quick=6,
        shards_thorough=16, nt_floor=0.3,
        rule="generated histories of 2-7 operations on one FeliCa Lite / "
             "Lite-S tag object out of {authenticate right/wrong key, tag.ndef "
             "(cached), NDEF re-read, NDEF write short/long, read_with_mac, "
             "read_without_mac, write_without_mac, write_with_mac, presence "
             "check}; one error burst (kind x length {1,2,3,4,persistent} x "
             "command/response lost) at a generated command position of a "
             "generated operation; oracles and non-trivial rule as in "
             "felica_hist_enum."),
    Leg("reactivate_enum",
        run=lambda case, ctx: check_reactivation(case, ctx),
        enum=enum_reactivation, exhaustive=True, shards_quick=4,
        shards_thorough=16,
        rule="ONE Type 2 tag object (generic Type2Tag small / with less "
             "physical memory than the CC declares, Mifare Ultralight, "
             "NTAG213 open, NTAG213 / NTAG210 read protected from a page on, "
             "NTAG215 with custom password and mute NAK, Ultralight C ex "
             "works / read protected from page 6 with a custom key, NTAG203, "
             "Ultralight EV1 MF0UL21 read protected from page 8, NTAG I2C "
             "1k): a first operation "
             "out of {dump, read beyond the memory, tag.ndef, "
             "protect(password), authenticate(wrong password)} (thorough: "
             "also NDEF re-read, protect(password, read_protect), NDEF "
             "write) and for EVERY re-activation (clf.sense by the tag code) "
             "of its fault-free run: the tag is not found once / a timeout, "
             "transmission or protocol error is raised by the driver's "
             "sense (quick: the kind rotates; thorough: every kind, once "
             "and from then on) / the tag has left the field for good with "
             "that poll / with the command before it / for 2 events; then "
             "one more operation out of {is_present, read, NDEF re-read, "
             "NDEF write, page write, dump, format, protect, authenticate} "
             "(thorough: four more, and is_present as a third step).  "
             "Oracle on every operation from the faulted one on: the "
             "documented result or nfc.tag.TagCommandError; is_present is a "
             "bool and False once the tag is gone for good.  non-trivial = "
             "an operation started after the fault took effect."),
    Leg("reactivate", run=lambda case, ctx: check_reactivation(case, ctx),
        gen=gen_reactivation, quick=2000, thorough=50000, shards_quick=4,
        shards_thorough=16, nt_floor=0.15,
        rule="generated Type 2 tags (C01 layouts as generic Type2Tag or "
             "Mifare Ultralight, optionally with 8..64 byte less physical "
             "memory than declared; NTAG210/212/213/215/216 x AUTH0 x PROT x "
             "factory/custom password x NAK as byte or silence; Mifare "
             "Ultralight (vlib.simnxp), Ultralight C, NTAG203, Ultralight EV1 "
             "x4, NTAG I2C 1k / 2k x AUTH0 x read protection x ex works / "
             "custom secret x NAK as byte or silence) x 2-6 "
             "operations on ONE tag object out of {tag.ndef, NDEF re-read, "
             "NDEF write, is_present, dump, format, protect, "
             "protect(password[, read_protect]), authenticate right/wrong "
             "password, read inside / beyond the memory, page write} x fault: "
             "the n-th re-activation poll of the fault-free rehearsal fails "
             "(tag not found | timeout | transmission | protocol error in "
             "sense) for 1,2,3,6 polls or from then on, OR the tag is out "
             "of the field from an event position (commands and polls "
             "counted; next to a re-activation poll, next to a refused "
             "command, at the start of a later operation, anywhere) for "
             "1,2,3,6 events or for good.  Oracles and non-trivial rule as "
             "in reactivate_enum."),
    Leg("mem_hist", run=lambda case, ctx: check_mem_history(case, ctx),
        gen=gen_mem_history, quick=1200, thorough=40000, shards_quick=8,
        shards_thorough=16, nt_floor=0.15,
        rule="generated Type 1 (static, dynamic, Topaz, Topaz-512) and Type 2 "
             "layouts x old message x 2-6 operations on ONE tag object out of "
             "{tag.ndef, has_changed, assign octets, the last attempted "
             "octets again, format(version, wipe)}; exactly one operation "
             "(mostly not the last) carries an error burst (kind x length "
             "{1,2,3,4,persistent} x command/response lost) starting at its "
             "k-th exchange (k modulo the exchange count of the fault-free "
             "rehearsal), all other operations run fault-free.  Oracles over "
             "the whole history: every operation returns or raises "
             "TagCommandError; no write command is executed by the tag that "
             "is identical to the last write command the tag executed AND "
             "answered for the same unit (byte / 8-byte block / page) - a "
             "command whose response was lost may be repeated until it is "
             "answered once; a write command without an answer voids what is "
             "known about its unit; the judgement restarts after every "
             "format() (it works on a memory view of its own).  non-trivial "
             "= the burst hit the operation and a later operation on the "
             "same tag object had write commands executed."),
]

# the same searches with every nfc logger enabled down to the lowest level
# (code that only runs, or only evaluates its arguments, when logging is on)
_byl = dict((lg.name, lg) for lg in LEGS)
LEGS += [twin_env(_byl[n], "log", {"VERIF_LOG": "debug"}, quick=q, thorough=t,
                  shards_quick=2)
         for n, q, t in [('generated', 300, 3000)] if n in _byl]
