"""C14 - host-link frames and ISO 14443 CRCs are built and checked correctly.

legs
  anchors     literal frames of the repository's driver tests and the
              ISO/IEC 14443-3 Annex B CRC examples, replayed through the
              reference models (and the library) once per run
  cmd-frames  every chipset class x every command code of its CMD table x
              every payload length 0..max: the bytes handed to the transport
              parse under ref_pn53x and decode back to (code, payload)
  rsp-mutations  valid response frames under every single bit flip, every
              truncation and 1-3 byte extensions (exhaustive per base frame):
              accepted implies valid under the independent validator with the
              same data, otherwise IOError (Chipset.Error for an error frame)
  rsp-subst   random multi-byte substitutions, compensated field pairs,
              splices of valid response frames (same oracle)
  crc-short   calculate_crc / add_crc_a/b / check_crc_a/b against ref_crc for
              every message of <= 2 (quick) / <= 3 (thorough) bytes incl. all
              single bit flips of the protected frame
  crc-random  the same for random messages <= 300 bytes with bit flips and
              bursts
  tt2-path    the Type 2 Tag exchange path of every PN53x-family driver and
              of rcs380 under a real ContactlessFrontend: payload for a good
              CRC_A, TransmissionError for a bad one, 1-2 byte answers passed
  resend      histories of 2-4 exchanges on one driver + chip + tag in which
              the same command object is sent again and again (directly, by
              the retry loop of Type1Tag.transceive, through the Type1Tag
              block commands) while answers are lost or damaged: every
              transmission on the RF side of the chip is command +
              CRC_B(command) (Type 1 Tag READ8 / WRITE8 / RSEG through CIU
              registers on pn532 / pn533 / arygonB) resp. the unchanged
              command (Type 2 Tag, all drivers), bad CRCs are never accepted

  target-hist histories of sense + exchange with different target kinds on
              one driver object, good and damaged CRCs, chip receiver model
              that honours the CRC settings the driver programmed; outcome
              per exchange and host commands as on a new device

Type A targets are generated over the SEL_RES (SAK) value space: every final
SEL_RES (cascade bit clear) of the target kind's family - b7b6 = 00 (Type 2
Tag platform: 00h, 08h, 09h, 10h, 18h, ...), b6 = 1 (Type 4A: 20h, 28h, 60h,
...), b7b6 = 10 (NFC-DEP only: 40h, ...) - in tt2-path, resend and
target-hist.

The CRC legs also require that calculate_crc / add_crc_* / check_crc_* leave
the caller's buffer as it was (bytearray, bytes and list arguments).
"""
import errno
import hashlib
import itertools
import os
import struct

from hypothesis import strategies as st

import nfc.clf
import nfc.clf.acr122
import nfc.clf.arygon
import nfc.clf.device
import nfc.clf.pn53x
import nfc.clf.rcs380

from vlib import ref_crc, simchip
from vlib import ref_pn53x as ref
from vlib.engine import HarnessError, Leg, Violation, twin_O, unexpected, twin_env

PROPERTY = "C14"
LEVEL = "exploration"
ASSUMPTIONS = [
    "vlib/ref_pn53x.py is a correct reading of the PN532 user manual 6.2.1 "
    "frame formats, of the ACR122U direct-transmit envelope and of the "
    "Port-100 frame; vlib/ref_crc.py of ISO/IEC 14443-3 Annex B",
    "a transport delivers non-empty frames or raises IOError (as "
    "nfc.clf.transport does); empty frames and None are not generated",
    "CCID header fields other than bMessageType and dwLength (slot, sequence, "
    "status, error, chain) carry no checksum and are not judged, only "
    "labelled",
    "an extended-format frame with a length below 256 is treated as valid "
    "(the manual does not forbid it); it is labelled",
    "leg target-hist: InListPassiveTarget of the PN53x firmware leaves "
    "CIU_TxMode / CIU_RxMode at the technology's speed and framing with the "
    "CRC enable bits set; the RC-S380 verifies and strips the received CRC "
    "iff InSetProtocol check_crc is non-zero; NFC-F frames carry a marker "
    "instead of a real CRC (no reference CRC-F in the harness)",
    "RC-S380 response validation is outside the property (its statement "
    "names PN53x/ACR122 responses); only RC-S380 command frames are checked",
]

# confirmed-defect input classes to skip while developing: empty unless the
# environment variable names classes (comma separated); skipped draws are
# counted under the label "excluded-dev:<class>"
EXCLUDE_CLASSES = set(filter(None, os.environ.get("VERIF_EXCLUDE_C14",
                                                  "").split(",")))

PN53X_CHIPS = ("pn531", "pn532", "pn533", "rcs956", "arygonA", "arygonB")
RSP_CHIPS = PN53X_CHIPS + ("acr122",)
ALL_CHIPS = RSP_CHIPS + ("rcs380",)


def setup():
    simchip.patch_time()


# ---------------------------------------------------------------- plumbing
class ScriptLink(object):
    """transport whose reads come from a list (bytes, or an exception to
    raise); everything written is kept.  It does not look at what is written,
    so a driver that builds broken frames still gets its canned answers."""
    TYPE = "USB"
    manufacturer_name = "SimCo"
    product_name = "SimReader"

    def __init__(self, reads=()):
        self.reads = list(reads)
        self.writes = []

    def write(self, frame):
        self.writes.append(bytes(frame))

    def read(self, timeout=0):
        if not self.reads:
            raise IOError(errno.ETIMEDOUT, os.strerror(errno.ETIMEDOUT))
        x = self.reads.pop(0)
        if isinstance(x, Exception):
            raise x
        return bytearray(x)

    def close(self):
        pass


_chipsets = {}


def chipset_for(chip):
    """the driver's chipset object, built once per process through the real
    class constructor over a ScriptLink with canned answers (the literal init
    transcripts of tests/test_clf_acr122.py and test_clf_rcs380.py); each
    case then installs its own ScriptLink"""
    cs = _chipsets.get(chip)
    if cs is not None:
        return cs
    import logging
    log = logging.getLogger("c14")
    timeout = IOError(errno.ETIMEDOUT, os.strerror(errno.ETIMEDOUT))
    if chip in ("pn531", "pn532", "pn533", "rcs956"):
        mod = __import__("nfc.clf." + chip, fromlist=["Chipset"])
        cs = mod.Chipset(ScriptLink(), logger=log)
    elif chip in ("arygonA", "arygonB"):
        cls = getattr(nfc.clf.arygon, "Chipset" + chip[-1])
        cs = cls(ScriptLink(), logger=log)
    elif chip == "acr122":
        cs = nfc.clf.acr122.Chipset(ScriptLink([bytes.fromhex(h) for h in (
            "800a000000000002810041435231323255323033",
            "800200000000000081003b00",
            "800100000000000081007f",
            "800200000000000081009002")]))
    elif chip == "rcs380":
        cs = nfc.clf.rcs380.Chipset(ScriptLink([
            timeout,
            ref.ACK, ref.p100_build_response(0x2A, b"\x00"),
            ref.ACK, ref.p100_build_response(0x20, b"\x11\x01"),
            ref.ACK, ref.p100_build_response(0x22, b"\x00\x01"),
            ref.ACK, ref.p100_build_response(0x06, b"\x00")]), logger=log)
    else:
        raise HarnessError("unknown chip %r" % chip)
    _chipsets[chip] = cs
    return cs


def max_payload(chip):
    if chip == "rcs380":
        return 300
    return chipset_for(chip).host_command_frame_max_size - 2


def codes_of(chip):
    return sorted(chipset_for(chip).CMD)


def _codes_table():
    return dict((chip, sorted(chipset_for(chip).CMD)) for chip in ALL_CHIPS)


def det_bytes(n, *key):
    h = hashlib.shake_128(("|".join(str(k) for k in key)).encode())
    return h.digest(n) if n else b""


CODES = _codes_table()


# ============================================================== leg anchors
def _std(data):
    return ref.build(data, extended=False)


ACR_CMD = lambda cmd: struct.pack("<BIxxxxxBxxxB", 0x6F, 5 + len(cmd), 0xFF,  # noqa
                                  len(cmd)) + cmd
ACR_RSP = lambda rsp: struct.pack("<BIxxxBx", 0x80, len(rsp), 0x81) + rsp  # noqa

ANCHORS = [
    # --- ISO/IEC 14443-3 Annex B and tests/test_clf_device.py
    {"k": "crc", "t": "A", "msg": "0000", "crc": "a01e"},
    {"k": "crc", "t": "A", "msg": "1234", "crc": "26cf"},
    {"k": "crc", "t": "B", "msg": "000000", "crc": "ccc6"},
    {"k": "crc", "t": "B", "msg": "0faaff", "crc": "fcd1"},
    {"k": "crc", "t": "B", "msg": "0000", "crc": "470f"},
    # --- tests/base_clf_pn53x.py: command frames written by Chipset.command
    {"k": "pn-cmd", "hex": "0000ff05fbd4003132339600", "code": 0,
     "payload": "313233", "fmt": "normal"},
    {"k": "pn-cmd", "hex": "0000ffffff0105fad400" + "313233" + "00" * 256
     + "9600", "code": 0, "payload": "313233" + "00" * 256,
     "fmt": "extended"},
    # --- responses: (frame, command code, payload or reject reason)
    {"k": "pn-rsp", "hex": "0000ff05fbd5013435368b00", "code": 0,
     "payload": "343536"},
    {"k": "pn-rsp", "hex": "0000ffffff0105fad501" + "343536" + "00" * 256
     + "8b00", "code": 0, "payload": "343536" + "00" * 256},
    {"k": "pn-rsp", "hex": "0000ff04fbd5013435368b00", "code": 0,
     "reject": "lcs"},
    {"k": "pn-rsp", "hex": "0000ff05fbd50134358b00", "code": 0,
     "reject": "length"},
    {"k": "pn-rsp", "hex": "0000ffffff0104fad501" + "343536" + "00" * 256
     + "8b00", "code": 0, "reject": "lcs"},
    {"k": "pn-rsp", "hex": "0000ffffff0105fad501" + "343536" + "00" * 255
     + "8b00", "code": 0, "reject": "length"},
    {"k": "pn-rsp", "hex": "00000005fbd5013435368b00", "code": 0,
     "reject": "start"},
    {"k": "pn-rsp", "hex": "0000ff05fbd5013435368a00", "code": 0,
     "reject": "dcs"},
    {"k": "pn-rsp", "hex": "0000ff05fbd6013435368a00", "code": 0,
     "reject": "tfi"},
    {"k": "pn-rsp", "hex": "0000ff05fbd5023435368a00", "code": 0,
     "reject": "code"},
    {"k": "pn-rsp", "hex": "0000ff01ff7f8100", "code": 0,
     "reject": "error-frame"},
    {"k": "pn-rsp", "hex": "0000ff00ff00", "code": 0, "reject": "kind"},
    {"k": "pn-rsp", "hex": "0000ffff0000", "code": 0, "reject": "kind"},
    # --- tests/test_clf_acr122.py
    {"k": "acr-cmd", "hex": ACR_CMD(bytes.fromhex("d400313233")).hex(),
     "code": 0, "payload": "313233"},
    {"k": "acr-raw", "hex": "6f050000000000000000ff00480000",
     "apdu": "ff00480000"},
    {"k": "acr-raw", "hex": "6f090000000000000000ff00400e0400000000",
     "apdu": "ff00400e0400000000"},
    {"k": "acr-rsp", "hex": ACR_RSP(bytes.fromhex("d5013435369000")).hex(),
     "code": 0, "payload": "343536"},
    {"k": "acr-rsp", "hex": "800300000000000081", "code": 0,
     "reject": "ccid-short"},
    {"k": "acr-rsp", "hex": "00030000000000008100343536", "code": 0,
     "reject": "ccid-type"},
    {"k": "acr-rsp", "hex": "80040000000000008100343536", "code": 0,
     "reject": "ccid-length"},
    {"k": "acr-rsp", "hex": "80030000000000008100d50190", "code": 0,
     "reject": "apdu-short"},
    {"k": "acr-rsp", "hex": "80040000000000008100d4019000", "code": 0,
     "reject": "tfi"},
    {"k": "acr-rsp", "hex": "80040000000000008100d5009000", "code": 0,
     "reject": "code"},
    {"k": "acr-rsp", "hex": "80040000000000008100d5019100", "code": 0,
     "reject": "apdu-sw"},
    {"k": "acr-rsp", "hex": "80040000000000008100d5019001", "code": 0,
     "reject": "apdu-sw"},
    # --- tests/test_clf_rcs380.py
    {"k": "p100", "hex": "0000ffffff0200fe31329d00", "data": "3132"},
    {"k": "p100-cmd", "hex": "0000ffffff0300fdd62a01ff00", "code": 0x2A,
     "payload": "01"},
    {"k": "p100-cmd", "hex": "0000ffffff0200fed6200a00", "code": 0x20,
     "payload": ""},
]


def enum_anchors(tier, seed):
    return list(ANCHORS)


def _off(what, case, got):
    raise HarnessError("reference model off its anchor (%s): %r -> %r"
                       % (what, case, got))


def run_anchor(case, ctx):
    k = case["k"]
    ctx.label("anchor:" + k)
    ctx.set_class("anchor/" + k)
    ctx.nontrivial()
    if k == "crc":
        m = bytes.fromhex(case["msg"])
        want = bytes.fromhex(case["crc"])
        fn = ref_crc.crc_a if case["t"] == "A" else ref_crc.crc_b
        if fn(m) != want:
            _off("crc", case, fn(m).hex())
        run_crc_msg({"msg": m}, None)
        return
    f = bytes.fromhex(case["hex"])
    if k == "pn-cmd":
        try:
            code, payload, fmt = ref.parse_command(f)
        except ref.RefReject as r:
            _off("pn-cmd", case, r.reason)
        if (code, payload.hex(), fmt) != (case["code"], case["payload"],
                                          case["fmt"]):
            _off("pn-cmd", case, (code, payload.hex(), fmt))
        if ref.build_command(code, payload) != f:
            _off("pn-cmd build", case, ref.build_command(code, payload).hex())
        # the library writes this very frame
        check_cmd_frame("pn532", case["code"], bytes.fromhex(case["payload"]))
        return
    if k in ("pn-rsp", "acr-rsp"):
        parse = ref.parse_response if k == "pn-rsp" else \
            (lambda fr, c: ref.acr_parse_response(fr, c)[0])
        try:
            got = parse(f, case["code"])
            reason = None
        except ref.RefReject as r:
            got, reason = None, r.reason
        if "reject" in case:
            if reason != case["reject"]:
                _off(k, case, (got, reason))
        else:
            if got is None or got.hex() != case["payload"]:
                _off(k, case, (got, reason))
        chip = "pn532" if k == "pn-rsp" else "acr122"
        ctx.label(check_response(chip, case["code"], f))
        return
    if k == "acr-cmd":
        try:
            code, payload = ref.acr_parse_command(f)
        except ref.RefReject as r:
            _off(k, case, r.reason)
        if (code, payload.hex()) != (case["code"], case["payload"]):
            _off(k, case, (code, payload.hex()))
        check_cmd_frame("acr122", code, payload)
        return
    if k == "acr-raw":
        try:
            apdu = ref.ccid_parse_host(f)
        except ref.RefReject as r:
            _off(k, case, r.reason)
        if apdu.hex() != case["apdu"]:
            _off(k, case, apdu.hex())
        return
    if k == "p100":
        try:
            r = ref.p100_parse(f)
        except ref.RefReject as rr:
            _off(k, case, rr.reason)
        if r["data"].hex() != case["data"] or ref.p100_build(r["data"]) != f:
            _off(k, case, r)
        return
    if k == "p100-cmd":
        try:
            code, payload = ref.p100_parse_command(f)
        except ref.RefReject as rr:
            _off(k, case, rr.reason)
        if (code, payload.hex()) != (case["code"], case["payload"]):
            _off(k, case, (code, payload.hex()))
        check_cmd_frame("rcs380", code, payload)
        return
    raise HarnessError("unknown anchor kind %r" % k)


# =========================================================== leg cmd-frames
def check_cmd_frame(chip, code, payload):
    """let the driver send (code, payload); validate what reached the
    transport.  returns the frame format label.  raises Violation."""
    cs = chipset_for(chip)
    payload = bytes(payload)
    if chip == "acr122":
        link = ScriptLink([ref.acr_build_response(code, b"")])
    elif chip == "rcs380":
        link = ScriptLink([ref.ACK, ref.p100_build_response(code, b"\x00")])
    else:
        link = ScriptLink([ref.ACK])
    cs.transport = link
    try:
        if chip == "rcs380":
            cs.send_command(code, bytearray(payload))
        elif chip == "acr122":
            cs.command(code, bytearray(payload), 0.1)
        else:
            cs.command(code, bytearray(payload), 0)
    except Exception as e:
        raise unexpected(e, detail="%s command(%#x, %d bytes)"
                         % (chip, code, len(payload)))
    if len(link.writes) != 1:
        raise Violation("cmd-write-count", "%s code %#x len %d: %d writes"
                        % (chip, code, len(payload), len(link.writes)))
    w = link.writes[0]
    where = "%s code %#04x len %d frame %s" % (chip, code, len(payload),
                                               w.hex()[:80])
    try:
        if chip == "acr122":
            c, p = ref.acr_parse_command(w)
            fmt = "ccid"
        elif chip == "rcs380":
            c, p = ref.p100_parse_command(w)
            fmt = "port100"
        else:
            if chip.startswith("arygon"):
                if w[:1] != b"2":
                    raise ref.RefReject("arygon-prefix", w[:1].hex())
                w = w[1:]
            c, p, fmt = ref.parse_command(w)
            if fmt == "extended" and chip in ("pn531", "arygonA"):
                raise ref.RefReject("extended-on-pn531")
            if fmt == "normal" and len(payload) + 2 > 255:
                raise ref.RefReject("normal-too-long")
    except ref.RefReject as r:
        raise Violation("cmd-frame-malformed:" + r.reason,
                        "%s: %s %s" % (where, r.reason, r.detail))
    if c != code or p != payload:
        raise Violation("cmd-frame-content", "%s decodes to code %#x, %d "
                        "bytes %s" % (where, c, len(p), p.hex()[:60]))
    return fmt


def cmd_nontrivial(chip, n):
    mx = max_payload(chip)
    return abs(n - 253) <= 2 or abs(n - 254) <= 2 or n >= mx - 2


def cmd_lengths(chip):
    mx = max_payload(chip)
    lens = list(range(0, mx + 1))
    if chip == "rcs380":
        lens += [509, 510, 511, 512, 513, 4095, 4096, 65533]
    return lens


def cmd_payloads(seed, chip, code, n):
    yield det_bytes(n, seed, chip, code, n)
    if n and (n % 7 == 0 or cmd_nontrivial(chip, n)):
        yield b"\xff" * n
        yield b"\x00" * n


def bulk_cmd_frames(tier, seed, i, n, acct):
    ev = nt = 0
    labels = {}
    samples = []
    idx = 0
    for chip in ALL_CHIPS:
        for code in codes_of(chip):
            for ln in cmd_lengths(chip):
                idx += 1
                if idx % n != i:
                    continue
                for payload in cmd_payloads(seed, chip, code, ln):
                    try:
                        fmt = check_cmd_frame(chip, code, payload)
                    except Violation as v:
                        v.case = {"chip": chip, "code": code,
                                  "payload": payload}
                        raise
                    ev += 1
                    lab = "%s:%s" % (chip, fmt)
                    labels[lab] = labels.get(lab, 0) + 1
                    if cmd_nontrivial(chip, ln):
                        nt += 1
                        if len(samples) < 3 and code == 0x42 and ln == 254:
                            samples.append({"chip": chip, "code": code,
                                            "payload_len": ln, "fmt": fmt})
    acct.bulk(ev, nt, labels, samples)


def run_cmd_frame(case, ctx):
    chip, code, payload = case["chip"], case["code"], bytes(case["payload"])
    ctx.set_class("%s/cmd" % chip)
    fmt = check_cmd_frame(chip, code, payload)
    ctx.label("%s:%s" % (chip, fmt))
    if cmd_nontrivial(chip, len(payload)):
        ctx.nontrivial()


# =================================================== response acceptance legs
def base_response(chip, code, payload, ext):
    if chip == "acr122":
        return ref.acr_build_response(code, payload)
    return ref.build_response(code, payload, extended=True if ext else None)


def apply_mutation(frame, mut):
    f = bytearray(frame)
    kind = mut[0]
    if kind == "none":
        pass
    elif kind == "flip":
        bit = mut[1] % (8 * len(f))
        f[bit // 8] ^= 1 << (bit % 8)
    elif kind == "trunc":
        f = f[:max(1, min(mut[1], len(f) - 1))]
    elif kind == "extend":
        f += bytes(mut[1])
    elif kind == "subst":
        for pos, val in mut[1]:
            f[pos % len(f)] = val
    elif kind == "add":
        # add deltas to bytes at positions counted from the end (negative)
        # or the start (non-negative): compensated checksum pairs
        for pos, delta in mut[1]:
            if -len(f) <= pos < len(f):
                f[pos] = (f[pos] + delta) & 0xFF
    elif kind == "delete":
        del f[mut[1] % len(f)]
        if not f:
            f = bytearray(b"\x00")
    elif kind == "insert":
        f.insert(mut[1] % (len(f) + 1), mut[2])
    elif kind == "flips":
        for bit in mut[1]:
            bit %= 8 * len(f)
            f[bit // 8] ^= 1 << (bit % 8)
    elif kind == "tail":
        k = max(1, min(mut[1], len(f)))
        f = f[:-k] + bytearray(mut[2])
        if not f:
            f = bytearray(b"\x00")
    elif kind == "raw":
        f = bytearray(mut[1]) or bytearray(b"\x00")
    else:
        raise HarnessError("unknown mutation %r" % (mut,))
    return bytes(f)


def frame_class(chip, mut, frame):
    """coarse class of the mutated frame (failure signatures); a function of
    the input frame only"""
    kind = mut[0]
    if chip == "acr122":
        if len(frame) < 10:
            return "acr122/ccid-header-cut"
        return "acr122/" + kind
    if frame[:3] == b"\x00\x00\xff":
        if frame[3:5] == b"\xff\xff" and len(frame) < 8:
            return "pn53x/ext-header-cut"
        if len(frame) < 5:
            return "pn53x/header-cut"
        try:
            ref.parse(frame)
        except ref.RefReject as r:
            if r.reason in ("dcs", "postamble"):
                body = 8 if frame[3:5] == b"\xff\xff" else 5
                if sum(frame[body:]) & 0xFF == 0:
                    # DCS and postamble are both off, by opposite amounts
                    return "pn53x/dcs-postamble-compensated"
    return "pn53x/" + kind


def check_response(chip, code, frame, ctx=None):
    """feed ``frame`` as the response to command ``code``; returns a verdict
    label; raises Violation."""
    cs = chipset_for(chip)
    frame = bytes(frame)
    acr = chip == "acr122"
    link = ScriptLink([frame] if acr else [ref.ACK, frame])
    cs.transport = link
    try:
        if acr:
            got, meta = ref.acr_parse_response(frame, code)
        else:
            got, meta = ref.parse_response(frame, code), None
        reason = None
    except ref.RefReject as r:
        got, meta, reason = None, None, r.reason
    what = "%s response to %#04x: %s" % (chip, code, frame.hex()[:120])
    try:
        data = cs.command(code, b"", 0.1)
    except IOError:
        if reason is None:
            raise Violation("rejects-valid-response", what)
        return "rejected:" + reason
    except nfc.clf.pn53x.Chipset.Error as e:
        if reason != "error-frame":
            raise Violation("chipset-error-for-non-error-frame",
                            "%s -> %s (reference: %s)" % (what, e, reason))
        return "error-frame"
    except Exception as e:
        raise unexpected(e, detail=what)
    if data is None or reason is not None:
        raise Violation("accepts-invalid-response:" + str(reason),
                        "%s returned %r" % (what, data))
    if bytes(data) != got:
        raise Violation("response-data-differs", "%s returned %s, reference "
                        "%s" % (what, bytes(data).hex()[:80], got.hex()[:80]))
    if meta is not None and (meta["slot"], meta["seq"], meta["status"],
                             meta["error"], meta["chain"]) != (0, 0, 0, 0x81,
                                                               0):
        return "accepted:ccid-header-unchecked"
    return "accepted"


def reaches_checksums(chip, frame):
    if chip == "acr122":
        return len(frame) >= 10 and frame[0] == 0x80
    return frame[:3] == b"\x00\x00\xff" and frame != ref.ACK


def run_response(case, ctx):
    chip = case["chip"]
    if "code" in case:
        code = case["code"]
    else:
        code = CODES[chip][case["codeidx"] % len(CODES[chip])]
    ext, mut = bool(case.get("ext")) and chip != "acr122", case["mut"]
    if "payload" in case:
        payload = bytes(case["payload"])
    else:
        payload = det_bytes(case["plen"], "payload", case["pseed"])
    base = base_response(chip, code, payload, ext)
    frame = apply_mutation(base, mut)
    cls = frame_class(chip, mut, frame)
    ctx.set_class(cls)
    ctx.label("mut:" + mut[0], "chip:" + chip)
    if cls in EXCLUDE_CLASSES:
        ctx.label("excluded-dev:" + cls)
        return
    verdict = check_response(chip, code, frame, ctx)
    ctx.label(verdict)
    if frame != base and reaches_checksums(chip, frame):
        ctx.nontrivial()
    if mut[0] == "none" and verdict != "accepted":
        raise Violation("rejects-valid-response", "unmutated %s" % base.hex())


def rsp_bases(tier, seed):
    """(chip, code, payload, ext) base frames of the exhaustive leg"""
    out = []
    for chip in RSP_CHIPS:
        codes = codes_of(chip)
        pick = [codes[0], 0x42, codes[-1]]
        lens = [0, 1, 5]
        if tier == "thorough":
            pick = codes[::4] + [0x42, 0x40, 0x88, codes[-1]]
            lens = [0, 1, 2, 3, 5, 8, 17, 40]
        for code in sorted(set(pick)):
            for ln in lens:
                out.append((chip, code, det_bytes(ln, seed, chip, code, ln),
                            False))
        # extended format with a short length: reaches every header length
        if chip != "acr122":
            out.append((chip, 0x42, det_bytes(3, seed, chip, "x"), True))
    big = [("pn532", 0x42, 253), ("pn532", 0x42, 254)]
    if tier == "thorough":
        big += [("pn533", 0x06, 254), ("rcs956", 0x40, 262),
                ("arygonB", 0x88, 256), ("acr122", 0x42, 250),
                ("pn531", 0x42, 252)]
    else:
        big += [("acr122", 0x42, 60)]
    for chip, code, ln in big:
        out.append((chip, code, det_bytes(ln, seed, chip, code, ln), False))
    return out


def enum_rsp_mutations(tier, seed):
    for chip, code, payload, ext in rsp_bases(tier, seed):
        base = base_response(chip, code, payload, ext)
        c = {"chip": chip, "code": code, "payload": payload, "ext": ext}
        yield dict(c, mut=["none"])
        for bit in range(8 * len(base)):
            yield dict(c, mut=["flip", bit])
        for k in range(1, len(base)):
            yield dict(c, mut=["trunc", k])
        for extra in (b"\x00", b"\xff", b"\x00\x00", b"\x55\xaa",
                      b"\x00\x00\x00", b"\x00\xff\x00"):
            yield dict(c, mut=["extend", extra])


byte_ = st.integers(0, 255)


def _pairs(d, i):
    """bytes shifted so that a byte sum is preserved (or not)"""
    return [
        [[-2, -d], [-1, d]],            # DCS / postamble
        [[-3, d], [-2, -d]],            # last data byte / DCS
        [[3, d], [4, -d]],              # LEN / LCS
        [[5, d], [-2, -d]],             # TFI / DCS
        [[6, d], [-2, -d]],             # response code / DCS
        [[5, d], [6, -d]],              # extended LENM / LENL
        [[6, d], [7, -d]],              # extended LENL / LCS
        [[-1, d]],                      # postamble alone
        [[-2, d]],                      # DCS alone
        [[-4, d], [-3, -d]],            # ACR: inside data / SW1
    ][i]


_pos = st.one_of(st.integers(0, 12), st.integers(0, 300))
_heads = [b"\x00\x00\xff", b"\x00\x00\xff\xff\xff", b"\x80", b"\x00"]
_mut = st.one_of(
    st.lists(st.tuples(_pos, byte_), min_size=1, max_size=4).map(
        lambda x: ["subst", x]),
    st.tuples(st.integers(1, 255), st.integers(0, 9)).map(
        lambda t: ["add", _pairs(t[0], t[1])]),
    st.tuples(st.integers(1, 255), st.integers(0, 9)).map(
        lambda t: ["add", _pairs(t[0], t[1])]),
    _pos.map(lambda x: ["delete", x]),
    st.tuples(_pos, byte_).map(lambda t: ["insert", t[0], t[1]]),
    st.lists(st.integers(0, 8 * 300), min_size=2, max_size=3).map(
        lambda x: ["flips", x]),
    st.tuples(st.integers(1, 12), st.binary(max_size=14)).map(
        lambda t: ["tail", t[0], t[1][:t[0] + 2]]),
    st.tuples(st.sampled_from(_heads), st.binary(max_size=16)).map(
        lambda t: ["raw", t[0] + t[1]]))
_rsp_case = st.fixed_dictionaries({
    "chip": st.sampled_from(RSP_CHIPS),
    "codeidx": st.integers(0, 40),
    "plen": st.one_of(st.integers(0, 24), st.integers(0, 24),
                      st.sampled_from([252, 253, 254, 255, 262])),
    "pseed": st.integers(0, 999),
    "ext": st.sampled_from([False, False, True]),
    "mut": _mut})


def gen_rsp_subst():
    return _rsp_case


# ================================================================= CRC legs
LIB = nfc.clf.device.Device
lib_calc = nfc.clf.device.calculate_crc


def _crc_one(kind, m, flips, bursts=(), reuse=True):
    """all CRC statements for message m; returns evaluations.  reuse=False
    leaves out the repeated calls on one buffer (bulk enumeration of the
    3-byte messages)"""
    if kind == "A":
        add, check, init = LIB.add_crc_a, LIB.check_crc_a, ref_crc.INIT_A
        r_add, r_check = ref_crc.add_a, ref_crc.check_a
    else:
        add, check, init = LIB.add_crc_b, LIB.check_crc_b, ref_crc.INIT_B
        r_add, r_check = ref_crc.add_b, ref_crc.check_b
    want_reg = ref_crc.crc16(m, init)
    buf = bytearray(m)
    got_reg = lib_calc(buf, len(m), init)
    if got_reg != want_reg:
        raise Violation("calculate-crc-differs", "CRC_%s register for %s: "
                        "%#06x, reference %#06x" % (kind, m.hex()[:80],
                                                    got_reg, want_reg))
    # the caller keeps its buffer: the drivers hand the command buffer of
    # their caller to add_crc_* (pn53x.send_cmd_recv_rsp does not copy a
    # bytearray) and callers send the same object again (Type1Tag.transceive
    # retries), so "return data extended with the CRC" must not extend the
    # argument itself.  The expectation is computed from m, not from buf.
    if bytes(buf) != m:
        raise Violation("calculate-crc-modifies-argument", "calculate_crc "
                        "left %s in the caller's bytearray %s"
                        % (bytes(buf).hex()[:80], m.hex()[:80]))
    framed = bytes(add(buf))
    if framed != r_add(m):
        raise Violation("add-crc-differs", "add_crc_%s(%s) = ..%s, reference "
                        "..%s" % (kind.lower(), m.hex()[:80],
                                  framed[-2:].hex(), r_add(m)[-2:].hex()))
    if bytes(buf) != m:
        raise Violation("add-crc-modifies-argument", "add_crc_%s(x) with x = "
                        "bytearray %s left x = %s (a second transmission of "
                        "the same buffer is no longer message + CRC)"
                        % (kind.lower(), m.hex()[:80], bytes(buf).hex()[:84]))
    again = bytes(add(buf)) if reuse else r_add(m)
    if again != r_add(m):
        raise Violation("add-crc-differs-on-reuse", "second add_crc_%s on "
                        "the same bytearray %s gave %s, reference %s"
                        % (kind.lower(), m.hex()[:80], again.hex()[:84],
                           r_add(m).hex()[:84]))
    if reuse and bytes(add(bytes(m))) != r_add(m):
        raise Violation("add-crc-differs", "add_crc_%s(bytes %s) = %s"
                        % (kind.lower(), m.hex()[:80],
                           bytes(add(bytes(m))).hex()[:84]))
    chk = bytearray(framed)
    if check(chk) is not True:
        raise Violation("check-rejects-own-crc", "check_crc_%s(add(%s))"
                        % (kind.lower(), m.hex()[:80]))
    if bytes(chk) != framed:
        raise Violation("check-crc-modifies-argument", "check_crc_%s(x) with "
                        "x = bytearray %s left x = %s"
                        % (kind.lower(), framed.hex()[:84],
                           bytes(chk).hex()[:84]))
    # the forms the drivers pass: bytes-like and (pn532/pn533 FIFO decoding)
    # a list of integers
    if reuse and (check(framed) is not True
                  or check(list(framed)) is not True):
        raise Violation("check-rejects-own-crc", "check_crc_%s(add(%s)) as "
                        "bytes / list" % (kind.lower(), m.hex()[:80]))
    n = 1
    for bit in flips:
        x = bytearray(framed)
        x[bit // 8] ^= 1 << (bit % 8)
        n += 1
        if bool(check(x)) != r_check(x):
            raise Violation("check-crc-differs", "check_crc_%s(%s) = %r, "
                            "reference %r (bit %d of the protected frame "
                            "flipped)" % (kind.lower(), bytes(x).hex()[:80],
                                          check(x), r_check(x), bit))
    for pos, patch in bursts:
        x = bytearray(framed)
        p = pos % len(x)
        patch = bytes(patch)[:len(x) - p]
        x[p:p + len(patch)] = patch
        n += 1
        if bool(check(x)) != r_check(x):
            raise Violation("check-crc-differs", "check_crc_%s(%s) = %r, "
                            "reference %r" % (kind.lower(),
                                              bytes(x).hex()[:80], check(x),
                                              r_check(x)))
    return n


def run_crc_msg(case, ctx):
    if "msg" in case:
        m = bytes(case["msg"])
    elif case.get("fill") is not None:
        m = bytes([case["fill"]]) * case["len"]
    else:
        m = det_bytes(case["len"], "crcmsg", case["mseed"])
    bursts = [(p, b) for p, b in case.get("bursts", [])]
    flips = range(8 * (len(m) + 2))
    if "flips" in case:
        flips = [f % (8 * (len(m) + 2)) for f in case["flips"]]
    try:
        for kind in ("A", "B"):
            _crc_one(kind, m, flips, bursts)
    except Violation:
        raise
    except Exception as e:
        raise unexpected(e, detail="crc of %s" % m.hex()[:80])
    # prefix form used by check_*: calculate over the leading size bytes
    for size in sorted(set([0, len(m) // 2, max(0, len(m) - 2)])):
        for init in (ref_crc.INIT_A, ref_crc.INIT_B):
            if lib_calc(bytearray(m), size, init) != \
                    ref_crc.crc16(m[:size], init):
                raise Violation("calculate-crc-prefix-differs",
                                "size %d of %s" % (size, m.hex()[:80]))
    if ctx is not None:
        ctx.set_class("crc/len=%d" % min(len(m), 4))
        ctx.label("len:%s" % (len(m) if len(m) < 4 else
                              "4-31" if len(m) < 32 else "32+"))
        if len(m) >= 1:
            ctx.nontrivial()


def bulk_crc_short(tier, seed, i, n, acct):
    maxlen = 2 if tier == "quick" else 3
    ev = nt = 0
    labels = {}
    samples = []
    idx = 0
    for ln in range(0, maxlen + 1):
        allflips = range(8 * (ln + 2))
        for tup in itertools.product(range(256), repeat=ln):
            idx += 1
            if idx % n != i:
                continue
            m = bytes(tup)
            # value comparisons for every message; all single bit flips for
            # every message of <= 1 byte, for every 4th (quick) / every
            # (thorough) 2-byte message and for every 61st 3-byte message
            # (stated in the leg's rule)
            if ln < 2:
                flips = allflips
            elif ln == 2:
                flips = allflips if (tier != "quick" or (idx // n) % 4 == 0) \
                    else ()
            else:
                flips = allflips if (idx // n) % 61 == 0 else ()
            reuse = ln < 3 or (idx // n) % 61 == 0
            try:
                k = _crc_one("A", m, flips, reuse=reuse) + \
                    _crc_one("B", m, flips, reuse=reuse)
            except Violation as v:
                v.case = {"msg": m}
                raise
            except Exception as e:
                v = unexpected(e, detail="crc of %s" % m.hex())
                v.case = {"msg": m}
                raise v
            ev += k
            lab = "len:%d" % ln
            labels[lab] = labels.get(lab, 0) + 1
            if ln >= 1:
                nt += 1
                if len(samples) < 2 and tup[-1] == 0x34 and tup[0] == 0x12:
                    samples.append({"msg": m, "crc_a": ref_crc.crc_a(m),
                                    "crc_b": ref_crc.crc_b(m)})
    acct.bulk(ev, nt, labels, samples)


def gen_crc_random(tier):
    ln = st.one_of(st.integers(0, 12), st.integers(0, 300),
                   st.sampled_from([1, 2, 3, 16, 64, 255, 256, 300]))
    return st.fixed_dictionaries({
        "len": ln,
        "mseed": st.integers(0, 9999),
        "fill": st.sampled_from([None, None, None, 0x00, 0xFF, 0x63, 0x55]),
        "flips": st.lists(st.integers(0, 8 * 302 - 1), max_size=12),
        "bursts": st.lists(st.tuples(st.integers(0, 302),
                                     st.binary(min_size=1, max_size=5)),
                           max_size=4)})


# ============================================================= leg tt2-path
TT2_DRIVERS = ("pn531", "pn532", "pn533", "rcs956", "acr122", "arygonA",
               "arygonB", "rcs380")

# SEL_RES (SAK) values of Type A targets.  Bit 3 (04h, "UID not complete") is
# clear in the SEL_RES that ends the anticollision, which is the one a target
# object carries.  Bits 6 and 7 (20h ISO-DEP, 40h NFC-DEP) say which protocol
# the target speaks; with both clear it is operated with Type 2 Tag commands
# (NFC Forum Digital: Type 2 Tag platform; nfc.tag.activate makes a Type2Tag
# of every such target) whatever the other, proprietary bits say: 00h
# Ultralight / NTAG, 08h / 18h MIFARE Classic 1K / 4K, 09h Mini, 10h / 11h
# Plus, 01h / 88h / 98h ... older parts.
SEL_FAMILY = {
    "T2T": [v for v in range(256) if v & 0x64 == 0x00],
    "T4A": [v for v in range(256) if v & 0x24 == 0x20],
    "DEP-A": [v for v in range(256) if v & 0x64 == 0x40],
}
SEL_USUAL = {"T2T": [0x00, 0x00, 0x08, 0x18, 0x09, 0x10, 0x11, 0x01, 0x88],
             "T4A": [0x20, 0x20, 0x28, 0x38, 0x60, 0x68],
             "DEP-A": [0x40, 0x40, 0x48]}


def sel_res_of(kind):
    """strategy: a SEL_RES byte of the family (the usual values emphasised,
    every value of the family possible)"""
    return st.one_of(st.sampled_from(SEL_USUAL[kind]),
                     st.sampled_from(SEL_FAMILY[kind]))


@st.composite
def gen_tt2(draw):
    drv = draw(st.sampled_from(TT2_DRIVERS))
    kind = draw(st.sampled_from(["good", "good", "flip", "burst", "short",
                                 "random", "swapped", "crc_b"]))
    n = draw(st.one_of(st.integers(1, 18), st.integers(1, 64)))
    payload = draw(st.binary(min_size=n, max_size=n))
    if kind == "good":
        rf = ref_crc.add_a(payload)
    elif kind == "flip":
        x = bytearray(ref_crc.add_a(payload))
        b = draw(st.integers(0, 8 * len(x) - 1))
        x[b // 8] ^= 1 << (b % 8)
        rf = bytes(x)
    elif kind == "burst":
        x = bytearray(ref_crc.add_a(payload))
        p = draw(st.integers(0, len(x) - 1))
        patch = draw(st.binary(min_size=1, max_size=3))[:len(x) - p]
        x[p:p + len(patch)] = patch
        rf = bytes(x)
    elif kind == "short":
        rf = draw(st.one_of(st.sampled_from([b"\x0a", b"\x00", b"\x01",
                                             b"\x04", b"\x05"]),
                            st.binary(min_size=1, max_size=2)))
    elif kind == "swapped":
        c = ref_crc.crc_a(payload)
        rf = payload + c[::-1]
    elif kind == "crc_b":
        rf = ref_crc.add_b(payload)
    else:
        rf = draw(st.binary(min_size=3, max_size=20))
    cmd = draw(st.sampled_from([b"\x30\x04", b"\xa2\x04\x01\x02\x03\x04",
                                b"\x30\x00", b"\xc2\xff"]))
    return {"driver": drv, "kind": kind, "rf": rf, "cmd": cmd,
            "sel": draw(sel_res_of("T2T"))}


def run_tt2(case, ctx):
    drv, rf_answer = case["driver"], bytes(case["rf"])
    ctx.set_class("%s/tt2/%s" % ("rcs380" if drv == "rcs380" else "pn53x",
                                 case["kind"]))
    ctx.label("driver:" + drv, "kind:" + case["kind"])
    sel = case.get("sel", 0)
    ctx.label("sel_res:%s" % ("00" if sel == 0 else "other-t2t-platform"))
    dev, link = simchip.build(drv)
    # the chip hands over the frame as received: its own CRC check is off for
    # every target of this family (sense_tta of the PN53x drivers cleared
    # RxCRCEn, the RC-S380 driver sets check_crc=0 per exchange)
    link.chip.rf = lambda code, arg: (0, rf_answer)
    clf = simchip.frontend(dev)
    clf.target = nfc.clf.RemoteTarget(
        "106A", sens_res=bytearray(b"\x44\x00"), sel_res=bytearray([sel]),
        sdd_res=bytearray(b"\x04\x01\x02\x03\x04\x05\x06"))
    link.arm()
    if len(rf_answer) <= 2:
        want = rf_answer
    elif ref_crc.check_a(rf_answer):
        want = rf_answer[:-2]
    else:
        want = None
    what = "%s target SEL_RES %02x tag answer %s" % (drv, sel,
                                                     rf_answer.hex())
    try:
        got = clf.exchange(bytearray(case["cmd"]), 0.1)
    except nfc.clf.TransmissionError:
        if want is not None:
            raise Violation("tt2-rejects-good-crc", what)
        ctx.label("rejected")
        ctx.nontrivial()
        return
    except Exception as e:
        raise unexpected(e, detail=what)
    if want is None:
        raise Violation("tt2-accepts-bad-crc", "%s returned %r" % (what, got))
    if got is None or bytes(got) != want:
        raise Violation("tt2-payload-differs", "%s returned %r, want %s"
                        % (what, got, want.hex()))
    # the command must have reached the RF command unchanged
    sent = [a for c, a in link.chip.rf_calls]
    if not sent or not sent[-1].endswith(bytes(case["cmd"])):
        raise HarnessError("simulated chip did not see the tag command: %r"
                           % sent)
    ctx.label("passed-through" if len(rf_answer) <= 2 else "accepted")
    ctx.nontrivial()


# =============================================================== leg resend
# Histories of exchanges on ONE driver + chip + tag with a small pool of
# command objects: the same object is handed to the driver again and again
# (directly, or by the retry loop of Type1Tag.transceive), answers get lost or
# corrupted in between.  Judged on the RF side of the simulated chip.
CIU_DRIVERS = ("pn532", "pn533", "arygonB")
T1_OPCODE = {"READ8": 0x02, "WRITE-E8": 0x54, "WRITE-NE8": 0x1B, "RSEG": 0x10}
TT2_CMDS = [b"\x30\x04", b"\xa2\x04\x01\x02\x03\x04", b"\x30\x00",
            b"\xc2\xff", b"\x3a\x00\x0f"]


def rf_fault(fifo, fault):
    """what is in the CIU FIFO after the receive, given the fault"""
    if fault is None:
        return fifo
    kind = fault[0]
    if kind == "lost":
        return b""
    if kind == "noise":
        return bytes(fault[1])
    if not fifo:
        return fifo
    if kind == "flip":
        f = bytearray(fifo)
        bit = fault[1] % (8 * len(f))
        f[bit // 8] ^= 1 << (bit % 8)
        return bytes(f)
    if kind == "trunc":
        return fifo[:fault[1] % len(fifo)]
    if kind == "extend":
        return fifo + bytes(fault[1])
    raise HarnessError("unknown rf fault %r" % (fault,))


def ciu_decode(fifo):
    """independent reading of a FIFO filled by a CIU that received with the
    parity check disabled: the bit stream LSB first, every complete group of
    9 bits is 8 data bits (LSB first) + parity.  -> payload (CRC_B removed)
    or None when there is no frame with a correct CRC_B"""
    bits = []
    for b in bytes(fifo):
        bits += [(b >> i) & 1 for i in range(8)]
    octets = bytes(sum(bits[i + j] << j for j in range(8))
                   for i in range(0, len(bits) - 8, 9))
    if len(octets) < 3 or not ref_crc.check_b(octets):
        return None
    return octets[:-2]


class DynT1T(object):
    """Type 1 Tag with dynamic memory (Topaz 512: HR0 12h, 64 blocks of 8
    bytes) behind the CIU.  Like a real tag it stays mute unless the frame
    is exactly 14 command bytes + CRC_B (reference CRC) with its UID."""

    def __init__(self, uid, mseed, faults):
        self.uid = bytes(uid)
        self.mem = bytearray(det_bytes(512, "t1t-mem", mseed))
        self.faults = faults
        self.log = []

    def react(self, frame):
        if len(frame) != 16 or not ref_crc.check_b(frame):
            return None
        op, blk, data, uid = frame[0], frame[1], frame[2:10], frame[10:14]
        if uid != self.uid or blk >= 64:
            return None
        if op == 0x02:
            pass
        elif op == 0x54:
            self.mem[8 * blk:8 * blk + 8] = data
        elif op == 0x1B:
            for i in range(8):
                self.mem[8 * blk + i] |= data[i]
        else:
            return None
        return ref_crc.add_b(bytes([blk]) + bytes(self.mem[8 * blk:8 * blk + 8]))

    def on_air(self, frame):
        n = len(self.log)
        answer = self.react(frame)
        clean = simchip.parity_fifo(answer) if answer is not None else b""
        fault = self.faults.get(n)
        fifo = rf_fault(clean, fault)
        payload = ciu_decode(fifo)
        if answer is not None and fifo == clean:
            verdict = "good"        # must be accepted with this payload
        elif payload is None:
            verdict = "bad"         # must not be accepted
        else:
            verdict = "either"      # damaged outside the protected bits
        self.log.append({"frame": frame, "fault": fault, "verdict": verdict,
                         "payload": payload})
        return fifo


def t1_raw(cmd, uid):
    op = cmd["op"]
    if op == "RSEG":
        return bytes([0x10, (cmd["block"] % 4) << 4]) + bytes(8) + uid
    if op == "READ8":
        return bytes([0x02, cmd["block"] % 64]) + bytes(8) + uid
    return bytes([T1_OPCODE[op], cmd["block"] % 64]) + bytes(cmd["data"]) + uid


def t1_frames(raw):
    """the frames one fault-free execution of the command puts on the air:
    command + CRC_B(command); RSEG is executed by the PN532/PN533 drivers as
    16 READ8 commands (their documented workaround)"""
    if raw[0] != 0x10:
        return [ref_crc.add_b(raw)]
    first = (raw[1] >> 4) * 16
    return [ref_crc.add_b(bytes([0x02, b]) + raw[2:])
            for b in range(first, first + 16)]


def _call(fn):
    try:
        return "data", fn()
    except nfc.clf.CommunicationError as e:
        return "comm", e
    except nfc.tag.TagCommandError as e:
        return "tagerr", e


def check_objs_unchanged(drv, objs, raws):
    """after the history (the RF-side oracle comes first): callers such as
    Type1Tag.transceive send the object they hold again, so it must still be
    the command"""
    for obj, raw in zip(objs, raws):
        if bytes(obj) != raw:
            raise Violation("exchange-modifies-command", "%s: the caller's "
                            "command buffer %s is now %s"
                            % (drv, raw.hex(), bytes(obj).hex()))


def run_resend(case, ctx):
    if case["path"] == "tt2":
        return run_resend_tt2(case, ctx)
    import nfc.tag.tt1
    drv = case["driver"]
    uid = bytes(case["uid"])
    ctx.set_class("pn53x/resend/ciu")
    ctx.label("driver:" + drv)
    faults = {}
    for at, f in case["faults"]:
        faults.setdefault(int(at), f)
    tag = DynT1T(uid, case["mseed"], faults)
    dev, link = simchip.build(drv)
    simchip.record_ciu(link.chip, tag.on_air)
    clf = simchip.frontend(dev)
    target = nfc.clf.RemoteTarget(
        "106A", sens_res=bytearray(b"\x00\x0c"),
        rid_res=bytearray(b"\x12\x4c" + uid))
    clf.target = target
    t1t = nfc.tag.tt1.Type1Tag(clf, target)
    link.arm()
    raws = [t1_raw(c, uid) for c in case["cmds"]]
    objs = [bytearray(r) if c["as"] == "bytearray" else bytes(r)
            for r, c in zip(raws, case["cmds"])]
    sent_per_obj = [0] * len(objs)
    resent = False
    for k, step in enumerate(case["steps"]):
        ci = step["cmd"] % len(objs)
        cmd, raw, obj, via = case["cmds"][ci], raws[ci], objs[ci], step["via"]
        want = t1_frames(raw)
        n0 = len(tag.log)
        what = "%s step %d: %s %s (%s) via %s" % (drv, k, cmd["op"],
                                                 raw.hex(), cmd["as"], via)
        ctx.label("op:" + cmd["op"], "via:" + via)
        try:
            if via == "exchange":
                tagged, val = _call(lambda: clf.exchange(obj, 0.1))
            elif via == "transceive":
                tagged, val = _call(lambda: t1t.transceive(obj))
            elif cmd["op"] == "READ8":
                tagged, val = _call(lambda: t1t.read_block(raw[1]))
            elif cmd["op"] == "RSEG":
                tagged, val = _call(lambda: t1t.read_segment(raw[1] >> 4))
            else:
                tagged, val = _call(lambda: t1t.write_block(
                    raw[1], bytearray(raw[2:10]), cmd["op"] == "WRITE-E8"))
        except Exception as e:
            raise unexpected(e, detail=what)
        entries = tag.log[n0:]
        if not entries:
            raise HarnessError("%s: nothing was sent through the CIU" % what)
        # --- every transmission is command + CRC_B(command)
        attempts = []
        for e in entries:
            # a new execution of the command starts after a complete one
            # and after one that ended in a damaged / missing answer
            if not attempts or len(attempts[-1]) == len(want) or \
                    (attempts[-1][-1]["verdict"] != "good"
                     and e["frame"] == want[0]):
                attempts.append([])
            j = len(attempts[-1])
            if e["frame"] != want[j]:
                raise Violation(
                    "rf-frame-not-command-plus-crc", "%s: transmission %d "
                    "(%d of this step, %d of this command object) on the air "
                    "is %s, command + CRC_B(command) is %s"
                    % (what, n0 + sum(map(len, attempts)) + 1,
                       sum(map(len, attempts)) + 1, sent_per_obj[ci] + 1,
                       e["frame"].hex(), want[j].hex()))
            attempts[-1].append(e)
            if via != "tag":
                sent_per_obj[ci] += 1
        # --- nothing with a wrong CRC_B was accepted, good answers were
        for a in attempts:
            for e in a[:-1]:
                if e["verdict"] == "bad":
                    raise Violation("ciu-accepts-bad-crc", "%s: continued "
                                    "after answer with fault %r"
                                    % (what, e["fault"]))
        last = attempts[-1]
        if tagged == "data":
            if len(last) != len(want) or last[-1]["verdict"] == "bad":
                raise Violation("ciu-accepts-bad-crc", "%s returned %r after "
                                "%d of %d transmissions, last fault %r"
                                % (what, val, len(last), len(want),
                                   last[-1]["fault"]))
            if raw[0] == 0x10:
                full = raw[1:2] + b"".join(e["payload"][1:9] for e in last)
            else:
                full = last[-1]["payload"]
            if via in ("exchange", "transceive"):
                expect = full
            elif cmd["op"] == "READ8":
                expect = full[1:9]
            elif cmd["op"] == "RSEG":
                expect = full[1:129]
            else:
                expect = None
            got = None if val is None else bytes(val)
            if got != expect:
                raise Violation("ciu-payload-differs", "%s returned %s, the "
                                "tag sent %s" % (what, got and got.hex(),
                                                 expect and expect.hex()))
            ctx.label("accepted")
        else:
            if tagged == "tagerr" and via == "exchange":
                raise HarnessError("TagCommandError from exchange()")
            # (an answer of the chain that was damaged in a way the CRC
            # cannot see - verdict "either" - may rightly spoil the whole)
            if all(e["verdict"] == "good" for e in last) and \
                    len(last) == len(want):
                raise Violation("ciu-rejects-good-crc", "%s raised %r although "
                                "the last answer was intact" % (what, val))
            ctx.label("rejected")
        if len(attempts) > 1:
            ctx.label("retried-by-tag-layer")
            resent = True
    check_objs_unchanged(drv, objs, raws)
    if resent or max(sent_per_obj) >= 2:
        ctx.nontrivial()
    ctx.note({"transmissions": len(tag.log),
              "per_object": sent_per_obj})


def run_resend_tt2(case, ctx):
    drv = case["driver"]
    ctx.set_class("%s/resend/tt2" % ("rcs380" if drv == "rcs380" else "pn53x"))
    ctx.label("driver:" + drv)
    dev, link = simchip.build(drv)
    chip = link.chip
    answers = []
    chip.rf = lambda code, arg: (0, answers[-1])
    clf = simchip.frontend(dev)
    sel = case.get("sel", 0)
    ctx.label("sel_res:%s" % ("00" if sel == 0 else "other-t2t-platform"))
    clf.target = nfc.clf.RemoteTarget(
        "106A", sens_res=bytearray(b"\x44\x00"), sel_res=bytearray([sel]),
        sdd_res=bytearray(b"\x04\x01\x02\x03\x04\x05\x06"))
    link.arm()
    raws = [bytes(c["raw"]) for c in case["cmds"]]
    objs = [bytearray(r) if c["as"] == "bytearray" else bytes(r)
            for r, c in zip(raws, case["cmds"])]
    uses = [0] * len(objs)
    pre = 2 if drv == "rcs380" else 0      # InCommRF: 16 bit timeout first
    for k, step in enumerate(case["steps"]):
        ci = step["cmd"] % len(objs)
        raw, obj, rf_answer = raws[ci], objs[ci], bytes(step["rf"])
        answers.append(rf_answer)
        uses[ci] += 1
        what = "%s target SEL_RES %02x step %d: %s (%s, use %d), tag answer " \
            "%s" % (drv, sel, k, raw.hex(), case["cmds"][ci]["as"], uses[ci],
                    rf_answer.hex())
        if len(rf_answer) <= 2:
            want = rf_answer
        elif ref_crc.check_a(rf_answer):
            want = rf_answer[:-2]
        else:
            want = None
        n0 = len(chip.rf_calls)
        try:
            got = clf.exchange(obj, 0.1)
        except nfc.clf.TransmissionError:
            if want is not None:
                raise Violation("tt2-rejects-good-crc", what)
            got = None
            ctx.label("rejected")
        except Exception as e:
            raise unexpected(e, detail=what)
        else:
            if want is None:
                raise Violation("tt2-accepts-bad-crc", "%s returned %r"
                                % (what, got))
            if got is None or bytes(got) != want:
                raise Violation("tt2-payload-differs", "%s returned %r, want "
                                "%s" % (what, got, want.hex()))
            ctx.label("accepted")
        sent = [a for c, a in chip.rf_calls[n0:]]
        if len(sent) != 1 or sent[0][pre:] != raw:
            raise Violation("rf-command-differs", "%s: the chip was asked to "
                            "send %r" % (what, [s.hex() for s in sent]))
    check_objs_unchanged(drv, objs, raws)
    if max(uses) >= 2:
        ctx.nontrivial()


# ============================================================ leg target-hist
# Histories of activations and exchanges with DIFFERENT target kinds on ONE
# driver object.  The existing legs give every case a new device and one kind
# of target; a reader in use sees a Type 2 Tag, then a Type 4A card, then a
# FeliCa card ... on the device it opened once.  Whether the chip verifies
# and strips the CRC of a received frame is chip state that the driver sets
# up per target kind (RC-S380: InSetProtocol check_crc; PN53x family: RxCRCEn
# of CIU_RxMode, cleared after a Type 2 Tag was found), so the simulated chips
# get an RF receiver model here that honours that state.
HIST_KINDS = {
    "pn531": ["T2T", "T4A", "T3T", "DEP-A"],
    "arygonA": ["T2T", "T4A", "T3T", "DEP-A"],
    "pn532": ["T2T", "T4A", "T3T", "T4B", "DEP-A"],
    "pn533": ["T2T", "T4A", "T3T", "T4B", "DEP-A"],
    "rcs956": ["T2T", "T4A", "T3T", "T4B", "DEP-A"],
    "acr122": ["T2T", "T4A", "T3T", "T4B", "DEP-A"],
    "arygonB": ["T2T", "T4A", "T3T", "T4B", "DEP-A"],
    "rcs380": ["T2T", "T4A", "T3T", "T4B", "T3T-424", "DEP-A"],
}
H_UID = bytes.fromhex("04a1b2c3")
H_SENS = {"T2T": b"\x44\x00", "T4A": b"\x04\x03", "DEP-A": b"\x04\x00"}
H_SEL = {"T2T": b"\x00", "T4A": b"\x20", "DEP-A": b"\x40"}
H_IDM = bytes.fromhex("02fe010203040506")
H_SENSF = b"\x01" + H_IDM + bytes.fromhex("0f1e2d3c4b5a6978")
H_SENSB = bytes.fromhex("50e8253eec00000011008185")
H_TECH = {"T2T": "A", "T4A": "A", "DEP-A": "A", "T3T": "F", "T3T-424": "F",
          "T4B": "B"}
H_BRTY = {"T2T": "106A", "T4A": "106A", "DEP-A": "106A", "T3T": "212F",
          "T3T-424": "424F", "T4B": "106B"}


def air_verifies(tech, raw):
    """does the frame on the air carry the CRC its technology demands (the
    reference reading of ISO/IEC 14443-3; NFC-F frames are generated with a
    marker instead of a CRC: good ones end with 'OK')"""
    raw = bytes(raw)
    if len(raw) < 3:
        return False
    if tech == "A":
        return ref_crc.check_a(raw)
    if tech == "B":
        return ref_crc.check_b(raw)
    return raw[-2:] == b"OK"


def air_seal(tech, payload):
    payload = bytes(payload)
    if tech == "A":
        return ref_crc.add_a(payload)
    if tech == "B":
        return ref_crc.add_b(payload)
    return payload + b"OK"


class AirWorld(object):
    """the RF side of a history: which tag is in the field and what it
    answers.  ``answers`` is consumed by the data exchanges; activation
    commands are answered by the tag model itself."""

    def __init__(self):
        self.kind = None
        self.sel = None         # SEL_RES byte of a Type A tag in the field
        self.answers = []
        self.log = []           # one entry per frame the chip received

    def partner(self, data):
        """-> raw frame on the air (with CRC where the technology has one)
        or None for silence"""
        data, k = bytes(data), self.kind
        tech = H_TECH.get(k)
        if tech == "A":
            if data in (b"\x26", b"\x52"):
                return H_SENS[k]                        # no CRC
            if data == b"\x93\x20":
                bcc = H_UID[0] ^ H_UID[1] ^ H_UID[2] ^ H_UID[3]
                return H_UID + bytes([bcc])             # no CRC
            if data[:2] == b"\x93\x70":
                return ref_crc.add_a(bytes([self.sel]))
        if tech == "F" and data[1:2] == b"\x00" and len(data) == 6:
            return air_seal("F", bytes([len(H_SENSF) + 1]) + H_SENSF)
        if tech == "B" and data[:1] == b"\x05":
            return ref_crc.add_b(H_SENSB)
        if tech == "B" and data[:1] in (b"\xc2", b"\xca"):
            return ref_crc.add_b(data)                  # S(DESELECT) response
        if self.answers:
            return bytes(self.answers.pop(0))
        return None


def air_model_rcs380(chip, world):
    """RC-S380 receiver model on one Rcs380Chip instance: InSetRF and
    InSetProtocol are remembered, InCommRF hands the command to the RF
    partner and treats the answer according to check_crc (setting 2): off =
    the frame as received, on = CRC verified and removed, CRC_ERROR (status
    00000004h) without data if it does not verify; silence is
    RECEIVE_TIMEOUT (00000080h)."""
    chip.proto, chip.inrf = {}, None
    inner = chip.respond

    def respond(code, arg):
        arg = bytes(arg)
        if code == 0x00:
            chip.inrf = arg
            return b"\x00"
        if code == 0x02:
            for i in range(0, len(arg) - 1, 2):
                chip.proto[arg[i]] = arg[i + 1]
            return b"\x00"
        if code == 0x04:
            chip.rf_calls.append((code, arg))
            tech = {3: "A", 4: "A", 5: "A", 1: "F", 2: "F", 7: "B", 8: "B",
                    9: "B"}.get(chip.inrf[3] if chip.inrf else 0)
            check = chip.proto.get(2, 0)
            raw = world.partner(arg[2:])
            world.log.append({"sent": arg[2:], "raw": raw, "check": check,
                              "tech": tech})
            if raw is None:
                return struct.pack("<L", 0x80) + b"\x08"
            if check:
                if not air_verifies("B" if check == 2 else tech, raw):
                    return struct.pack("<L", 0x04) + b"\x08"
                raw = raw[:-2]
            return struct.pack("<L", 0) + b"\x08" + raw
        return inner(code, arg)
    chip.respond = respond


def air_model_pn53x(chip, world):
    """PN53x-family receiver model on one Pn53xChip instance.
    InListPassiveTarget finds the tag in the field and leaves CIU_TxMode /
    CIU_RxMode at the technology's speed and framing with TxCRCEn / RxCRCEn
    set (the firmware ran the anticollision with CRC).  InCommunicateThru
    hands the command to the RF partner; RxCRCEn (bit 7 of CIU_RxMode) set:
    CRC verified and removed, status 02h (CRC error) if it does not verify;
    clear: the frame as received.  Silence is status 01h."""
    inner = chip.respond
    REG_TXMODE, REG_RXMODE = 0x6302, 0x6303

    def respond(code, arg):
        arg = bytes(arg)
        k = world.kind
        tech = H_TECH.get(k)
        if code == 0x4A:
            brty = arg[1]
            if brty == 0 and tech == "A":
                mode = 0x80
                found = H_SENS[k][::-1] + bytes([world.sel]) + b"\x04" + H_UID
            elif brty in (1, 2) and tech == "F" and \
                    H_BRTY[k] == ("212F", "424F")[brty - 1]:
                mode = 0x82 | brty << 4
                found = bytes([len(H_SENSF) + 1]) + H_SENSF
            elif brty == 3 and tech == "B":
                mode, found = 0x83, H_SENSB + b"\x01\x01"
            else:
                return b"\x00"
            chip.regs[REG_TXMODE] = chip.regs[REG_RXMODE] = mode
            return b"\x01\x01" + found
        if code == 0x42:
            chip.rf_calls.append((code, arg))
            rxmode = chip.regs.get(REG_RXMODE, 0)
            rtech = {0: "A", 2: "F", 3: "B"}.get(rxmode & 3)
            raw = world.partner(arg)
            world.log.append({"sent": arg, "raw": raw, "check": rxmode >> 7,
                              "tech": rtech})
            if raw is None:
                return b"\x01"
            if rxmode & 0x80:
                if not air_verifies(rtech, raw):
                    return b"\x02"
                raw = raw[:-2]
            return b"\x00" + raw
        return inner(code, arg)
    chip.respond = respond


def hist_device(drv):
    dev, link = simchip.build(drv)
    world = AirWorld()
    (air_model_rcs380 if drv == "rcs380" else air_model_pn53x)(link.chip,
                                                               world)
    clf = simchip.frontend(dev)
    link.arm()
    return clf, link, world


def hist_sense(clf, world, drv, kind, sel=None):
    """put a tag of ``kind`` (Type A: with SEL_RES ``sel``, default the usual
    value of the kind) into the field and let the frontend find it"""
    world.kind, world.answers = kind, []
    if H_TECH[kind] == "A":
        world.sel = H_SEL[kind][0] if sel is None else sel
    try:
        t = clf.sense(nfc.clf.RemoteTarget(H_BRTY[kind]))
    except Exception as e:
        raise unexpected(e, detail="%s sense %s" % (drv, kind))
    ok = t is not None and t.brty == H_BRTY[kind]
    if ok and H_TECH[kind] == "A":
        ok = t.sel_res is not None and bytes(t.sel_res) == bytes([world.sel])
    if not ok:
        raise HarnessError("%s: simulated %s tag was not found by sense(): %s"
                           % (drv, kind, t))
    return t


H_CMDS = {
    "T2T": [b"\x30\x04", b"\xa2\x04\x01\x02\x03\x04", b"\x3a\x00\x0f"],
    "T4A": [bytes.fromhex("0200a4040007d276000085010100"),
            bytes.fromhex("0300b000000f"), b"\xb2"],
    "T4B": [bytes.fromhex("0200a4040007d276000085010100"),
            bytes.fromhex("0300b000000f"), b"\xb2"],
    "DEP-A": [bytes.fromhex("f006d40600000000")[:6],
              bytes.fromhex("f005d4060100")],
    "T3T": [b"\x10\x06" + H_IDM + bytes.fromhex("010b00018000"),
            b"\x0a\x0c" + H_IDM],
}
H_CMDS["T3T-424"] = H_CMDS["T3T"]


def damage(tech, payload, dmg):
    """the frame on the air for a tag answer ``payload`` under ``dmg``"""
    raw = bytearray(air_seal(tech, payload))
    kind = dmg[0]
    if kind == "none":
        pass
    elif kind == "flip":
        bit = dmg[1] % (8 * len(raw))
        raw[bit // 8] ^= 1 << (bit % 8)
    elif kind == "swap":
        raw[-2:] = raw[-2:][::-1]
    elif kind == "other":       # the CRC of another technology
        raw = bytearray({"A": ref_crc.add_b, "B": ref_crc.add_a,
                         "F": lambda p: p + b"KO"}[tech](bytes(payload)))
    elif kind == "tail":
        raw[-2:] = bytes(dmg[1])[:2].ljust(2, b"\x00")
    elif kind == "short":
        raw = bytearray(bytes(dmg[1])[:2] or b"\x0a")
    else:
        raise HarnessError("unknown damage %r" % (dmg,))
    return bytes(raw)


_fresh_cmds = {}


def fresh_exchange_cmds(drv, kind, cmd, sel=None):
    """host commands of one exchange of ``cmd`` with a ``kind`` target right
    after a NEW device found it (good answer)"""
    key = (drv, kind, bytes(cmd), sel)
    if key not in _fresh_cmds:
        clf, link, world = hist_device(drv)
        hist_sense(clf, world, drv, kind, sel)
        n0 = len(link.cmds)
        world.answers = [air_seal(H_TECH[kind], b"\x01\x02\x03\x04")]
        try:
            clf.exchange(bytearray(cmd), 0.1)
        except Exception:
            pass        # the history cases judge the outcome
        _fresh_cmds[key] = list(link.cmds[n0:])
    return _fresh_cmds[key]


def _show(cmds):
    return " ".join("%02x:%s" % (c, a.hex()) for c, a in cmds)


def run_target_hist(case, ctx):
    drv = case["driver"]
    fam = "rcs380" if drv == "rcs380" else "pn53x"
    ctx.label("driver:" + drv, "steps:%d" % len(case["steps"]))
    clf, link, world = hist_device(drv)
    trail = []
    kinds = []
    unusual = False
    for step in case["steps"]:
        kind = step["kind"]
        tech = H_TECH[kind]
        ctx.set_class("%s/hist/%s" % (fam, kind))
        sel = step.get("sel") if tech == "A" else None
        hist_sense(clf, world, drv, kind, sel)
        kinds.append(kind)
        if tech == "A":
            unusual = unusual or world.sel != H_SEL[kind][0]
            ctx.label("sel_res:%s:%s" % (kind, "usual" if world.sel ==
                                         H_SEL[kind][0] else "other"))
        tag = kind if tech != "A" else "%s[%02x]" % (kind, world.sel)
        for x in step["exch"]:
            cmd = H_CMDS[kind][x["cmd"] % len(H_CMDS[kind])]
            dmg = x["damage"]
            if dmg[0] == "short" and kind != "T2T":
                dmg = ["swap"]
            raw = damage(tech, x["payload"], dmg)
            if kind == "T2T" and len(raw) <= 2:
                want = raw          # ACK / NAK pass through
            elif air_verifies(tech, raw):
                want = raw[:-2]
            else:
                want = None
            trail.append("%s:%s" % (tag, dmg[0]))
            what = "%s history %s: %s command %s, answer on the air %s" % (
                drv, " ".join(trail), kind, cmd.hex(), raw.hex())
            world.answers = [raw]
            n0 = len(link.cmds)
            try:
                got = clf.exchange(bytearray(cmd), 0.1)
            except nfc.clf.TransmissionError:
                if want is not None:
                    raise Violation("hist-rejects-good-crc", what)
                ctx.label("rejected")
            except Exception as e:
                raise unexpected(e, detail=what)
            else:
                if want is None:
                    raise Violation("hist-accepts-bad-crc", "%s returned %r"
                                    % (what, got))
                if got is None or bytes(got) != want:
                    raise Violation("hist-payload-differs", "%s returned %r, "
                                    "the tag sent %s" % (what, got,
                                                         want.hex()))
                ctx.label("accepted")
            # what the chip was told for this exchange is what a new device
            # tells it for this target kind
            mine = list(link.cmds[n0:])
            fresh = fresh_exchange_cmds(drv, kind, cmd, sel)
            if mine != fresh:
                raise Violation("hist-settings-differ", "%s: host commands "
                                "%s, a new device sends %s"
                                % (what, _show(mine), _show(fresh)))
    if len(set(kinds)) >= 2 or unusual:
        ctx.nontrivial()
    ctx.note({"history": trail})


_h_damage = st.one_of(
    st.just(["none"]), st.just(["none"]), st.just(["none"]),
    st.integers(0, 8 * 24).map(lambda b: ["flip", b]),
    st.just(["swap"]), st.just(["other"]),
    st.binary(min_size=2, max_size=2).map(lambda b: ["tail", b]),
    st.sampled_from([b"\x0a", b"\x00", b"\x05", b"\x01\x02"]).map(
        lambda b: ["short", b]))
_h_exch = st.fixed_dictionaries({
    "cmd": st.integers(0, 2),
    "payload": st.one_of(st.binary(min_size=1, max_size=18),
                         st.binary(min_size=16, max_size=16)),
    "damage": _h_damage})


@st.composite
def gen_target_hist(draw):
    drv = draw(st.sampled_from(list(TT2_DRIVERS) + ["rcs380", "rcs380"]))
    exch = st.lists(_h_exch, min_size=1, max_size=2)
    # Type A kinds twice: with the usual SEL_RES of the kind (no "sel" key)
    # and with a SEL_RES drawn from the kind's family
    step = st.one_of(
        [st.fixed_dictionaries({"kind": st.just(k), "exch": exch})
         for k in HIST_KINDS[drv]] +
        [st.fixed_dictionaries({"kind": st.just(k), "exch": exch,
                                "sel": sel_res_of(k)})
         for k in HIST_KINDS[drv] if H_TECH[k] == "A"])
    steps = draw(st.lists(step, min_size=2, max_size=4))
    return {"driver": drv, "steps": steps}


_rf_fault = st.one_of(
    st.just(["lost"]), st.just(["lost"]),
    st.integers(0, 127).map(lambda b: ["flip", b]),
    st.integers(0, 13).map(lambda k: ["trunc", k]),
    st.binary(min_size=1, max_size=2).map(lambda b: ["extend", b]),
    st.binary(min_size=1, max_size=14).map(lambda b: ["noise", b]))


@st.composite
def _tt2_answer(draw):
    kind = draw(st.sampled_from(["good", "good", "flip", "short", "swapped",
                                 "crc_b", "random"]))
    n = draw(st.integers(1, 18))
    payload = draw(st.binary(min_size=n, max_size=n))
    if kind == "good":
        return ref_crc.add_a(payload)
    if kind == "flip":
        x = bytearray(ref_crc.add_a(payload))
        b = draw(st.integers(0, 8 * len(x) - 1))
        x[b // 8] ^= 1 << (b % 8)
        return bytes(x)
    if kind == "short":
        return draw(st.binary(min_size=1, max_size=2))
    if kind == "swapped":
        return payload + ref_crc.crc_a(payload)[::-1]
    if kind == "crc_b":
        return ref_crc.add_b(payload)
    return draw(st.binary(min_size=3, max_size=20))


@st.composite
def gen_resend(draw):
    kinds = st.sampled_from(["bytearray", "bytearray", "bytes"])
    if draw(st.integers(0, 3)) == 0:
        ncmd = draw(st.integers(1, 2))
        cmds = [{"raw": draw(st.sampled_from(TT2_CMDS)), "as": draw(kinds)}
                for _ in range(ncmd)]
        steps = draw(st.lists(st.fixed_dictionaries({
            "cmd": st.integers(0, ncmd - 1), "rf": _tt2_answer()}),
            min_size=2, max_size=4))
        return {"path": "tt2", "driver": draw(st.sampled_from(TT2_DRIVERS)),
                "cmds": cmds, "steps": steps, "sel": draw(sel_res_of("T2T"))}
    ncmd = draw(st.integers(1, 2))
    cmds = [{"op": draw(st.sampled_from(["READ8", "READ8", "WRITE-E8",
                                         "WRITE-NE8", "RSEG"])),
             "block": draw(st.integers(0, 63)),
             "data": draw(st.binary(min_size=8, max_size=8)),
             "as": draw(kinds)} for _ in range(ncmd)]
    steps = draw(st.lists(st.fixed_dictionaries({
        "cmd": st.integers(0, ncmd - 1),
        "via": st.sampled_from(["exchange", "exchange", "transceive",
                                "tag"])}), min_size=2, max_size=4))
    faults = draw(st.lists(st.tuples(
        st.one_of(st.integers(0, 4), st.integers(0, 40)), _rf_fault),
        max_size=4))
    return {"path": "ciu", "driver": draw(st.sampled_from(CIU_DRIVERS)),
            "uid": draw(st.binary(min_size=4, max_size=4)),
            "mseed": draw(st.integers(0, 999)),
            "cmds": cmds, "steps": steps, "faults": faults}


# ============================================================ leg cmd-faults
# Everything the driver writes while a command goes wrong: the answers of the
# device are scripted (acknowledge, response, silence, noise), the driver
# raises or returns as it likes, and EVERY write that reached the transport is
# judged - the command frame, and whatever the driver writes to cancel the
# command (the ACK frame, inside the CCID envelope on the ACR122).
def _fault_reads(chip, code, script, seedkey):
    out = []
    timeout = IOError(errno.ETIMEDOUT, os.strerror(errno.ETIMEDOUT))
    for i, kind in enumerate(script):
        if kind == "timeout":
            out.append(timeout)
        elif kind == "eio":
            out.append(IOError(errno.EIO, os.strerror(errno.EIO)))
        elif kind == "ack":
            out.append(ref.ccid_build_rsp(b"") if chip == "acr122"
                       else ref.ACK)
        elif kind == "rsp":
            out.append(base_response(chip, code, b"\x00", False))
        elif kind == "error":
            out.append(ref.ccid_build_rsp(b"\x63\x00") if chip == "acr122"
                       else ref.ERROR)
        elif kind == "noise":
            out.append(det_bytes(3 + 5 * i, "noise", seedkey, i))
        elif kind == "cut":
            r = base_response(chip, code, b"\x00", False)
            out.append(r[:len(r) // 2])
        else:
            raise HarnessError("unknown read kind %r" % kind)
    return out


def run_cmd_faults(case, ctx):
    chip, code = case["chip"], case["code"]
    payload = det_bytes(case["len"], "cmd-faults", chip, code)
    ctx.set_class("%s/cmd-faults" % chip)
    cs = chipset_for(chip)
    link = ScriptLink(_fault_reads(chip, code, case["script"], case["len"]))
    cs.transport = link
    simchip.CLOCK.reset()
    failed = True
    try:
        cs.command(code, bytearray(payload), case["timeout"])
        ctx.label("returned")
        failed = False
    except IOError as e:
        ctx.label("IOError:%s" % errno.errorcode.get(e.errno, e.errno))
    except nfc.clf.pn53x.Chipset.Error:
        ctx.label("chip-error")
    except Exception as e:
        raise unexpected(e, detail="%s command(%#x, %d bytes), reads %r"
                         % (chip, code, len(payload), case["script"]))
    if failed or len(link.writes) >= 2:
        ctx.nontrivial()
    if len(link.writes) >= 2:
        ctx.label("writes:%d" % min(len(link.writes), 4))
    seen_cmd = 0
    for w in link.writes:
        where = "%s code %#04x len %d reads %r: write %s" % (
            chip, code, len(payload), case["script"], w.hex()[:80])
        try:
            if chip == "acr122":
                body = ref.ccid_parse_host(w)
                if body == ref.ACK:
                    continue
                c, p = ref.acr_parse_command(w)
            else:
                if chip.startswith("arygon"):
                    if w[:1] != b"2":
                        raise ref.RefReject("arygon-prefix", w[:1].hex())
                    w = w[1:]
                if w == ref.ACK:
                    continue
                c, p, fmt = ref.parse_command(w)
        except ref.RefReject as r:
            raise Violation("cmd-frame-malformed:" + r.reason,
                            "%s: %s %s" % (where, r.reason, r.detail))
        seen_cmd += 1
        if c != code or p != payload:
            raise Violation("cmd-frame-content", "%s decodes to code %#x, "
                            "%d bytes" % (where, c, len(p)))
    if seen_cmd != 1:
        raise Violation("cmd-write-count", "%s code %#x: the command frame "
                        "was written %d times (%d writes)"
                        % (chip, code, seen_cmd, len(link.writes)))


READ_KINDS = ["timeout", "timeout", "ack", "ack", "rsp", "error", "noise",
              "cut", "eio"]


@st.composite
def cmd_faults_case(draw):
    chip = draw(st.sampled_from(RSP_CHIPS))
    code = draw(st.sampled_from(CODES[chip]))
    first = draw(st.sampled_from(["ack", "ack", "ack", "timeout", "noise",
                                  "rsp"]))
    script = [first] + draw(st.lists(st.sampled_from(READ_KINDS),
                                     max_size=3))
    return {"chip": chip, "code": code,
            "len": draw(st.sampled_from([0, 1, 2, 16, 250])),
            "timeout": draw(st.sampled_from([0.1, 0.25, 1.0])),
            "script": script}



# ================================================================ leg acr-led
# The other frames the ACR122 driver writes: the LED / buzzer pseudo APDUs
# (FF 00 40 <led state> 04 <T1 T2 repetitions buzzer>) for every duration an
# application may ask for.
def run_acr_led(case, ctx):
    ctx.set_class("acr122/led")
    cs = chipset_for("acr122")
    link = ScriptLink([ref.ccid_build_rsp(b"\x90\x02")] * 2)
    cs.transport = link
    try:
        if case["what"] == "default":
            cs.set_buzzer_and_led_to_default()
        elif case["ms"] is None:
            cs.set_buzzer_and_led_to_active()
        else:
            cs.set_buzzer_and_led_to_active(case["ms"])
    except Exception as e:
        raise unexpected(e, detail="acr122 LED command %r" % (case,))
    if len(link.writes) != 1:
        raise Violation("cmd-write-count", "%r: %d writes"
                        % (case, len(link.writes)))
    w = link.writes[0]
    try:
        apdu = ref.ccid_parse_host(w)
        if len(apdu) < 5 or apdu[:3] != b"\xff\x00\x40":
            raise ref.RefReject("apdu-header", apdu[:5].hex())
        if apdu[4] != 4 or len(apdu) != 5 + apdu[4]:
            raise ref.RefReject("apdu-lc", "Lc %d, %d data bytes"
                                % (apdu[4], len(apdu) - 5))
    except ref.RefReject as r:
        raise Violation("cmd-frame-malformed:" + r.reason, "%r wrote %s: %s %s"
                        % (case, w.hex(), r.reason, r.detail))
    if case["what"] == "active" and (case["ms"] or 0) >= 25600:
        ctx.nontrivial()
    if case["what"] == "active" and case["ms"] is not None:
        ctx.label("T1:%02x" % apdu[5])


def enum_acr_led(tier, seed):
    yield {"what": "default", "ms": None}
    yield {"what": "active", "ms": None}
    top = 30000 if tier == "quick" else 70000
    for ms in range(0, top, 50 if tier == "quick" else 1):
        yield {"what": "active", "ms": ms}
    for ms in (25599, 25600, 25601, 409500, 409600, 409700, 6553600,
               10 ** 7, 10 ** 9):
        yield {"what": "active", "ms": ms}



LEGS = [
    Leg("anchors", run=run_anchor, enum=enum_anchors, exhaustive=True,
        rule="literal frames of tests/base_clf_pn53x.py, test_clf_acr122.py, "
             "test_clf_rcs380.py, test_clf_device.py and the ISO/IEC 14443-3 "
             "Annex B CRC examples, through the reference models and the "
             "library."),
    Leg("cmd-frames", run=run_cmd_frame, bulk=bulk_cmd_frames, exhaustive=True,
        shards_quick=8, shards_thorough=16,
        rule="8 chipset classes x every code of the class' CMD table x every "
             "payload length 0..max (PN53x 252/263, ACR122 252, RC-S380 "
             "0..300 plus 509..513, 4095, 4096, 65533) x seeded random "
             "content (+ all-00/all-FF content at every 7th and at boundary "
             "lengths); non-trivial = length within 2 of the 254/255 format "
             "switch or of the maximum."),
    Leg("acr-led", run=run_acr_led, enum=enum_acr_led, exhaustive=True,
        shards_quick=2, shards_thorough=8,
        rule="ACR122 LED / buzzer pseudo APDUs: the default state, the "
             "active state without argument and with every duration 0.."
             "30 s in steps of 50 ms (thorough: 0..70 s, every ms) plus "
             "25.6 s, 409.6 s, 6553.6 s, 1e7 and 1e9 ms; the write is one "
             "well-formed CCID message carrying FF 00 40 xx 04 and exactly "
             "four data bytes (which duration byte the driver chooses is "
             "not judged).  "
             "Non-trivial = duration at or above the 25.6 s clamp."),
    Leg("cmd-faults", run=run_cmd_faults,
        gen=lambda tier: cmd_faults_case(), quick=1500, thorough=30000,
        shards_quick=8, shards_thorough=16, nt_floor=0.2,
        rule="7 PN53x-family chipset classes and the ACR122: one command "
             "(any code of the CMD table, payload 0/1/2/16/250 octets, "
             "timeout 0.1/0.25/1 s) against a scripted device that answers "
             "with 1-4 of {acknowledge, response, error frame, noise, a cut "
             "response, silence, input/output error}.  Every write that "
             "reached the transport is judged: exactly one well-formed "
             "command frame with the given code and payload, anything else "
             "must be the ACK frame (on the ACR122 inside a well-formed CCID "
             "PC_to_RDR_XfrBlock message).  Non-trivial = command() ended "
             "with an error or the driver wrote more than the command frame "
             "(a cancel)."),
    Leg("rsp-mutations", run=run_response, enum=enum_rsp_mutations,
        exhaustive=True, shards_quick=8, shards_thorough=16,
        rule="per base response frame (7 chipset classes x 3 codes x payload "
             "0/1/5 bytes, one short extended-format frame per class, long "
             "frames at the 255/256 format switch; more codes and lengths in "
             "thorough): the unmutated frame, every single bit flip, every "
             "truncation to 1..len-1 bytes, six 1-3 byte extensions; "
             "non-trivial = mutated frame still starts with the start code / "
             "CCID type (reaches length and checksum logic)."),
    Leg("rsp-subst", run=run_response, gen=lambda tier: gen_rsp_subst(),
        quick=8000, thorough=200000, shards_quick=8, shards_thorough=16,
        nt_floor=0.3,
        rule="random multi-byte substitutions (1-4 bytes), compensated "
             "additions on field pairs (LEN/LCS, LENM/LENL, TFI/DCS, "
             "code/DCS, data/DCS, DCS/postamble), byte deletions and "
             "insertions, double bit flips, rewritten tails and raw frames "
             "behind a valid start code; non-trivial as above."),
    Leg("crc-short", run=run_crc_msg, bulk=bulk_crc_short, exhaustive=True,
        shards_quick=8, shards_thorough=16,
        rule="every message of 0..2 bytes (quick) / 0..3 bytes (thorough): "
             "calculate_crc, add_crc_a/b, check_crc_a/b(add(m)) against "
             "ref_crc for every message, plus every single bit flip of "
             "add(m) for all messages <= 1 byte, every 4th (quick) / every "
             "(thorough) 2-byte message and every 61st 3-byte message; "
             "evaluations count check calls; for every message also: the "
             "bytearray handed to calculate_crc / add_crc_* / check_crc_* is "
             "unchanged afterwards; for every message <= 2 bytes and every "
             "61st 3-byte message a second add_crc_* on the same bytearray "
             "gives the same frame and bytes / list arguments give the same "
             "results; non-trivial = message length >= 1."),
    Leg("crc-random", run=run_crc_msg, gen=gen_crc_random, quick=2000,
        thorough=30000, shards_quick=8, shards_thorough=16, nt_floor=0.5,
        rule="random and constant-byte messages of 0..300 bytes with up to "
             "12 single bit flips and 4 bursts (1-5 bytes) of the protected "
             "frame: check_crc_* agrees with the reference, arguments are "
             "left unchanged (as in crc-short); non-trivial = length >= 1."),
    Leg("tt2-path", run=run_tt2, gen=lambda tier: gen_tt2(), quick=3000,
        thorough=40000, shards_quick=8, shards_thorough=16, nt_floor=0.5,
        rule="ContactlessFrontend.exchange() with a Type 2 Tag platform "
             "target (Type A, SEL_RES any of the 32 values with bits 20h, "
             "40h and the cascade bit clear; 00h, 08h, 18h, 09h, 10h, 11h, "
             "01h, 88h emphasised) over "
             "the simulated chip of pn531/pn532/pn533/rcs956/acr122/arygonA/"
             "arygonB/rcs380: tag answers with good CRC_A, single bit flip, "
             "burst, byte-swapped CRC, CRC_B instead of CRC_A, 1-2 byte "
             "ACK/NAK, random; non-trivial = the exchange reached the "
             "driver's CRC decision."),
    Leg("target-hist", run=run_target_hist,
        gen=lambda tier: gen_target_hist(), quick=2400, thorough=40000,
        shards_quick=8, shards_thorough=16, nt_floor=0.5,
        rule="histories on ONE driver object (pn531/pn532/pn533/rcs956/"
             "acr122/arygonA/arygonB over the simulated PN53x, rcs380 over "
             "the simulated RC-S380, each with an RF receiver model that "
             "verifies and strips the CRC exactly when the chip state set by "
             "the driver says so): 2-4 steps, each step puts a tag of a "
             "generated kind (Type 2, Type 4A, Type 3 at 212/424, Type 4B, "
             "NFC-DEP Type A as the driver supports) into the field, finds "
             "it with ContactlessFrontend.sense() (Type A kinds: NFC-DEP "
             "Type A now on every driver; in half of the Type A steps the "
             "tag's SEL_RES is drawn from the kind's family instead of the "
             "usual 00h / 20h / 40h: Type 2 platform = the 32 values with "
             "bits 20h, 40h, 04h clear, Type 4A = the 64 values with 20h set "
             "and 04h clear incl. 60h, NFC-DEP = the 32 values with 40h set, "
             "20h and 04h clear) and runs 1-2 exchange() "
             "calls whose answers carry a good CRC or are damaged (bit flip, "
             "swapped CRC bytes, CRC of the other technology, replaced CRC, "
             "1-2 byte frames). Oracle per exchange: a frame whose CRC fails "
             "under the reference is never returned (TransmissionError), a "
             "good one is returned as exactly the payload without CRC bytes "
             "(Type 2 Tag ACK/NAK frames pass), and the host commands of the "
             "exchange equal those a new device sends for the same target "
             "kind, SEL_RES and command. Non-trivial = at least two "
             "different target kinds on the device or a Type A target with "
             "another than the usual SEL_RES."),
    Leg("resend", run=run_resend, gen=lambda tier: gen_resend(), quick=2400,
        thorough=40000, shards_quick=8, shards_thorough=16, nt_floor=0.35,
        rule="histories of 2-4 exchanges on one driver + simulated chip + "
             "tag with a pool of 1-2 command objects (bytearray or bytes) "
             "that are handed to the driver again and again. 3 of 4 cases: "
             "pn532/pn533/arygonB with a dynamic-memory Type 1 Tag whose "
             "READ8 / WRITE-E8 / WRITE-NE8 / RSEG commands the driver sends "
             "through CIU registers with a host-computed CRC_B, each step "
             "through ContactlessFrontend.exchange(), through the retry loop "
             "of Type1Tag.transceive() with the same object, or through "
             "Type1Tag.read_block/write_block/read_segment; up to 4 answers "
             "(by transmission index) are lost, bit-flipped, truncated, "
             "extended or replaced by noise. Oracle on the RF side of the "
             "chip: every transmission is command + CRC_B(command) by the "
             "reference (the simulated tag is mute otherwise), the command "
             "object is unchanged, an answer whose CRC_B fails under the "
             "reference is never accepted, an intact one is returned. 1 of "
             "4 cases: Type 2 Tag commands over all 8 drivers to a target "
             "whose SEL_RES is drawn from the 32 Type 2 platform values (as "
             "in tt2-path) with good / "
             "damaged CRC_A answers per step (tt2-path oracle per step, the "
             "command reaches InCommunicateThru / InCommRF unchanged every "
             "time). Non-trivial = some command object was transmitted at "
             "least twice."),
]

# the same searches under "python -O": a response check that rests on an
# assert statement validates nothing there (the quantifier of C14 does not
# exempt any interpreter mode)
_by = dict((lg.name, lg) for lg in LEGS)
LEGS += [
    twin_O(_by["rsp-mutations"], shards_quick=4),
    twin_O(_by["rsp-subst"], quick=3000, thorough=60000, shards_quick=4),
    twin_O(_by["tt2-path"], quick=1200, thorough=12000, shards_quick=4),
    twin_O(_by["crc-random"], quick=800, thorough=8000, shards_quick=2),
]

# the same searches with every nfc logger enabled down to the lowest level
# (code that only runs, or only evaluates its arguments, when logging is on)
_byl = dict((lg.name, lg) for lg in LEGS)
LEGS += [twin_env(_byl[n], "log", {"VERIF_LOG": "debug"}, quick=q, thorough=t,
                  shards_quick=2)
         for n, q, t in [('rsp-subst', 1000, 10000)] if n in _byl]
