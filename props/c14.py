"""C14 - host-link frames and ISO 14443 CRCs are built and checked correctly.

legs
  anchors     literal frames of the repository's driver tests and the
              ISO/IEC 14443-3 Annex B CRC examples, replayed through the
              reference models (and the library) once per run
  cmd-frames  every chipset class x every command code of its CMD table x
              every payload length 0..max: the bytes handed to the transport
              parse under ref_pn53x and decode back to (code, payload)
  rsp-mutations  valid response frames under every single bit flip, every
              truncation and 1-3 byte extensions (exhaustive per base frame):
              accepted implies valid under the independent validator with the
              same data, otherwise IOError (Chipset.Error for an error frame)
  rsp-subst   random multi-byte substitutions, compensated field pairs,
              splices of valid response frames (same oracle)
  crc-short   calculate_crc / add_crc_a/b / check_crc_a/b against ref_crc for
              every message of <= 2 (quick) / <= 3 (thorough) bytes incl. all
              single bit flips of the protected frame
  crc-random  the same for random messages <= 300 bytes with bit flips and
              bursts
  tt2-path    the Type 2 Tag exchange path of every PN53x-family driver and
              of rcs380 under a real ContactlessFrontend: payload for a good
              CRC_A, TransmissionError for a bad one, 1-2 byte answers passed
"""
import errno
import hashlib
import itertools
import os
import struct

from hypothesis import strategies as st

import nfc.clf
import nfc.clf.acr122
import nfc.clf.arygon
import nfc.clf.device
import nfc.clf.pn53x
import nfc.clf.rcs380

from vlib import ref_crc, simchip
from vlib import ref_pn53x as ref
from vlib.engine import HarnessError, Leg, Violation, unexpected

PROPERTY = "C14"
LEVEL = "exploration"
ASSUMPTIONS = [
    "vlib/ref_pn53x.py is a correct reading of the PN532 user manual 6.2.1 "
    "frame formats, of the ACR122U direct-transmit envelope and of the "
    "Port-100 frame; vlib/ref_crc.py of ISO/IEC 14443-3 Annex B",
    "a transport delivers non-empty frames or raises IOError (as "
    "nfc.clf.transport does); empty frames and None are not generated",
    "CCID header fields other than bMessageType and dwLength (slot, sequence, "
    "status, error, chain) carry no checksum and are not judged, only "
    "labelled",
    "an extended-format frame with a length below 256 is treated as valid "
    "(the manual does not forbid it); it is labelled",
    "RC-S380 response validation is outside the property (its statement "
    "names PN53x/ACR122 responses); only RC-S380 command frames are checked",
]

# confirmed-defect input classes to skip while developing: empty unless the
# environment variable names classes (comma separated); skipped draws are
# counted under the label "excluded-dev:<class>"
EXCLUDE_CLASSES = set(filter(None, os.environ.get("VERIF_EXCLUDE_C14",
                                                  "").split(",")))

PN53X_CHIPS = ("pn531", "pn532", "pn533", "rcs956", "arygonA", "arygonB")
RSP_CHIPS = PN53X_CHIPS + ("acr122",)
ALL_CHIPS = RSP_CHIPS + ("rcs380",)


def setup():
    simchip.patch_time()


# ---------------------------------------------------------------- plumbing
class ScriptLink(object):
    """transport whose reads come from a list (bytes, or an exception to
    raise); everything written is kept.  It does not look at what is written,
    so a driver that builds broken frames still gets its canned answers."""
    TYPE = "USB"
    manufacturer_name = "SimCo"
    product_name = "SimReader"

    def __init__(self, reads=()):
        self.reads = list(reads)
        self.writes = []

    def write(self, frame):
        self.writes.append(bytes(frame))

    def read(self, timeout=0):
        if not self.reads:
            raise IOError(errno.ETIMEDOUT, os.strerror(errno.ETIMEDOUT))
        x = self.reads.pop(0)
        if isinstance(x, Exception):
            raise x
        return bytearray(x)

    def close(self):
        pass


_chipsets = {}


def chipset_for(chip):
    """the driver's chipset object, built once per process through the real
    class constructor over a ScriptLink with canned answers (the literal init
    transcripts of tests/test_clf_acr122.py and test_clf_rcs380.py); each
    case then installs its own ScriptLink"""
    cs = _chipsets.get(chip)
    if cs is not None:
        return cs
    import logging
    log = logging.getLogger("c14")
    timeout = IOError(errno.ETIMEDOUT, os.strerror(errno.ETIMEDOUT))
    if chip in ("pn531", "pn532", "pn533", "rcs956"):
        mod = __import__("nfc.clf." + chip, fromlist=["Chipset"])
        cs = mod.Chipset(ScriptLink(), logger=log)
    elif chip in ("arygonA", "arygonB"):
        cls = getattr(nfc.clf.arygon, "Chipset" + chip[-1])
        cs = cls(ScriptLink(), logger=log)
    elif chip == "acr122":
        cs = nfc.clf.acr122.Chipset(ScriptLink([bytes.fromhex(h) for h in (
            "800a000000000002810041435231323255323033",
            "800200000000000081003b00",
            "800100000000000081007f",
            "800200000000000081009002")]))
    elif chip == "rcs380":
        cs = nfc.clf.rcs380.Chipset(ScriptLink([
            timeout,
            ref.ACK, ref.p100_build_response(0x2A, b"\x00"),
            ref.ACK, ref.p100_build_response(0x20, b"\x11\x01"),
            ref.ACK, ref.p100_build_response(0x22, b"\x00\x01"),
            ref.ACK, ref.p100_build_response(0x06, b"\x00")]), logger=log)
    else:
        raise HarnessError("unknown chip %r" % chip)
    _chipsets[chip] = cs
    return cs


def max_payload(chip):
    if chip == "rcs380":
        return 300
    return chipset_for(chip).host_command_frame_max_size - 2


def codes_of(chip):
    return sorted(chipset_for(chip).CMD)


def _codes_table():
    return dict((chip, sorted(chipset_for(chip).CMD)) for chip in ALL_CHIPS)


def det_bytes(n, *key):
    h = hashlib.shake_128(("|".join(str(k) for k in key)).encode())
    return h.digest(n) if n else b""


CODES = _codes_table()


# ============================================================== leg anchors
def _std(data):
    return ref.build(data, extended=False)


ACR_CMD = lambda cmd: struct.pack("<BIxxxxxBxxxB", 0x6F, 5 + len(cmd), 0xFF,  # noqa
                                  len(cmd)) + cmd
ACR_RSP = lambda rsp: struct.pack("<BIxxxBx", 0x80, len(rsp), 0x81) + rsp  # noqa

ANCHORS = [
    # --- ISO/IEC 14443-3 Annex B and tests/test_clf_device.py
    {"k": "crc", "t": "A", "msg": "0000", "crc": "a01e"},
    {"k": "crc", "t": "A", "msg": "1234", "crc": "26cf"},
    {"k": "crc", "t": "B", "msg": "000000", "crc": "ccc6"},
    {"k": "crc", "t": "B", "msg": "0faaff", "crc": "fcd1"},
    {"k": "crc", "t": "B", "msg": "0000", "crc": "470f"},
    # --- tests/base_clf_pn53x.py: command frames written by Chipset.command
    {"k": "pn-cmd", "hex": "0000ff05fbd4003132339600", "code": 0,
     "payload": "313233", "fmt": "normal"},
    {"k": "pn-cmd", "hex": "0000ffffff0105fad400" + "313233" + "00" * 256
     + "9600", "code": 0, "payload": "313233" + "00" * 256,
     "fmt": "extended"},
    # --- responses: (frame, command code, payload or reject reason)
    {"k": "pn-rsp", "hex": "0000ff05fbd5013435368b00", "code": 0,
     "payload": "343536"},
    {"k": "pn-rsp", "hex": "0000ffffff0105fad501" + "343536" + "00" * 256
     + "8b00", "code": 0, "payload": "343536" + "00" * 256},
    {"k": "pn-rsp", "hex": "0000ff04fbd5013435368b00", "code": 0,
     "reject": "lcs"},
    {"k": "pn-rsp", "hex": "0000ff05fbd50134358b00", "code": 0,
     "reject": "length"},
    {"k": "pn-rsp", "hex": "0000ffffff0104fad501" + "343536" + "00" * 256
     + "8b00", "code": 0, "reject": "lcs"},
    {"k": "pn-rsp", "hex": "0000ffffff0105fad501" + "343536" + "00" * 255
     + "8b00", "code": 0, "reject": "length"},
    {"k": "pn-rsp", "hex": "00000005fbd5013435368b00", "code": 0,
     "reject": "start"},
    {"k": "pn-rsp", "hex": "0000ff05fbd5013435368a00", "code": 0,
     "reject": "dcs"},
    {"k": "pn-rsp", "hex": "0000ff05fbd6013435368a00", "code": 0,
     "reject": "tfi"},
    {"k": "pn-rsp", "hex": "0000ff05fbd5023435368a00", "code": 0,
     "reject": "code"},
    {"k": "pn-rsp", "hex": "0000ff01ff7f8100", "code": 0,
     "reject": "error-frame"},
    {"k": "pn-rsp", "hex": "0000ff00ff00", "code": 0, "reject": "kind"},
    {"k": "pn-rsp", "hex": "0000ffff0000", "code": 0, "reject": "kind"},
    # --- tests/test_clf_acr122.py
    {"k": "acr-cmd", "hex": ACR_CMD(bytes.fromhex("d400313233")).hex(),
     "code": 0, "payload": "313233"},
    {"k": "acr-raw", "hex": "6f050000000000000000ff00480000",
     "apdu": "ff00480000"},
    {"k": "acr-raw", "hex": "6f090000000000000000ff00400e0400000000",
     "apdu": "ff00400e0400000000"},
    {"k": "acr-rsp", "hex": ACR_RSP(bytes.fromhex("d5013435369000")).hex(),
     "code": 0, "payload": "343536"},
    {"k": "acr-rsp", "hex": "800300000000000081", "code": 0,
     "reject": "ccid-short"},
    {"k": "acr-rsp", "hex": "00030000000000008100343536", "code": 0,
     "reject": "ccid-type"},
    {"k": "acr-rsp", "hex": "80040000000000008100343536", "code": 0,
     "reject": "ccid-length"},
    {"k": "acr-rsp", "hex": "80030000000000008100d50190", "code": 0,
     "reject": "apdu-short"},
    {"k": "acr-rsp", "hex": "80040000000000008100d4019000", "code": 0,
     "reject": "tfi"},
    {"k": "acr-rsp", "hex": "80040000000000008100d5009000", "code": 0,
     "reject": "code"},
    {"k": "acr-rsp", "hex": "80040000000000008100d5019100", "code": 0,
     "reject": "apdu-sw"},
    {"k": "acr-rsp", "hex": "80040000000000008100d5019001", "code": 0,
     "reject": "apdu-sw"},
    # --- tests/test_clf_rcs380.py
    {"k": "p100", "hex": "0000ffffff0200fe31329d00", "data": "3132"},
    {"k": "p100-cmd", "hex": "0000ffffff0300fdd62a01ff00", "code": 0x2A,
     "payload": "01"},
    {"k": "p100-cmd", "hex": "0000ffffff0200fed6200a00", "code": 0x20,
     "payload": ""},
]


def enum_anchors(tier, seed):
    return list(ANCHORS)


def _off(what, case, got):
    raise HarnessError("reference model off its anchor (%s): %r -> %r"
                       % (what, case, got))


def run_anchor(case, ctx):
    k = case["k"]
    ctx.label("anchor:" + k)
    ctx.set_class("anchor/" + k)
    ctx.nontrivial()
    if k == "crc":
        m = bytes.fromhex(case["msg"])
        want = bytes.fromhex(case["crc"])
        fn = ref_crc.crc_a if case["t"] == "A" else ref_crc.crc_b
        if fn(m) != want:
            _off("crc", case, fn(m).hex())
        run_crc_msg({"msg": m}, None)
        return
    f = bytes.fromhex(case["hex"])
    if k == "pn-cmd":
        try:
            code, payload, fmt = ref.parse_command(f)
        except ref.RefReject as r:
            _off("pn-cmd", case, r.reason)
        if (code, payload.hex(), fmt) != (case["code"], case["payload"],
                                          case["fmt"]):
            _off("pn-cmd", case, (code, payload.hex(), fmt))
        if ref.build_command(code, payload) != f:
            _off("pn-cmd build", case, ref.build_command(code, payload).hex())
        # the library writes this very frame
        check_cmd_frame("pn532", case["code"], bytes.fromhex(case["payload"]))
        return
    if k in ("pn-rsp", "acr-rsp"):
        parse = ref.parse_response if k == "pn-rsp" else \
            (lambda fr, c: ref.acr_parse_response(fr, c)[0])
        try:
            got = parse(f, case["code"])
            reason = None
        except ref.RefReject as r:
            got, reason = None, r.reason
        if "reject" in case:
            if reason != case["reject"]:
                _off(k, case, (got, reason))
        else:
            if got is None or got.hex() != case["payload"]:
                _off(k, case, (got, reason))
        chip = "pn532" if k == "pn-rsp" else "acr122"
        ctx.label(check_response(chip, case["code"], f))
        return
    if k == "acr-cmd":
        try:
            code, payload = ref.acr_parse_command(f)
        except ref.RefReject as r:
            _off(k, case, r.reason)
        if (code, payload.hex()) != (case["code"], case["payload"]):
            _off(k, case, (code, payload.hex()))
        check_cmd_frame("acr122", code, payload)
        return
    if k == "acr-raw":
        try:
            apdu = ref.ccid_parse_host(f)
        except ref.RefReject as r:
            _off(k, case, r.reason)
        if apdu.hex() != case["apdu"]:
            _off(k, case, apdu.hex())
        return
    if k == "p100":
        try:
            r = ref.p100_parse(f)
        except ref.RefReject as rr:
            _off(k, case, rr.reason)
        if r["data"].hex() != case["data"] or ref.p100_build(r["data"]) != f:
            _off(k, case, r)
        return
    if k == "p100-cmd":
        try:
            code, payload = ref.p100_parse_command(f)
        except ref.RefReject as rr:
            _off(k, case, rr.reason)
        if (code, payload.hex()) != (case["code"], case["payload"]):
            _off(k, case, (code, payload.hex()))
        check_cmd_frame("rcs380", code, payload)
        return
    raise HarnessError("unknown anchor kind %r" % k)


# =========================================================== leg cmd-frames
def check_cmd_frame(chip, code, payload):
    """let the driver send (code, payload); validate what reached the
    transport.  returns the frame format label.  raises Violation."""
    cs = chipset_for(chip)
    payload = bytes(payload)
    if chip == "acr122":
        link = ScriptLink([ref.acr_build_response(code, b"")])
    elif chip == "rcs380":
        link = ScriptLink([ref.ACK, ref.p100_build_response(code, b"\x00")])
    else:
        link = ScriptLink([ref.ACK])
    cs.transport = link
    try:
        if chip == "rcs380":
            cs.send_command(code, bytearray(payload))
        elif chip == "acr122":
            cs.command(code, bytearray(payload), 0.1)
        else:
            cs.command(code, bytearray(payload), 0)
    except Exception as e:
        raise unexpected(e, detail="%s command(%#x, %d bytes)"
                         % (chip, code, len(payload)))
    if len(link.writes) != 1:
        raise Violation("cmd-write-count", "%s code %#x len %d: %d writes"
                        % (chip, code, len(payload), len(link.writes)))
    w = link.writes[0]
    where = "%s code %#04x len %d frame %s" % (chip, code, len(payload),
                                               w.hex()[:80])
    try:
        if chip == "acr122":
            c, p = ref.acr_parse_command(w)
            fmt = "ccid"
        elif chip == "rcs380":
            c, p = ref.p100_parse_command(w)
            fmt = "port100"
        else:
            if chip.startswith("arygon"):
                if w[:1] != b"2":
                    raise ref.RefReject("arygon-prefix", w[:1].hex())
                w = w[1:]
            c, p, fmt = ref.parse_command(w)
            if fmt == "extended" and chip in ("pn531", "arygonA"):
                raise ref.RefReject("extended-on-pn531")
            if fmt == "normal" and len(payload) + 2 > 255:
                raise ref.RefReject("normal-too-long")
    except ref.RefReject as r:
        raise Violation("cmd-frame-malformed:" + r.reason,
                        "%s: %s %s" % (where, r.reason, r.detail))
    if c != code or p != payload:
        raise Violation("cmd-frame-content", "%s decodes to code %#x, %d "
                        "bytes %s" % (where, c, len(p), p.hex()[:60]))
    return fmt


def cmd_nontrivial(chip, n):
    mx = max_payload(chip)
    return abs(n - 253) <= 2 or abs(n - 254) <= 2 or n >= mx - 2


def cmd_lengths(chip):
    mx = max_payload(chip)
    lens = list(range(0, mx + 1))
    if chip == "rcs380":
        lens += [509, 510, 511, 512, 513, 4095, 4096, 65533]
    return lens


def cmd_payloads(seed, chip, code, n):
    yield det_bytes(n, seed, chip, code, n)
    if n and (n % 7 == 0 or cmd_nontrivial(chip, n)):
        yield b"\xff" * n
        yield b"\x00" * n


def bulk_cmd_frames(tier, seed, i, n, acct):
    ev = nt = 0
    labels = {}
    samples = []
    idx = 0
    for chip in ALL_CHIPS:
        for code in codes_of(chip):
            for ln in cmd_lengths(chip):
                idx += 1
                if idx % n != i:
                    continue
                for payload in cmd_payloads(seed, chip, code, ln):
                    try:
                        fmt = check_cmd_frame(chip, code, payload)
                    except Violation as v:
                        v.case = {"chip": chip, "code": code,
                                  "payload": payload}
                        raise
                    ev += 1
                    lab = "%s:%s" % (chip, fmt)
                    labels[lab] = labels.get(lab, 0) + 1
                    if cmd_nontrivial(chip, ln):
                        nt += 1
                        if len(samples) < 3 and code == 0x42 and ln == 254:
                            samples.append({"chip": chip, "code": code,
                                            "payload_len": ln, "fmt": fmt})
    acct.bulk(ev, nt, labels, samples)


def run_cmd_frame(case, ctx):
    chip, code, payload = case["chip"], case["code"], bytes(case["payload"])
    ctx.set_class("%s/cmd" % chip)
    fmt = check_cmd_frame(chip, code, payload)
    ctx.label("%s:%s" % (chip, fmt))
    if cmd_nontrivial(chip, len(payload)):
        ctx.nontrivial()


# =================================================== response acceptance legs
def base_response(chip, code, payload, ext):
    if chip == "acr122":
        return ref.acr_build_response(code, payload)
    return ref.build_response(code, payload, extended=True if ext else None)


def apply_mutation(frame, mut):
    f = bytearray(frame)
    kind = mut[0]
    if kind == "none":
        pass
    elif kind == "flip":
        bit = mut[1] % (8 * len(f))
        f[bit // 8] ^= 1 << (bit % 8)
    elif kind == "trunc":
        f = f[:max(1, min(mut[1], len(f) - 1))]
    elif kind == "extend":
        f += bytes(mut[1])
    elif kind == "subst":
        for pos, val in mut[1]:
            f[pos % len(f)] = val
    elif kind == "add":
        # add deltas to bytes at positions counted from the end (negative)
        # or the start (non-negative): compensated checksum pairs
        for pos, delta in mut[1]:
            if -len(f) <= pos < len(f):
                f[pos] = (f[pos] + delta) & 0xFF
    elif kind == "delete":
        del f[mut[1] % len(f)]
        if not f:
            f = bytearray(b"\x00")
    elif kind == "insert":
        f.insert(mut[1] % (len(f) + 1), mut[2])
    elif kind == "flips":
        for bit in mut[1]:
            bit %= 8 * len(f)
            f[bit // 8] ^= 1 << (bit % 8)
    elif kind == "tail":
        k = max(1, min(mut[1], len(f)))
        f = f[:-k] + bytearray(mut[2])
        if not f:
            f = bytearray(b"\x00")
    elif kind == "raw":
        f = bytearray(mut[1]) or bytearray(b"\x00")
    else:
        raise HarnessError("unknown mutation %r" % (mut,))
    return bytes(f)


def frame_class(chip, mut, frame):
    """coarse class of the mutated frame (failure signatures); a function of
    the input frame only"""
    kind = mut[0]
    if chip == "acr122":
        if len(frame) < 10:
            return "acr122/ccid-header-cut"
        return "acr122/" + kind
    if frame[:3] == b"\x00\x00\xff":
        if frame[3:5] == b"\xff\xff" and len(frame) < 8:
            return "pn53x/ext-header-cut"
        if len(frame) < 5:
            return "pn53x/header-cut"
        try:
            ref.parse(frame)
        except ref.RefReject as r:
            if r.reason in ("dcs", "postamble"):
                body = 8 if frame[3:5] == b"\xff\xff" else 5
                if sum(frame[body:]) & 0xFF == 0:
                    # DCS and postamble are both off, by opposite amounts
                    return "pn53x/dcs-postamble-compensated"
    return "pn53x/" + kind


def check_response(chip, code, frame, ctx=None):
    """feed ``frame`` as the response to command ``code``; returns a verdict
    label; raises Violation."""
    cs = chipset_for(chip)
    frame = bytes(frame)
    acr = chip == "acr122"
    link = ScriptLink([frame] if acr else [ref.ACK, frame])
    cs.transport = link
    try:
        if acr:
            got, meta = ref.acr_parse_response(frame, code)
        else:
            got, meta = ref.parse_response(frame, code), None
        reason = None
    except ref.RefReject as r:
        got, meta, reason = None, None, r.reason
    what = "%s response to %#04x: %s" % (chip, code, frame.hex()[:120])
    try:
        data = cs.command(code, b"", 0.1)
    except IOError:
        if reason is None:
            raise Violation("rejects-valid-response", what)
        return "rejected:" + reason
    except nfc.clf.pn53x.Chipset.Error as e:
        if reason != "error-frame":
            raise Violation("chipset-error-for-non-error-frame",
                            "%s -> %s (reference: %s)" % (what, e, reason))
        return "error-frame"
    except Exception as e:
        raise unexpected(e, detail=what)
    if data is None or reason is not None:
        raise Violation("accepts-invalid-response:" + str(reason),
                        "%s returned %r" % (what, data))
    if bytes(data) != got:
        raise Violation("response-data-differs", "%s returned %s, reference "
                        "%s" % (what, bytes(data).hex()[:80], got.hex()[:80]))
    if meta is not None and (meta["slot"], meta["seq"], meta["status"],
                             meta["error"], meta["chain"]) != (0, 0, 0, 0x81,
                                                               0):
        return "accepted:ccid-header-unchecked"
    return "accepted"


def reaches_checksums(chip, frame):
    if chip == "acr122":
        return len(frame) >= 10 and frame[0] == 0x80
    return frame[:3] == b"\x00\x00\xff" and frame != ref.ACK


def run_response(case, ctx):
    chip = case["chip"]
    if "code" in case:
        code = case["code"]
    else:
        code = CODES[chip][case["codeidx"] % len(CODES[chip])]
    ext, mut = bool(case.get("ext")) and chip != "acr122", case["mut"]
    if "payload" in case:
        payload = bytes(case["payload"])
    else:
        payload = det_bytes(case["plen"], "payload", case["pseed"])
    base = base_response(chip, code, payload, ext)
    frame = apply_mutation(base, mut)
    cls = frame_class(chip, mut, frame)
    ctx.set_class(cls)
    ctx.label("mut:" + mut[0], "chip:" + chip)
    if cls in EXCLUDE_CLASSES:
        ctx.label("excluded-dev:" + cls)
        return
    verdict = check_response(chip, code, frame, ctx)
    ctx.label(verdict)
    if frame != base and reaches_checksums(chip, frame):
        ctx.nontrivial()
    if mut[0] == "none" and verdict != "accepted":
        raise Violation("rejects-valid-response", "unmutated %s" % base.hex())


def rsp_bases(tier, seed):
    """(chip, code, payload, ext) base frames of the exhaustive leg"""
    out = []
    for chip in RSP_CHIPS:
        codes = codes_of(chip)
        pick = [codes[0], 0x42, codes[-1]]
        lens = [0, 1, 5]
        if tier == "thorough":
            pick = codes[::4] + [0x42, 0x40, 0x88, codes[-1]]
            lens = [0, 1, 2, 3, 5, 8, 17, 40]
        for code in sorted(set(pick)):
            for ln in lens:
                out.append((chip, code, det_bytes(ln, seed, chip, code, ln),
                            False))
        # extended format with a short length: reaches every header length
        if chip != "acr122":
            out.append((chip, 0x42, det_bytes(3, seed, chip, "x"), True))
    big = [("pn532", 0x42, 253), ("pn532", 0x42, 254)]
    if tier == "thorough":
        big += [("pn533", 0x06, 254), ("rcs956", 0x40, 262),
                ("arygonB", 0x88, 256), ("acr122", 0x42, 250),
                ("pn531", 0x42, 252)]
    else:
        big += [("acr122", 0x42, 60)]
    for chip, code, ln in big:
        out.append((chip, code, det_bytes(ln, seed, chip, code, ln), False))
    return out


def enum_rsp_mutations(tier, seed):
    for chip, code, payload, ext in rsp_bases(tier, seed):
        base = base_response(chip, code, payload, ext)
        c = {"chip": chip, "code": code, "payload": payload, "ext": ext}
        yield dict(c, mut=["none"])
        for bit in range(8 * len(base)):
            yield dict(c, mut=["flip", bit])
        for k in range(1, len(base)):
            yield dict(c, mut=["trunc", k])
        for extra in (b"\x00", b"\xff", b"\x00\x00", b"\x55\xaa",
                      b"\x00\x00\x00", b"\x00\xff\x00"):
            yield dict(c, mut=["extend", extra])


byte_ = st.integers(0, 255)


def _pairs(d, i):
    """bytes shifted so that a byte sum is preserved (or not)"""
    return [
        [[-2, -d], [-1, d]],            # DCS / postamble
        [[-3, d], [-2, -d]],            # last data byte / DCS
        [[3, d], [4, -d]],              # LEN / LCS
        [[5, d], [-2, -d]],             # TFI / DCS
        [[6, d], [-2, -d]],             # response code / DCS
        [[5, d], [6, -d]],              # extended LENM / LENL
        [[6, d], [7, -d]],              # extended LENL / LCS
        [[-1, d]],                      # postamble alone
        [[-2, d]],                      # DCS alone
        [[-4, d], [-3, -d]],            # ACR: inside data / SW1
    ][i]


_pos = st.one_of(st.integers(0, 12), st.integers(0, 300))
_heads = [b"\x00\x00\xff", b"\x00\x00\xff\xff\xff", b"\x80", b"\x00"]
_mut = st.one_of(
    st.lists(st.tuples(_pos, byte_), min_size=1, max_size=4).map(
        lambda x: ["subst", x]),
    st.tuples(st.integers(1, 255), st.integers(0, 9)).map(
        lambda t: ["add", _pairs(t[0], t[1])]),
    st.tuples(st.integers(1, 255), st.integers(0, 9)).map(
        lambda t: ["add", _pairs(t[0], t[1])]),
    _pos.map(lambda x: ["delete", x]),
    st.tuples(_pos, byte_).map(lambda t: ["insert", t[0], t[1]]),
    st.lists(st.integers(0, 8 * 300), min_size=2, max_size=3).map(
        lambda x: ["flips", x]),
    st.tuples(st.integers(1, 12), st.binary(max_size=14)).map(
        lambda t: ["tail", t[0], t[1][:t[0] + 2]]),
    st.tuples(st.sampled_from(_heads), st.binary(max_size=16)).map(
        lambda t: ["raw", t[0] + t[1]]))
_rsp_case = st.fixed_dictionaries({
    "chip": st.sampled_from(RSP_CHIPS),
    "codeidx": st.integers(0, 40),
    "plen": st.one_of(st.integers(0, 24), st.integers(0, 24),
                      st.sampled_from([252, 253, 254, 255, 262])),
    "pseed": st.integers(0, 999),
    "ext": st.sampled_from([False, False, True]),
    "mut": _mut})


def gen_rsp_subst():
    return _rsp_case


# ================================================================= CRC legs
LIB = nfc.clf.device.Device
lib_calc = nfc.clf.device.calculate_crc


def _crc_one(kind, m, flips, bursts=()):
    """all CRC statements for message m; returns evaluations"""
    if kind == "A":
        add, check, init = LIB.add_crc_a, LIB.check_crc_a, ref_crc.INIT_A
        r_add, r_check = ref_crc.add_a, ref_crc.check_a
    else:
        add, check, init = LIB.add_crc_b, LIB.check_crc_b, ref_crc.INIT_B
        r_add, r_check = ref_crc.add_b, ref_crc.check_b
    want_reg = ref_crc.crc16(m, init)
    got_reg = lib_calc(bytearray(m), len(m), init)
    if got_reg != want_reg:
        raise Violation("calculate-crc-differs", "CRC_%s register for %s: "
                        "%#06x, reference %#06x" % (kind, m.hex()[:80],
                                                    got_reg, want_reg))
    framed = bytes(add(bytearray(m)))
    if framed != r_add(m):
        raise Violation("add-crc-differs", "add_crc_%s(%s) = ..%s, reference "
                        "..%s" % (kind.lower(), m.hex()[:80],
                                  framed[-2:].hex(), r_add(m)[-2:].hex()))
    if check(bytearray(framed)) is not True:
        raise Violation("check-rejects-own-crc", "check_crc_%s(add(%s))"
                        % (kind.lower(), m.hex()[:80]))
    n = 1
    for bit in flips:
        x = bytearray(framed)
        x[bit // 8] ^= 1 << (bit % 8)
        n += 1
        if bool(check(x)) != r_check(x):
            raise Violation("check-crc-differs", "check_crc_%s(%s) = %r, "
                            "reference %r (bit %d of the protected frame "
                            "flipped)" % (kind.lower(), bytes(x).hex()[:80],
                                          check(x), r_check(x), bit))
    for pos, patch in bursts:
        x = bytearray(framed)
        p = pos % len(x)
        patch = bytes(patch)[:len(x) - p]
        x[p:p + len(patch)] = patch
        n += 1
        if bool(check(x)) != r_check(x):
            raise Violation("check-crc-differs", "check_crc_%s(%s) = %r, "
                            "reference %r" % (kind.lower(),
                                              bytes(x).hex()[:80], check(x),
                                              r_check(x)))
    return n


def run_crc_msg(case, ctx):
    if "msg" in case:
        m = bytes(case["msg"])
    elif case.get("fill") is not None:
        m = bytes([case["fill"]]) * case["len"]
    else:
        m = det_bytes(case["len"], "crcmsg", case["mseed"])
    bursts = [(p, b) for p, b in case.get("bursts", [])]
    flips = range(8 * (len(m) + 2))
    if "flips" in case:
        flips = [f % (8 * (len(m) + 2)) for f in case["flips"]]
    try:
        for kind in ("A", "B"):
            _crc_one(kind, m, flips, bursts)
    except Violation:
        raise
    except Exception as e:
        raise unexpected(e, detail="crc of %s" % m.hex()[:80])
    # prefix form used by check_*: calculate over the leading size bytes
    for size in sorted(set([0, len(m) // 2, max(0, len(m) - 2)])):
        for init in (ref_crc.INIT_A, ref_crc.INIT_B):
            if lib_calc(bytearray(m), size, init) != \
                    ref_crc.crc16(m[:size], init):
                raise Violation("calculate-crc-prefix-differs",
                                "size %d of %s" % (size, m.hex()[:80]))
    if ctx is not None:
        ctx.set_class("crc/len=%d" % min(len(m), 4))
        ctx.label("len:%s" % (len(m) if len(m) < 4 else
                              "4-31" if len(m) < 32 else "32+"))
        if len(m) >= 1:
            ctx.nontrivial()


def bulk_crc_short(tier, seed, i, n, acct):
    maxlen = 2 if tier == "quick" else 3
    ev = nt = 0
    labels = {}
    samples = []
    idx = 0
    for ln in range(0, maxlen + 1):
        allflips = range(8 * (ln + 2))
        for tup in itertools.product(range(256), repeat=ln):
            idx += 1
            if idx % n != i:
                continue
            m = bytes(tup)
            # value comparisons for every message; all single bit flips for
            # every message of <= 1 byte, for every 4th (quick) / every
            # (thorough) 2-byte message and for every 61st 3-byte message
            # (stated in the leg's rule)
            if ln < 2:
                flips = allflips
            elif ln == 2:
                flips = allflips if (tier != "quick" or (idx // n) % 4 == 0) \
                    else ()
            else:
                flips = allflips if (idx // n) % 61 == 0 else ()
            try:
                k = _crc_one("A", m, flips) + _crc_one("B", m, flips)
            except Violation as v:
                v.case = {"msg": m}
                raise
            except Exception as e:
                v = unexpected(e, detail="crc of %s" % m.hex())
                v.case = {"msg": m}
                raise v
            ev += k
            lab = "len:%d" % ln
            labels[lab] = labels.get(lab, 0) + 1
            if ln >= 1:
                nt += 1
                if len(samples) < 2 and tup[-1] == 0x34 and tup[0] == 0x12:
                    samples.append({"msg": m, "crc_a": ref_crc.crc_a(m),
                                    "crc_b": ref_crc.crc_b(m)})
    acct.bulk(ev, nt, labels, samples)


def gen_crc_random(tier):
    ln = st.one_of(st.integers(0, 12), st.integers(0, 300),
                   st.sampled_from([1, 2, 3, 16, 64, 255, 256, 300]))
    return st.fixed_dictionaries({
        "len": ln,
        "mseed": st.integers(0, 9999),
        "fill": st.sampled_from([None, None, None, 0x00, 0xFF, 0x63, 0x55]),
        "flips": st.lists(st.integers(0, 8 * 302 - 1), max_size=12),
        "bursts": st.lists(st.tuples(st.integers(0, 302),
                                     st.binary(min_size=1, max_size=5)),
                           max_size=4)})


# ============================================================= leg tt2-path
TT2_DRIVERS = ("pn531", "pn532", "pn533", "rcs956", "acr122", "arygonA",
               "arygonB", "rcs380")


@st.composite
def gen_tt2(draw):
    drv = draw(st.sampled_from(TT2_DRIVERS))
    kind = draw(st.sampled_from(["good", "good", "flip", "burst", "short",
                                 "random", "swapped", "crc_b"]))
    n = draw(st.one_of(st.integers(1, 18), st.integers(1, 64)))
    payload = draw(st.binary(min_size=n, max_size=n))
    if kind == "good":
        rf = ref_crc.add_a(payload)
    elif kind == "flip":
        x = bytearray(ref_crc.add_a(payload))
        b = draw(st.integers(0, 8 * len(x) - 1))
        x[b // 8] ^= 1 << (b % 8)
        rf = bytes(x)
    elif kind == "burst":
        x = bytearray(ref_crc.add_a(payload))
        p = draw(st.integers(0, len(x) - 1))
        patch = draw(st.binary(min_size=1, max_size=3))[:len(x) - p]
        x[p:p + len(patch)] = patch
        rf = bytes(x)
    elif kind == "short":
        rf = draw(st.one_of(st.sampled_from([b"\x0a", b"\x00", b"\x01",
                                             b"\x04", b"\x05"]),
                            st.binary(min_size=1, max_size=2)))
    elif kind == "swapped":
        c = ref_crc.crc_a(payload)
        rf = payload + c[::-1]
    elif kind == "crc_b":
        rf = ref_crc.add_b(payload)
    else:
        rf = draw(st.binary(min_size=3, max_size=20))
    cmd = draw(st.sampled_from([b"\x30\x04", b"\xa2\x04\x01\x02\x03\x04",
                                b"\x30\x00", b"\xc2\xff"]))
    return {"driver": drv, "kind": kind, "rf": rf, "cmd": cmd}


def run_tt2(case, ctx):
    drv, rf_answer = case["driver"], bytes(case["rf"])
    ctx.set_class("%s/tt2/%s" % ("rcs380" if drv == "rcs380" else "pn53x",
                                 case["kind"]))
    ctx.label("driver:" + drv, "kind:" + case["kind"])
    dev, link = simchip.build(drv)
    link.chip.rf = lambda code, arg: (0, rf_answer)
    clf = simchip.frontend(dev)
    clf.target = nfc.clf.RemoteTarget(
        "106A", sens_res=bytearray(b"\x44\x00"), sel_res=bytearray(b"\x00"),
        sdd_res=bytearray(b"\x04\x01\x02\x03\x04\x05\x06"))
    link.arm()
    if len(rf_answer) <= 2:
        want = rf_answer
    elif ref_crc.check_a(rf_answer):
        want = rf_answer[:-2]
    else:
        want = None
    what = "%s tag answer %s" % (drv, rf_answer.hex())
    try:
        got = clf.exchange(bytearray(case["cmd"]), 0.1)
    except nfc.clf.TransmissionError:
        if want is not None:
            raise Violation("tt2-rejects-good-crc", what)
        ctx.label("rejected")
        ctx.nontrivial()
        return
    except Exception as e:
        raise unexpected(e, detail=what)
    if want is None:
        raise Violation("tt2-accepts-bad-crc", "%s returned %r" % (what, got))
    if got is None or bytes(got) != want:
        raise Violation("tt2-payload-differs", "%s returned %r, want %s"
                        % (what, got, want.hex()))
    # the command must have reached the RF command unchanged
    sent = [a for c, a in link.chip.rf_calls]
    if not sent or not sent[-1].endswith(bytes(case["cmd"])):
        raise HarnessError("simulated chip did not see the tag command: %r"
                           % sent)
    ctx.label("passed-through" if len(rf_answer) <= 2 else "accepted")
    ctx.nontrivial()


LEGS = [
    Leg("anchors", run=run_anchor, enum=enum_anchors, exhaustive=True,
        rule="literal frames of tests/base_clf_pn53x.py, test_clf_acr122.py, "
             "test_clf_rcs380.py, test_clf_device.py and the ISO/IEC 14443-3 "
             "Annex B CRC examples, through the reference models and the "
             "library."),
    Leg("cmd-frames", run=run_cmd_frame, bulk=bulk_cmd_frames, exhaustive=True,
        shards_quick=8, shards_thorough=16,
        rule="8 chipset classes x every code of the class' CMD table x every "
             "payload length 0..max (PN53x 252/263, ACR122 252, RC-S380 "
             "0..300 plus 509..513, 4095, 4096, 65533) x seeded random "
             "content (+ all-00/all-FF content at every 7th and at boundary "
             "lengths); non-trivial = length within 2 of the 254/255 format "
             "switch or of the maximum."),
    Leg("rsp-mutations", run=run_response, enum=enum_rsp_mutations,
        exhaustive=True, shards_quick=8, shards_thorough=16,
        rule="per base response frame (7 chipset classes x 3 codes x payload "
             "0/1/5 bytes, one short extended-format frame per class, long "
             "frames at the 255/256 format switch; more codes and lengths in "
             "thorough): the unmutated frame, every single bit flip, every "
             "truncation to 1..len-1 bytes, six 1-3 byte extensions; "
             "non-trivial = mutated frame still starts with the start code / "
             "CCID type (reaches length and checksum logic)."),
    Leg("rsp-subst", run=run_response, gen=lambda tier: gen_rsp_subst(),
        quick=8000, thorough=200000, shards_quick=8, shards_thorough=16,
        nt_floor=0.3,
        rule="random multi-byte substitutions (1-4 bytes), compensated "
             "additions on field pairs (LEN/LCS, LENM/LENL, TFI/DCS, "
             "code/DCS, data/DCS, DCS/postamble), byte deletions and "
             "insertions, double bit flips, rewritten tails and raw frames "
             "behind a valid start code; non-trivial as above."),
    Leg("crc-short", run=run_crc_msg, bulk=bulk_crc_short, exhaustive=True,
        shards_quick=8, shards_thorough=16,
        rule="every message of 0..2 bytes (quick) / 0..3 bytes (thorough): "
             "calculate_crc, add_crc_a/b, check_crc_a/b(add(m)) against "
             "ref_crc for every message, plus every single bit flip of "
             "add(m) for all messages <= 1 byte, every 4th (quick) / every "
             "(thorough) 2-byte message and every 61st 3-byte message; "
             "evaluations count check calls; non-trivial = message length "
             ">= 1."),
    Leg("crc-random", run=run_crc_msg, gen=gen_crc_random, quick=2000,
        thorough=30000, shards_quick=8, shards_thorough=16, nt_floor=0.5,
        rule="random and constant-byte messages of 0..300 bytes with up to "
             "12 single bit flips and 4 bursts (1-5 bytes) of the protected "
             "frame: check_crc_* agrees with the reference; non-trivial = "
             "length >= 1."),
    Leg("tt2-path", run=run_tt2, gen=lambda tier: gen_tt2(), quick=3000,
        thorough=40000, shards_quick=8, shards_thorough=16, nt_floor=0.5,
        rule="ContactlessFrontend.exchange() with a Type 2 Tag target over "
             "the simulated chip of pn531/pn532/pn533/rcs956/acr122/arygonA/"
             "arygonB/rcs380: tag answers with good CRC_A, single bit flip, "
             "burst, byte-swapped CRC, CRC_B instead of CRC_A, 1-2 byte "
             "ACK/NAK, random; non-trivial = the exchange reached the "
             "driver's CRC decision."),
]
