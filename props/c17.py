"""C17 - LLCP addressing: binding, discovery and delivery reach the right
socket.

leg
  machine   two linked controllers pumped by the harness (vlib.llcpair); a
            generated history of socket / bind / listen / connect / send /
            recv / sendto / recvfrom / resolve / close operations is
            interpreted step by step against the real sockets and against
            the AddrTable reference model below; blocking calls (connect,
            accept loops, resolve, close of a connection) run in helper
            virtual threads
  race      TWO application threads run short programs of bind-type
            operations (bind without argument / number / name, the automatic
            bind of sendto / connect / listen, close) on ONE controller at
            the same time under the virtual scheduler; every scheduling
            decision list up to a depth is explored for every pair of
            programs.  The outcomes must be those of some sequential order of
            the operations in the AddrTable model, no address may be reported
            by two open sockets, and afterwards the controller's table (probed
            with raw binds), datagram delivery, the answer to connect and the
            effect of each close must be the model's

AddrTable (written from the Socket.bind docstring and LLCP 1.3 section 4.3):
  addresses 0 and 1 belong to the link controller and its discovery
  component; "urn:nfc:sn:sdp" is bound at 1; a well-known name binds to its
  fixed address; any other valid name to a free address in 16..31; no
  argument to a free address in 32..63; a number binds exactly there if it
  is in 32..63 (raw access points: 0..63) and free.  One bind creates one
  *group*: the bound socket plus the sockets accept() derives from it.  An
  address is owned by one group; it is free again when the last socket of
  the group is closed, and so is the group's name.

Oracles (name -> meaning)
  bind-refused / bind-accepted   success iff the model says valid and free;
                                 errno as documented (exhaustion: any
                                 nfc.llcp.Error)
  bind-wrong-address             getsockname() is the fixed / requested
                                 address or a free one of the right range
  address-shared                 two live sockets of different binds report
                                 the same address
  sockname-changed               a live socket's address differs from the
                                 address it was given
  resolve-wrong                  resolve(name) is the address the name was
                                 bound to when the request was answered (or
                                 an earlier answer: results may be cached
                                 for the link's lifetime), else 0
  connect-reached-wrong-service  connect by name / address was accepted by
                                 another bind group than the model names
  connect-refused-though-bound   "no such service" although a listener is
                                 bound there
  stream-misdelivered            data on a connection arrives at another
                                 socket, altered or out of order
  address-not-freed / name-not-freed
                                 right after the close() of the last open
                                 socket of a bind a raw bind(that address) /
                                 bind(that name) fails (probe sockets, closed
                                 again at once)
  datagram-misdelivered          recvfrom() returns something that was not
                                 sent to this socket's address with this
                                 payload from this source (loss is allowed)
  (race leg)
  address-handed-out-twice       two open sockets report the same address
  outcomes-not-serialisable      no order of the two threads' operations
                                 yields the observed addresses / errnos
  address-not-freed / address-free-though-bound / close-freed-other-address
                                 a raw bind(number) probe disagrees with the
                                 model about an address being in use
  datagram-not-delivered         a datagram handed to the controller for the
                                 address of an open, bound logical data link
                                 socket with an empty queue did not arrive
  connect-answer-lost            the peer's answer to connect() by name did
                                 not reach the connecting socket
"""
import os

from hypothesis import strategies as st

import nfc.llcp

from vlib import vsched
from vlib.engine import (HarnessError, Leg, Violation, from_json, to_json,
                         twin_env,
                         unexpected)
from vlib.llcpair import (DATA_LINK_CONNECTION, LOGICAL_DATA_LINK,
                          RAW_ACCESS_POINT, LlcPair, other)

PROPERTY = "C17"
LEVEL = "exploration"
ASSUMPTIONS = [
    "the AddrTable model in this module is a correct reading of the "
    "Socket.bind docstring and LLCP 1.3 section 4.3 (address ranges)",
    "only names that are clearly well-formed or clearly malformed are "
    "generated; the exact grammar of service names is not judged",
    "a resolve() result may be cached by the resolving side for the lifetime "
    "of the link: any answer that was correct when one of its requests was "
    "answered is accepted",
    "after a listening socket is closed while connections accepted from it "
    "are still open its name may or may not resolve (not judged) until the "
    "last of them is closed",
    "a datagram sent to the address of a connection-mode socket ends that "
    "socket (frame reject); such sockets are not judged afterwards",
    "connect() to an address nobody is bound to gets no answer in this "
    "implementation (the call waits for the link's lifetime): not judged, "
    "the property speaks about connect by name",
    "raw access point sockets are only bound and closed (address table), "
    "never used for traffic; the link is lossless and pumped by the harness",
    "machine leg: the probes after a close() that empties a bind (a raw "
    "access point bound at the freed address, a socket bound under the freed "
    "name, each closed again at once) use the public API, succeed on a "
    "correct table and leave it as it was; they are not part of the model's "
    "history (no re-bind is counted for them)",
    "race leg: operations of two threads on one controller are expected to "
    "take effect one at a time (the outcomes equal those of some sequential "
    "order); the two threads never use the same socket; schedules are "
    "explored at synchronisation-point granularity (lock acquisitions) under "
    "the virtual scheduler, all decision lists over the first 8 / 20 points",
    "race leg: a datagram dispatched to the address of an open logical data "
    "link socket whose receive queue is empty must arrive (nothing can lose "
    "it between dispatch() and the socket)",
]

# Confirmed-defect classes that can be avoided by construction.  Empty in the
# committed module (wired to the known-findings register by the coordinator;
# VERIF_EXCLUDE_CLASSES is a development aid).
EXCLUDE_CLASSES = set()
EXCLUDE_CLASSES |= set(filter(None, os.environ.get(
    "VERIF_EXCLUDE_CLASSES", "").split(",")))

NAME_CLASS = "name-survives-close"
WKS_CLASS = "wks-overwrites-sap"

E = nfc.llcp.errno
WELL_KNOWN = {"urn:nfc:sn:sdp": 1, "urn:nfc:sn:snep": 4}
# (some names are long: two or three lookups of them do not fit one SNL PDU
# of a small link MIU together, a short one behind them does)
_PAD = {3: 34, 7: 44, 9: 74, 11: 4}
VALID = (["urn:nfc:sn:svc%d" % i for i in range(12)]
         + ["urn:nfc:xsn:example.org:x%d%s" % (i, "y" * _PAD.get(i, 0))
            for i in range(12)])
MALFORMED = ["", "snep", "urn:nfc:sn:", "urn:nfc:zn:foo", "http://example.org",
             "urn:nfc:sn:with space", "urn:nfc:xsn:", "urn:nfc:sn:9lives"]
NAME_POOL = sorted(WELL_KNOWN) + VALID + MALFORMED
TYPES = {"ldl": LOGICAL_DATA_LINK, "dlc": DATA_LINK_CONNECTION,
         "raw": RAW_ACCESS_POINT}
ANY = "any-error"


def setup():
    vsched.patch_nfc()


def well_formed(name):
    return name in WELL_KNOWN or name in VALID


# -------------------------------------------------------------------- model
class Group(object):
    def __init__(self, gid, addr, kind, name):
        self.gid, self.addr, self.kind, self.name = gid, addr, kind, name
        self.members = set()        # ids of live sockets
        self.owner_open = True      # the socket that did the bind is open
        self.poisoned = False


class AddrTable(object):
    """reference model of one controller's address / name table"""

    def __init__(self):
        self.by_addr = {0: None, 1: None}   # addr -> Group (None: the LLC)
        self.names = {"urn:nfc:sn:sdp": None}   # name -> Group
        self.limbo = {}             # name -> Group whose owner is closed
        self.released = set()       # names that were bound and are free now
        self.freed_addr = set()     # addresses that were in use and are free
        self.gid = 0
        self.rebinds = 0            # binds of a formerly used name/address
        self.peak = {"named": 0, "dynamic": 0}

    def free(self, lo, hi):
        return [a for a in range(lo, hi + 1) if a not in self.by_addr]

    def expect_bind(self, kind, arg):
        """('ok', set of admissible addresses) or ('err', errnos | ANY)"""
        if arg is None:
            f = self.free(32, 63)
            return ("ok", set(f)) if f else ("err", ANY)
        if isinstance(arg, int):
            if arg < 0 or arg > 63:
                return ("err", {E.EFAULT})
            if kind != "raw" and arg < 32:
                return ("err", {E.EACCES})
            if arg in self.by_addr:
                return ("err", {E.EADDRINUSE})
            return ("ok", {arg})
        if not well_formed(arg):
            return ("err", {E.EFAULT})
        if arg in self.names:
            return ("err", {E.EADDRINUSE})
        if arg in self.limbo:
            return ("limbo", None)
        if arg in WELL_KNOWN:
            a = WELL_KNOWN[arg]
            if a in self.by_addr:
                return ("err", {E.EADDRINUSE})
            return ("ok", {a})
        f = self.free(16, 31)
        return ("ok", set(f)) if f else ("err", ANY)

    def add(self, sid, kind, addr, name):
        self.gid += 1
        g = Group(self.gid, addr, kind, name)
        g.members.add(sid)
        self.by_addr[addr] = g
        if name is not None:
            self.limbo.pop(name, None)
            self.names[name] = g
        if addr in self.freed_addr or (name is not None
                                       and name in self.released):
            self.rebinds += 1
        self.freed_addr.discard(addr)
        self.released.discard(name)
        self.peak["named"] = max(self.peak["named"], sum(
            1 for a in self.by_addr if 16 <= a <= 31))
        self.peak["dynamic"] = max(self.peak["dynamic"], sum(
            1 for a in self.by_addr if 32 <= a <= 63))
        return g

    def remove(self, g, sid, is_owner):
        g.members.discard(sid)
        if is_owner:
            g.owner_open = False
            if g.name is not None and self.names.get(g.name) is g:
                del self.names[g.name]
                self.limbo[g.name] = g
        if not g.members:
            if self.by_addr.get(g.addr) is g:
                del self.by_addr[g.addr]
                self.freed_addr.add(g.addr)
            if g.name is not None and self.limbo.get(g.name) is g:
                del self.limbo[g.name]
                self.released.add(g.name)

    def lookup(self, name):
        """(admissible resolve answers, group or None) right now"""
        if name == "urn:nfc:sn:sdp":
            return {1}, None
        g = self.names.get(name)
        if g is not None:
            return {g.addr}, g
        g = self.limbo.get(name)
        if g is not None:
            return {0, g.addr}, g
        return {0}, None


class Sock(object):
    def __init__(self, sid, side, kind, sock):
        self.sid, self.side, self.kind, self.sock = sid, side, kind, sock
        self.open = True
        self.group = None
        self.owner = False          # did the bind of its group
        self.role = None            # listener | client | accepted | peerless
        self.accepted = None        # listener: list of accepted Sock
        self.conn = None            # connection record when connected
        self.busy = None            # Box of a pending blocking call
        self.ldl_peer = None
        self.dead = False           # frame-rejected / disconnected: lenient
        self.ends = None            # accepted: (own address, peer address)
        self.ended = False          # recv() has returned None (end of stream)

    def __repr__(self):
        return "<%s%d %s>" % (self.side, self.sid, self.kind)


class Conn(object):
    def __init__(self, cid, client, server):
        self.cid = cid
        self.end = {client.side: client, server.side: server}
        self.sent = {"a": [], "b": []}
        self.got = {"a": 0, "b": 0}
        self.wire = {"a": 0, "b": 0}    # I PDUs seen on the link per sender
        self.broken = False


class World(object):
    def __init__(self, pair, ctx):
        self.pair, self.ctx = pair, ctx
        self.table = {"a": AddrTable(), "b": AddrTable()}
        self.socks = {"a": [], "b": []}
        self.nsock = 0
        self.conns = []
        self.dgrams = []            # dict(src, saddr, daddr, data, seen)
        self.ndgram = 0
        self.pending = []           # (kind, Sock|None, Box, info)
        self.answers = {}           # (side, name) -> admissible results
        self.views = {}             # (side, ssap) -> model view of a CONNECT
        self.stats = {}
        pair.taps.append(self.before_dispatch)

    def count(self, k, n=1):
        self.stats[k] = self.stats.get(k, 0) + n

    def live(self, side, pred=None):
        return [s for s in self.socks[side] if s.open and s.busy is None
                and (pred is None or pred(s))]

    # ------------------------------------------------- link level bookkeeping
    def before_dispatch(self, frame):
        dst = other(frame.src)
        tab = self.table[dst]
        for q in frame.pdus:
            if q["type"] == "SNL":
                for tid, name in q["sdreq"]:
                    try:
                        name = name.decode("latin")
                    except Exception:
                        continue
                    adm, g = tab.lookup(name)
                    self.answers.setdefault((frame.src, name),
                                            set()).update(adm)
            elif q["type"] == "I":
                # credited to the newest connection on these addresses
                for c in reversed(self.conns):
                    me, peer = c.end[frame.src], c.end[dst]
                    if me.group.addr == q["ssap"] and \
                            peer.group.addr == q["dsap"]:
                        c.wire[frame.src] += 1
                        break
            elif q["type"] == "CONNECT":
                name = None
                if q["dsap"] == 1 and q["sn"]:
                    name = q["sn"].decode("latin")
                    adm, g = tab.lookup(name)
                else:
                    g = tab.by_addr.get(q["dsap"])
                lsn = [x for x in self.socks[dst] if g is not None
                       and x.group is g and x.role == "listener" and x.open
                       and not x.dead]
                listening = bool(lsn)
                # connection requests to the same listener whose outcome the
                # clients do not know yet: an upper bound of what can sit in
                # the listener's backlog when this request arrives
                ahead = sum(1 for v in self.views.values()
                            if g is not None and v["group"] is g)
                self.views[(frame.src, q["ssap"])] = {
                    "ahead": ahead,
                    "backlog": min([x.backlog for x in lsn] or [0]),
                    "group": g, "listening": listening,
                    "limbo": name is not None and name in tab.limbo,
                    "poisoned": g is not None and g.poisoned,
                    "released": name is not None and name in tab.released}
            elif q["type"] == "UI":
                g = tab.by_addr.get(q["dsap"])
                if g is not None and g.kind == "dlc":
                    # a datagram hits connection-mode sockets: frame reject
                    g.poisoned = True
                    for s in self.socks[dst]:
                        if s.group is g:
                            s.dead = True
                            if s.conn:
                                s.conn.broken = True
            elif q["type"] in ("DISC", "FRMR", "DM"):
                for c in self.conns:
                    s = c.end[dst]
                    if s.group is not None and s.group.addr == q["dsap"] \
                            and c.end[frame.src].group is not None and \
                            c.end[frame.src].group.addr == q["ssap"]:
                        c.broken = True


def fail(w, oracle, detail, name=None, cls=None):
    """raise the violation with the narrow class of a confirmed defect when
    the offending name was released by a close before"""
    if cls is not None:
        w.ctx.set_class(cls)
    raise Violation(oracle, detail)


def name_class(w, side, name):
    """class label when name was bound at side and its sockets are closed"""
    if name is not None and name in w.table[side].released:
        return NAME_CLASS
    return None


# ------------------------------------------------------------------- binding
def check_bound(w, s, kind_of_bind, arg, exp, err):
    """compare the outcome of an (explicit or implicit) bind with the model
    and update the model.  err is the nfc.llcp.Error raised or None."""
    tab = w.table[s.side]
    verdict, detail = exp
    name = arg if isinstance(arg, str) else None
    if err is not None:
        if verdict == "ok":
            fail(w, "bind-refused", "%s bind(%r) raised %s although the "
                 "address/name is valid and free (%d addresses in use)"
                 % (s, arg, E.errorcode.get(err.errno, err.errno),
                    len(tab.by_addr)), cls=name_class(w, s.side, name))
        if verdict == "err" and detail != ANY and err.errno not in detail:
            fail(w, "bind-wrong-errno", "%s bind(%r) raised %s, documented is"
                 " %s" % (s, arg, E.errorcode.get(err.errno, err.errno),
                          sorted(E.errorcode[x] for x in detail)))
        w.count("bind-error:" + E.errorcode.get(err.errno, str(err.errno)))
        return False
    addr = s.sock.getsockname()
    if verdict == "err":
        cls = None
        if name in WELL_KNOWN and addr in tab.by_addr and name != \
                "urn:nfc:sn:sdp":
            cls = WKS_CLASS
        fail(w, "bind-accepted", "%s bind(%r) succeeded with address %r, the "
             "model expects %s" % (s, arg, addr, detail if detail == ANY else
                                   sorted(E.errorcode[x] for x in detail)),
             cls=cls)
    if verdict == "limbo":
        detail = set(tab.free(16, 31)) if name not in WELL_KNOWN else \
            {WELL_KNOWN[name]}
    if addr not in detail:
        if addr in tab.by_addr:
            fail(w, "address-handed-out-twice", "%s bind(%r) got address %r "
                 "which is in use" % (s, arg, addr))
        fail(w, "bind-wrong-address", "%s bind(%r) got address %r, expected "
             "one of %s" % (s, arg, addr, sorted(detail)[:8]))
    if len(detail) > 1 and addr == min(detail):
        w.count("lowest-free-address")
    g = tab.add(s.sid, s.kind, addr, name)
    s.group, s.owner = g, True
    w.count("bound:" + ("name" if name else "addr" if arg is not None
                        else "auto"))
    return True


def implicit_bind(w, s):
    """model expectation for the automatic bind of connect/listen/sendto"""
    return w.table[s.side].expect_bind(s.kind, None)


def op_sock(w, side, kind):
    if len(w.socks[side]) >= 120:
        return None
    w.nsock += 1
    s = Sock(w.nsock, side, kind, w.pair.socket(side, TYPES[kind]))
    w.socks[side].append(s)
    return s


def op_bind(w, s, arg, as_bytes=False):
    tab = w.table[s.side]
    if s.group is not None:
        exp = ("err", {E.EINVAL})
    else:
        exp = tab.expect_bind(s.kind, arg)
    if isinstance(arg, str) and arg in WELL_KNOWN and exp[0] == "err" and \
            arg != "urn:nfc:sn:sdp" and s.group is None and \
            arg not in tab.names and WKS_CLASS in EXCLUDE_CLASSES:
        w.count("excluded:" + WKS_CLASS)
        return
    real = arg.encode("latin") if as_bytes and isinstance(arg, str) else arg
    try:
        if real is None:
            s.sock.bind()
        else:
            s.sock.bind(real)
        err = None
    except nfc.llcp.Error as e:
        err = e
    if s.group is not None:
        if err is None or err.errno != E.EINVAL:
            fail(w, "rebind-accepted", "%s bound at %d: second bind(%r) -> %r"
                 % (s, s.group.addr, arg, err))
        return
    check_bound(w, s, "explicit", arg, exp, err)


# ------------------------------------------------------------ other socket ops
def op_listen(w, s, backlog):
    if s.role is not None or s.dead:
        return
    exp = implicit_bind(w, s) if s.group is None else None
    try:
        s.sock.listen(backlog)
        err = None
    except nfc.llcp.Error as e:
        err = e
    if exp is not None:
        if not check_bound(w, s, "implicit", None, exp, err):
            return
    elif err is not None:
        raise unexpected(err, oracle="listen-error")
    s.role = "listener"
    s.accepted = []
    s.backlog = backlog

    def acceptor():
        while True:
            try:
                a = s.sock.accept()
            except nfc.llcp.Error:
                return
            w.nsock += 1
            n = Sock(w.nsock, s.side, "dlc", a)
            n.role, n.group = "accepted", s.group
            n.ends = (a.getsockname(), a.getpeername())
            s.group.members.add(n.sid)
            s.accepted.append(n)
            w.socks[s.side].append(n)
    box = w.pair.call(acceptor, "accept-%s%d" % (s.side, s.sid))
    w.pending.append(("accept", s, box, None))
    w.count("listeners")


def op_connect(w, s, how, val):
    if s.role is not None or s.dead:
        return
    peer = other(s.side)
    if how == "listener":
        ls = [x for x in w.socks[peer] if x.role == "listener" and x.open]
        if not ls:
            return
        target = ls[val % len(ls)]
        dest = target.group.addr
    elif how == "name":
        dest = NAME_POOL[val % len(NAME_POOL)]
        if not well_formed(dest):
            dest = VALID[val % len(VALID)]
    else:
        dest = 2 + val % 62
    exp = implicit_bind(w, s) if s.group is None else None
    if exp is not None and exp[0] != "ok":
        return              # no address left for the client: not this op
    s.role = "client"
    box = w.pair.call(lambda: s.sock.connect(dest), "connect-%s%d"
                      % (s.side, s.sid))
    s.busy = box
    if exp is not None:
        # the automatic bind happens before the call blocks
        err = box.exc if box.done and isinstance(
            box.exc, nfc.llcp.Error) and box.exc.errno in (
                E.EAGAIN, E.EADDRNOTAVAIL) else None
        check_bound(w, s, "implicit", None, exp, err)
    w.pending.append(("connect", s, box, dest))
    w.count("connects")
    settle(w)


def finish_connect(w, s, box, dest):
    s.busy = None
    peer = other(s.side)
    view = w.views.pop((s.side, s.group.addr), None) if s.group else None
    if view is None:
        # the CONNECT PDU never left (e.g. no address for the client)
        view = {"group": None, "listening": False, "limbo": False,
                "poisoned": False, "released": False, "ahead": 0,
                "backlog": 0}
    g, listening, in_limbo = view["group"], view["listening"], view["limbo"]
    if box.exc is not None:
        s.role = "failed"
        if isinstance(box.exc, nfc.llcp.ConnectRefused):
            w.count("connect-refused")
            if box.exc.reason in (0x02, 0x10) and listening and \
                    not view["poisoned"] and not in_limbo:
                fail(w, "connect-refused-though-bound", "%s connect(%r) "
                     "refused with reason %02x, a listener is bound at %d"
                     % (s, dest, box.exc.reason, g.addr))
            if box.exc.reason == 0x20 and listening and \
                    not view["poisoned"] and not in_limbo and \
                    view["ahead"] < view["backlog"]:
                # "temporarily not accepting" is the answer of a listener
                # whose backlog is full
                fail(w, "connect-refused-though-room", "%s connect(%r) "
                     "refused with reason 20h; the listener at %d has a "
                     "backlog of %d and at most %d request(s) can be waiting "
                     "in it" % (s, dest, g.addr, view["backlog"],
                                view["ahead"]))
            return
        if isinstance(box.exc, nfc.llcp.Error):
            w.count("connect-error")
            return
        raise unexpected(box.exc, oracle="connect-raised")
    # accepted: by whom?
    me, far = s.sock.getsockname(), s.sock.getpeername()
    server = None
    for x in w.socks[peer]:
        if x.role == "accepted" and x.conn is None and x.ends == (far, me):
            server = x
            break
    if server is None:
        fail(w, "connect-without-accept", "%s connect(%r) returned, peer "
             "address %r, but no accept() produced that connection"
             % (s, dest, far))
    if isinstance(dest, str) and server.group.name != dest:
        # judged at the API: connect(name) must reach a socket bound under
        # that name (whatever destination address the CONNECT PDU carried)
        fail(w, "connect-reached-wrong-service", "%s connect(%r) was accepted"
             " by the bind group at address %d bound under %r" % (
                 s, dest, server.group.addr, server.group.name))
    if g is None or (server.group is not g and not in_limbo):
        fail(w, "connect-reached-wrong-service", "%s connect(%r) was accepted"
             " by the bind group at address %d (name %r); the model has %s "
             "there" % (s, dest, server.group.addr, server.group.name,
                        "nothing bound" if g is None else
                        "the group at %d (name %r)" % (g.addr, g.name)),
             cls=NAME_CLASS if view["released"] else None)
    s.role = "client"
    c = Conn(len(w.conns), s, server)
    s.conn = server.conn = c
    # either end may have been frame-rejected (a datagram hit its address)
    # between the CC and this bookkeeping step
    c.broken = not server.open or server.dead or s.dead
    w.conns.append(c)
    w.count("connections")
    if len([x for x in w.socks[peer] if x.group is server.group
            and x.conn is not None and x.open]) >= 2:
        w.count("two-connections-one-listener")
    op_send(w, s)           # marker: the first message names the connection


def op_send(w, s):
    c = s.conn
    if c is None or s.dead or c.broken:
        return
    msg = b"C%d/%s/%d" % (c.cid, s.side.encode(), len(c.sent[s.side]))
    try:
        if s.sock.send(msg, nfc.llcp.MSG_DONTWAIT) is not True:
            return
    except nfc.llcp.Error as e:
        if e.errno != E.EWOULDBLOCK:
            c.broken = True
        return
    c.sent[s.side].append(msg)
    w.count("stream-sent")
    # The message leaves at once: an I PDU still queued when its socket is
    # closed or frame-rejected is C05's finding (close/unsent-data), which
    # this check must not trip over.
    flush(w, s)


def flush(w, s):
    """exchange until every message accepted at s is on the link"""
    c = s.conn
    for _ in range(200):
        if c.wire[s.side] >= len(c.sent[s.side]) or c.broken:
            return True
        xfer(w, s.side)
    return c.wire[s.side] >= len(c.sent[s.side])


def op_recv(w, s):
    c = s.conn
    if c is None or s.dead:
        return
    try:
        while s.sock.poll("recv", 0):
            m = s.sock.recv()
            if m is None:
                c.broken = True
                return
            want = c.sent[other(s.side)]
            k = c.got[s.side]
            if k >= len(want) or bytes(m) != want[k]:
                fail(w, "stream-misdelivered", "%s (connection %d) received "
                     "%r, expected message %d of its peer: %r"
                     % (s, c.cid, bytes(m)[:24], k,
                        want[k] if k < len(want) else None))
            c.got[s.side] += 1
            w.count("stream-received")
    except nfc.llcp.Error:
        c.broken = True


def op_recvall(w, s):
    """the way a server thread reads: blocking recv() until the end of the
    stream (None when the peer has disconnected) in a helper thread.  The
    socket has then shut itself down but is still the application's to
    close()."""
    c = s.conn
    if c is None or s.dead or s.busy is not None or not s.open:
        return
    got = []

    def body():
        while True:
            m = s.sock.recv()
            if m is None:
                return len(got)
            got.append(bytes(m))
    box = w.pair.call(body, "recvall-%s%d" % (s.side, s.sid))
    s.busy = box
    w.pending.append(("recvall", s, box, got))
    w.count("recv-until-end")
    settle(w)


def progress_recvall(w, s, box, got):
    """messages a pending / finished recv loop has taken so far"""
    c = s.conn
    want = c.sent[other(s.side)]
    while got:
        m = got.pop(0)
        k = c.got[s.side]
        if k >= len(want) or m != want[k]:
            if s.dead or c.broken and k >= len(want):
                c.broken = True
                continue
            fail(w, "stream-misdelivered", "%s (connection %d) received "
                 "%r, expected message %d of its peer: %r"
                 % (s, c.cid, m[:24], k, want[k] if k < len(want) else None))
        c.got[s.side] += 1
        w.count("stream-received")
    if box.done:
        s.busy = None
        c.broken = True
        if box.exc is not None:
            if not isinstance(box.exc, nfc.llcp.Error):
                raise unexpected(box.exc, oracle="recv-raised")
            w.count("recv-error")
        else:
            # recv() returned None: the connection is over, the socket has
            # shut itself down and still occupies its address until close()
            s.ended = True
            w.count("recv-end-of-stream")


def op_sendto(w, s, dkind, val, size):
    if s.dead:
        return
    peer = other(s.side)
    if dkind == 0:
        tg = [x for x in w.socks[peer] if x.open and x.kind == "ldl"
              and x.group is not None]
        if not tg:
            return
        dest = tg[val % len(tg)].group.addr
    else:
        dest = val % 64
    exp = implicit_bind(w, s) if s.group is None else None
    if exp is not None and exp[0] != "ok":
        return
    w.ndgram += 1
    data = (b"D%05d." % w.ndgram) + bytes([w.ndgram & 255]) * size
    try:
        ok = s.sock.sendto(data, dest, nfc.llcp.MSG_DONTWAIT)
        err = None
    except nfc.llcp.Error as e:
        err, ok = e, None
    if exp is not None:
        berr = err if err is not None and err.errno in (
            E.EAGAIN, E.EADDRNOTAVAIL) else None
        if not check_bound(w, s, "implicit", None, exp, berr):
            return
    if err is not None:
        if s.ldl_peer is not None and err.errno == E.EDESTADDRREQ:
            return
        raise unexpected(err, oracle="sendto-error")
    if ok is True:
        w.dgrams.append({"src": s.side, "saddr": s.group.addr, "daddr": dest,
                         "data": data, "seen": 0})
        w.count("datagrams-sent")


def op_recvfrom(w, s):
    if s.dead or s.group is None:
        return
    try:
        while s.sock.poll("recv", 0):
            data, ssap = s.sock.recvfrom()
            match = None
            for d in w.dgrams:
                if d["data"] == bytes(data):
                    match = d
                    break
            if match is None:
                fail(w, "datagram-misdelivered", "%s at %d received %r from "
                     "%r: nobody sent that" % (s, s.group.addr,
                                               bytes(data)[:16], ssap))
            if match["src"] != other(s.side) or match["daddr"] != \
                    s.group.addr or match["saddr"] != ssap:
                fail(w, "datagram-misdelivered", "%s bound at %d received %r "
                     "reported from %r; it was sent by %s from %d to %d"
                     % (s, s.group.addr, bytes(data)[:8], ssap, match["src"],
                        match["saddr"], match["daddr"]))
            match["seen"] += 1
            w.count("datagrams-received")
            if match["seen"] > 1:
                w.count("datagram-duplicated")
    except nfc.llcp.Error as e:
        raise unexpected(e, oracle="recvfrom-error")


def op_ldlconnect(w, s, val):
    if s.dead or s.group is None:
        return
    dest = 2 + val % 62
    try:
        s.sock.connect(dest)
        s.ldl_peer = dest
    except nfc.llcp.Error as e:
        raise unexpected(e, oracle="ldl-connect-error")


def op_resolve(w, side, val):
    name = NAME_POOL[val % len(NAME_POOL)]
    if not well_formed(name):
        name = VALID[val % len(VALID)]
    if sum(1 for k, s, b, i in w.pending if k == "resolve") >= 8:
        return
    sock = w.pair.socket(side, LOGICAL_DATA_LINK)
    box = w.pair.call(lambda: sock.resolve(name), "resolve-" + side)
    w.pending.append(("resolve", None, box, (side, name)))
    w.count("resolves")
    settle(w)


def finish_resolve(w, box, side, name):
    if box.exc is not None:
        raise unexpected(box.exc, oracle="resolve-raised")
    adm = w.answers.get((side, name), set())
    if box.value not in adm:
        peer = other(side)
        fail(w, "resolve-wrong", "resolve(%r) at %s -> %r; when asked, %s had "
             "it %s" % (name, side, box.value, peer,
                        "bound at %s" % sorted(adm - {0}) if adm - {0}
                        else "not bound (expected 0)"),
             cls=name_class(w, peer, name))
    tab = w.table[other(side)]
    if box.value and box.value > 1 and tab.rebinds:
        w.count("resolve-after-rebind")
    w.count("resolved:" + ("0" if box.value == 0 else "addr"))


def op_close(w, s):
    if not s.open or s.busy is not None:
        return
    if NAME_CLASS in EXCLUDE_CLASSES and s.owner and s.group is not None \
            and s.group.name is not None:
        w.count("excluded:" + NAME_CLASS)
        return
    if s.conn is not None and not s.conn.broken and not flush(w, s):
        w.count("close-skipped(unsent data)")
        return
    if not s.open or s.busy is not None:
        return
    s.open = False
    if s.conn is not None:
        s.conn.broken = True
    box = w.pair.call(s.sock.close, "close-%s%d" % (s.side, s.sid))
    w.pending.append(("close", s, box, None))
    w.count("closes")
    settle(w)


# ------------------------------------------------------------------ plumbing
def settle(w):
    """handle blocking calls that have returned (re-entrant: finishing a
    connect sends the marker, which exchanges and settles again)"""
    for item in list(w.pending):
        kind, s, box, info = item
        if kind == "recvall" and item in w.pending:
            progress_recvall(w, s, box, info)
        if not box.done or item not in w.pending:
            continue
        w.pending.remove(item)
        if kind == "connect":
            finish_connect(w, s, box, info)
        elif kind == "resolve":
            finish_resolve(w, box, *info)
        elif kind in ("close", "accept"):
            if box.exc is not None and not isinstance(box.exc,
                                                      nfc.llcp.Error):
                raise unexpected(box.exc, oracle=kind + "-raised")
            if kind == "close" and s.group is not None:
                # the address is released when close() has returned
                g = s.group
                if s.ended or s.dead:
                    w.count("closed-after-end-of-life")
                w.table[s.side].remove(g, s.sid, s.owner)
                if not g.members:
                    probe_freed(w, s, g)
    for name, exc in w.pair.failures():
        raise unexpected(exc, oracle="thread-died")


def probe_freed(w, s, g):
    """'closing the last socket frees the address' (and the name bound to
    it), asked at the API right after the close() that emptied the group: a
    raw access point can be bound at exactly that address, a socket can be
    bound under that name; both probes are closed again at once"""
    tab = w.table[s.side]
    if g.addr in tab.by_addr:
        return                      # the model has it in use (not this group)
    raw = w.pair.socket(s.side, RAW_ACCESS_POINT)
    try:
        raw.bind(g.addr)
    except nfc.llcp.Error as e:
        fail(w, "address-not-freed", "%s was the last open socket of the "
             "bind at address %d (name %r); after its close() a raw "
             "bind(%d) fails with %s" % (
                 s, g.addr, g.name, g.addr,
                 E.errorcode.get(e.errno, e.errno)))
    if raw.getsockname() != g.addr:
        fail(w, "bind-wrong-address", "raw bind(%d) -> %r"
             % (g.addr, raw.getsockname()))
    raw.close()
    w.count("probe:address-free-after-last-close")
    if g.name is not None and g.name not in tab.names and \
            g.name not in tab.limbo and g.name != "urn:nfc:sn:sdp":
        named = w.pair.socket(s.side, DATA_LINK_CONNECTION)
        try:
            named.bind(g.name)
        except nfc.llcp.Error as e:
            fail(w, "name-not-freed", "%s was the last open socket of the "
                 "bind under %r; after its close() bind(%r) fails with %s"
                 % (s, g.name, g.name, E.errorcode.get(e.errno, e.errno)))
        named.close()
        w.count("probe:name-free-after-last-close")


def xfer(w, side):
    f = w.pair.xfer(side)
    settle(w)
    return f


def pump(w, rounds):
    for _ in range(rounds):
        xfer(w, "a")
        xfer(w, "b")


def invariants(w):
    for side in "ab":
        seen = {}
        for s in w.socks[side]:
            if not s.open or s.group is None:
                continue
            addr = s.sock.getsockname()
            if addr != s.group.addr:
                fail(w, "sockname-changed", "%s was bound at %d, "
                     "getsockname() now says %r" % (s, s.group.addr, addr))
            if addr in seen and seen[addr] is not s.group:
                fail(w, "address-shared", "address %d at %s is reported by "
                     "sockets of two different binds" % (addr, side))
            seen[addr] = s.group


def pick(w, side, idx, pred):
    c = w.live(side, pred)
    return c[idx % len(c)] if c else None


def run_ops(w, ops):
    for op in ops:
        name, side = op[0], op[1]
        if name == "x":
            xfer(w, side)
        elif name == "pump":
            pump(w, 1)
        elif name == "sock":
            op_sock(w, side, op[2])
        elif name == "bind":
            s = pick(w, side, op[2], lambda s: s.group is None
                     and s.role is None) or pick(w, side, op[2], None)
            if s is not None:
                op_bind(w, s, op[3], bool(op[4]))
        elif name == "open":
            for k in range(op[5]):
                s = op_sock(w, side, op[2])
                if s is None:
                    break
                arg = op[3]
                if isinstance(arg, str) and arg in VALID and op[5] > 1:
                    arg = VALID[(VALID.index(arg) + k) % len(VALID)]
                elif isinstance(arg, int) and op[5] > 1:
                    arg = arg + k
                op_bind(w, s, arg, bool(op[4]))
                invariants(w)
        elif name == "listen":
            s = pick(w, side, op[2], lambda s: s.kind == "dlc"
                     and s.role is None)
            if s is not None:
                op_listen(w, s, op[3])
        elif name == "connect":
            s = pick(w, side, op[2], lambda s: s.kind == "dlc"
                     and s.role is None)
            if s is None:
                s = op_sock(w, side, "dlc")
            if s is not None:
                op_connect(w, s, op[3], op[4])
        elif name == "send":
            s = pick(w, side, op[2], lambda s: s.conn is not None)
            if s is not None:
                op_send(w, s)
        elif name == "recv":
            s = pick(w, side, op[2], lambda s: s.conn is not None)
            if s is not None:
                op_recv(w, s)
        elif name == "recvall":
            s = pick(w, side, op[2], lambda s: s.conn is not None)
            if s is not None:
                op_recvall(w, s)
        elif name == "closerole":
            role = op[3]
            s = pick(w, side, op[2], lambda s: (
                s.conn is not None if role == "conn" else s.role == role))
            if s is not None:
                op_close(w, s)
        elif name == "sendto":
            s = pick(w, side, op[2], lambda s: s.kind == "ldl")
            if s is None:
                s = op_sock(w, side, "ldl")
            if s is not None:
                op_sendto(w, s, op[3], op[4], op[5])
        elif name == "recvfrom":
            s = pick(w, side, op[2], lambda s: s.kind == "ldl"
                     and s.group is not None)
            if s is not None:
                op_recvfrom(w, s)
        elif name == "ldlconnect":
            s = pick(w, side, op[2], lambda s: s.kind == "ldl"
                     and s.group is not None)
            if s is not None:
                op_ldlconnect(w, s, op[3])
        elif name == "resolve":
            op_resolve(w, side, op[2])
        elif name == "close":
            s = pick(w, side, op[2], lambda s: s.role != "listener") \
                if op[3] else pick(w, side, op[2], None)
            if s is not None:
                op_close(w, s)
        else:
            raise HarnessError("unknown op %r" % (op,))
        settle(w)
        invariants(w)


def run_machine(case, ctx):
    ctx.set_class("plain")
    pair = LlcPair(case["miu"][0], case["miu"][1], bool(case["agf"][0]),
                   bool(case["agf"][1]))
    try:
        w = World(pair, ctx)
        run_ops(w, case["ops"])
        # let everything in flight arrive, then look at every receive queue
        idle = 0
        for _ in range(80):
            before = (w.pair.frames, w.stats.get("stream-received", 0),
                      w.stats.get("datagrams-received", 0), len(w.conns))
            pump(w, 1)
            for side in "ab":
                for s in list(w.socks[side]):
                    if not s.open or s.busy is not None:
                        continue
                    if s.conn is not None:
                        op_recv(w, s)
                    elif s.kind == "ldl" and s.group is not None:
                        op_recvfrom(w, s)
            invariants(w)
            after = (w.pair.frames, w.stats.get("stream-received", 0),
                     w.stats.get("datagrams-received", 0), len(w.conns))
            idle = idle + 1 if after == before else 0
            if idle >= 2:
                break
        if idle >= 2:
            # the link is quiet: every lookup has had its answer ("... or
            # report absence")
            settle(w)
            for kind, s_, box, info in w.pending:
                if kind == "resolve" and not box.done:
                    fail(w, "resolve-never-answered", "resolve(%r) at %s is "
                         "still waiting although the link has been quiet for "
                         "two exchange rounds" % (info[1], info[0]))
        for c in w.conns:
            if c.broken:
                continue
            for side in "ab":
                if c.got[side] != len(c.sent[other(side)]):
                    fail(w, "stream-misdelivered", "connection %d: %s received"
                         " %d of %d messages, nothing more arrives"
                         % (c.cid, side, c.got[side],
                            len(c.sent[other(side)])))
        st_ = w.stats
        for k in sorted(st_):
            ctx.label(k)
        tabs = w.table.values()
        rebind = any(t.rebinds for t in tabs)
        crowded = any(t.peak["named"] >= 10 or t.peak["dynamic"] >= 10
                      for t in tabs)
        if rebind:
            ctx.label("bind-after-close")
        if crowded:
            ctx.label("range>=10-in-use")
        if any(t.peak["named"] >= 16 for t in tabs):
            ctx.label("named-range-exhausted")
        if any(t.peak["dynamic"] >= 32 for t in tabs):
            ctx.label("dynamic-range-exhausted")
        if rebind or crowded or st_.get("resolve-after-rebind"):
            ctx.nontrivial()
        ctx.note({"sockets": w.nsock, "connections": len(w.conns),
                  "datagrams": [st_.get("datagrams-sent", 0),
                                st_.get("datagrams-received", 0)],
                  "peak": [t.peak for t in tabs],
                  "rebinds": [t.rebinds for t in tabs]})
    finally:
        pair.close()


# --------------------------------------------------------------- generators
side_ = st.sampled_from("ab")
idx_ = st.integers(0, 40)
kind_ = st.sampled_from(["ldl", "ldl", "dlc", "dlc", "dlc", "raw", "raw"])


def name_():
    return st.one_of(st.sampled_from(VALID), st.sampled_from(VALID[:5]),
                     st.sampled_from(sorted(WELL_KNOWN)),
                     st.just("urn:nfc:sn:snep"), st.sampled_from(MALFORMED))


def bindarg_():
    return st.one_of(st.none(), st.integers(-1, 70), st.integers(32, 40),
                     st.integers(0, 6), st.sampled_from([4, 4, 1, 0, 16, 31]),
                     name_(), name_())


OPS = {
    "x": st.tuples(st.just("x"), side_),
    "pump": st.tuples(st.just("pump"), side_),
    "sock": st.tuples(st.just("sock"), side_, kind_),
    "bind": st.tuples(st.just("bind"), side_, idx_, bindarg_(),
                      st.booleans()),
    "open": st.tuples(st.just("open"), side_, kind_, bindarg_(),
                      st.booleans(), st.sampled_from([1, 1, 1, 2, 3])),
    "openmany": st.tuples(st.just("open"), side_, kind_,
                          st.one_of(st.none(), st.sampled_from(VALID),
                                    st.integers(32, 50)),
                          st.booleans(), st.sampled_from([8, 12, 17, 20, 33])),
    "listen": st.tuples(st.just("listen"), side_, idx_, st.integers(0, 3)),
    "connect": st.tuples(st.just("connect"), side_, idx_,
                         st.sampled_from(["listener", "listener", "name",
                                          "name", "name", "addr"]),
                         st.integers(0, 200)),
    "send": st.tuples(st.just("send"), side_, idx_),
    "recv": st.tuples(st.just("recv"), side_, idx_),
    "sendto": st.tuples(st.just("sendto"), side_, idx_,
                        st.sampled_from([0, 0, 0, 1]), st.integers(0, 200),
                        st.integers(0, 60)),
    "recvfrom": st.tuples(st.just("recvfrom"), side_, idx_),
    "ldlconnect": st.tuples(st.just("ldlconnect"), side_, idx_,
                            st.integers(0, 61)),
    "resolve": st.tuples(st.just("resolve"), side_, st.integers(0, 200)),
    "close": st.tuples(st.just("close"), side_, idx_, st.booleans()),
    # a service as applications write it: named listener
    "service": st.tuples(st.just("service"), side_, name_()),
    # a name that was resolved by the peer, released, and whose address is
    # taken over by another service before the peer connects by that name
    "stale": st.tuples(st.just("stale"), side_,
                       st.integers(0, len(VALID) - 1),
                       st.integers(0, len(VALID) - 1),
                       st.sampled_from(["resolve", "resolve", "none"]),
                       st.sampled_from(["other", "other", "none", "same"])),
    # several lookups outstanding at once: they share SNL PDUs as far as the
    # link MIU allows (names of very different lengths, bound and unbound)
    "lookups": st.tuples(st.just("lookups"), side_, st.lists(
        st.one_of(st.sampled_from([NAME_POOL.index(n) for n in VALID
                                   if len(n) > 40]),
                  st.integers(0, 200)), min_size=2, max_size=5)),
    "recvall": st.tuples(st.just("recvall"), side_, idx_),
    "closerole": st.tuples(st.just("closerole"), side_, idx_,
                           st.sampled_from(["conn", "conn", "accepted",
                                            "client", "listener"])),
    # a connection lives and dies: named service on one side, a client of the
    # other side connects, messages, then the two ends reach their end of
    # life in a generated order (who closes first, who reads the end of the
    # stream - recv() returning None - before its own close(), a reader
    # blocked in recv() when the peer closes), optionally the listener goes
    # too; the cycle is repeated and the released name / addresses are bound
    # again
    "session": st.tuples(st.just("session"), side_,
                         st.integers(0, len(VALID) - 1),
                         st.sampled_from(["name", "name", "listener"]),
                         st.lists(st.sampled_from([
                             "server-first", "server-first", "client-first",
                             "both", "reader-blocked", "no-read",
                             "server-late", "server-late"]),
                             min_size=1, max_size=3),
                         st.integers(0, 2), st.booleans(),
                         st.sampled_from(["name", "addr", "auto", "none"])),
}
WEIGHTS = (["x"] * 3 + ["pump"] * 6 + ["sock"] * 2 + ["bind"] * 6
           + ["open"] * 8 + ["openmany"] * 2 + ["listen"] * 3
           + ["connect"] * 6 + ["send"] * 3 + ["recv"] * 3 + ["sendto"] * 5
           + ["recvfrom"] * 3 + ["ldlconnect"] + ["resolve"] * 5
           + ["close"] * 9 + ["service"] * 5 + ["stale"] * 3
           + ["recvall"] * 3 + ["closerole"] * 3 + ["session"] * 3
           + ["lookups"] * 3)


def session_ops(side, i1, how, orders, nmsg, close_listener, rebind):
    peer = "b" if side == "a" else "a"
    n1 = VALID[i1]
    v1 = NAME_POOL.index(n1)
    service = [["sock", side, "dlc"], ["bind", side, -1, n1, False],
               ["listen", side, -1, 2], ["pump", side]]
    ops = list(service)
    late = 0
    for order in orders:
        ops += [["sock", peer, "dlc"],
                ["connect", peer, -1, how, v1 if how == "name" else -1],
                ["pump", side], ["pump", side]]
        ops += [["send", peer, -1], ["send", side, -1]][:nmsg]
        if late:
            # the server application gets round to closing the ends of
            # connections its clients left earlier (oldest first) only now,
            # with the next connection from the re-used address in service
            ops += [["closerole", side, 0, "accepted"], ["pump", side]] * late
            ops += [["recv", peer, -1], ["recv", side, -1]][:nmsg]
            late = 0
        if order == "reader-blocked":
            ops += [["recvall", peer, -1]]
        if order in ("server-first", "reader-blocked", "no-read"):
            ops += [["closerole", side, -1, "accepted"], ["pump", side],
                    ["pump", side]]
            if order == "server-first":
                ops += [["recvall", peer, -1], ["pump", side]]
            ops += [["closerole", peer, -1, "client"], ["pump", side]]
        elif order == "server-late":
            ops += [["closerole", peer, -1, "client"], ["pump", side],
                    ["pump", side]]
            late += 1
        elif order == "client-first":
            ops += [["closerole", peer, -1, "client"], ["pump", side],
                    ["pump", side], ["recvall", side, -1], ["pump", side],
                    ["closerole", side, -1, "accepted"], ["pump", side]]
        else:
            ops += [["closerole", peer, -1, "client"],
                    ["closerole", side, -1, "accepted"], ["pump", side],
                    ["pump", side]]
    ops += [["closerole", side, 0, "accepted"], ["pump", side]] * late
    if close_listener:
        ops += [["closerole", side, -1, "listener"], ["pump", side]]
    if rebind == "name":
        ops += service
    elif rebind == "addr":
        ops += [["open", peer, "ldl", 32, False, 3]]
    elif rebind == "auto":
        ops += [["open", peer, "ldl", None, False, 2]]
    return ops


@st.composite
def machine_case(draw, max_steps):
    ops = []
    n = draw(st.one_of(st.integers(1, max_steps),
                       st.integers(max_steps // 2, max_steps)))
    for o in draw(st.lists(st.sampled_from(WEIGHTS).flatmap(
            lambda k: OPS[k]), min_size=n, max_size=n)):
        if o[0] == "service":
            _, side, name = o
            ops += [["sock", side, "dlc"], ["bind", side, -1, name, False],
                    ["listen", side, -1, 1]]
        elif o[0] == "stale":
            _, side, i1, i2, look, rebind = o
            peer = "b" if side == "a" else "a"
            n1 = VALID[i1]
            n2 = {"other": VALID[i2], "same": n1}.get(rebind)
            v1 = NAME_POOL.index(n1)
            ops += [["sock", side, "dlc"], ["bind", side, -1, n1, False],
                    ["listen", side, -1, 1], ["pump", side]]
            if look == "resolve":
                ops += [["resolve", peer, v1], ["pump", side], ["pump", side]]
            ops += [["close", side, -1, False], ["pump", side]]
            if n2 is not None:
                ops += [["sock", side, "dlc"], ["bind", side, -1, n2, False],
                        ["listen", side, -1, 1]]
            ops += [["connect", peer, 0, "name", v1], ["pump", side],
                    ["pump", side]]
        elif o[0] == "session":
            ops += session_ops(*o[1:])
        elif o[0] == "lookups":
            _, side, vals = o
            ops += [["resolve", side, v] for v in vals]
            ops += [["pump", side]] * 3
        else:
            ops.append(list(o))
    return {"miu": [draw(st.sampled_from([128, 248, 2175])),
                    draw(st.sampled_from([128, 248, 2175]))],
            "agf": [draw(st.booleans()), draw(st.booleans())], "ops": ops}


# ------------------------------------------- two threads on one address table
# Two application threads run short programs of bind-type operations on ONE
# controller (side a) at the same time; the virtual scheduler decides at every
# synchronisation point which of the two goes on, and every decision list is
# enumerated.  Oracle: the outcomes are those of SOME sequential order of the
# operations in the AddrTable model (each operation takes effect at one
# instant), and the quiescent table afterwards is exactly the model's.
R_NAME = VALID[0]                       # the name the programs bind
R_NAME2 = VALID[16]
R_PRE = {"1": VALID[1], "2": VALID[2]}  # named socket each thread owns
R_FILL_NAMES = VALID[3:16]              # 13 names: one address of 16..31 left
R_NOBODY = "urn:nfc:sn:nobody"
R_FREE_DYN = {"none": 34, "named": 34, "dynamic": 63}
R_FREE_NAMED = {"none": 18, "dynamic": 18, "named": 31}


def race_programs(fill):
    dyn, named = R_FREE_DYN[fill], R_FREE_NAMED[fill]
    one = [
        ["bind", "ldl", None],          # anonymous
        ["bind", "ldl", dyn],           # the number an anonymous bind gets
        ["bind", "dlc", R_NAME],        # a name: lowest free of 16..31
        ["bind", "dlc", R_NAME2],
        ["bind", "dlc", "urn:nfc:sn:snep"],
        ["bind", "raw", named],         # the number a named bind gets
        ["sendto"], ["connect"], ["listen"],    # automatic binds
        ["close", "anon"], ["close", "named"],  # a socket bound beforehand
    ]
    progs = [[op] for op in one]
    progs += [
        [["bind", "ldl", None], ["close", "own"]],
        [["close", "anon"], ["bind", "ldl", None]],
        [["bind", "dlc", R_NAME], ["close", "own"]],
        [["close", "named"], ["bind", "dlc", "own-name"]],
        [["sendto"], ["close", "own"]],
        [["listen"], ["bind", "ldl", None]],
    ]
    return progs


class RSock(object):
    def __init__(self, sid, kind, sock, owner):
        self.sid, self.kind, self.sock, self.owner = sid, kind, sock, owner
        self.addr = None            # address reported when the bind returned
        self.name = None
        self.open = True
        self.fill = False
        self.via = None             # sendto | connect | listen | None
        self.group = None           # model group in the accepted order

    def __repr__(self):
        return "<s%d %s of %s at %r>" % (self.sid, self.kind, self.owner,
                                         self.addr)


def race_replay(base, order):
    """run the events through a fresh AddrTable; None when every observed
    outcome is admissible at its place, else a description of the first
    that is not.  event = (op, RSock, arg, outcome)"""
    tab = AddrTable()
    groups = {}
    for op, r, arg, res in list(base) + list(order):
        if op == "close":
            g = groups.pop(r.sid, None)
            if g is not None:
                tab.remove(g, r.sid, True)
            continue
        verdict, detail = tab.expect_bind(r.kind, arg)
        if res[0] == "err":
            if verdict != "err":
                return tab, groups, "%s bind(%r) raised %s although the " \
                    "model has %s free" % (r, arg, E.errorcode.get(
                        res[1], res[1]), sorted(detail)[:4])
            if detail != ANY and res[1] not in detail:
                return tab, groups, "%s bind(%r) raised %s, documented %s" % (
                    r, arg, E.errorcode.get(res[1], res[1]),
                    sorted(E.errorcode[x] for x in detail))
            continue
        if verdict != "ok":
            return tab, groups, "%s bind(%r) got address %r, the model " \
                "expects an error (%s)" % (r, arg, res[1],
                                           detail if detail == ANY else sorted(
                                               E.errorcode[x] for x in detail))
        if res[1] not in detail:
            return tab, groups, "%s bind(%r) got address %r, admissible: %s" \
                % (r, arg, res[1], sorted(detail)[:4])
        groups[r.sid] = tab.add(r.sid, r.kind, res[1],
                                arg if isinstance(arg, str) else None)
    return tab, groups, None


def merges(p, q):
    """all interleavings of two sequences that keep each one's order"""
    if not p or not q:
        yield list(p) + list(q)
        return
    for rest in merges(p[1:], q):
        yield [p[0]] + rest
    for rest in merges(p, q[1:]):
        yield [q[0]] + rest


def run_race(case, ctx):
    ctx.set_class("race")
    fill = case["fill"]
    pair = LlcPair(248, 248, True, True, step_budget=200000)
    sched = pair.sched
    socks = []
    wire = []                   # PDUs side a put on the link (ref dict form)
    pair.taps.append(lambda f: wire.extend(f.pdus) if f.src == "a" else None)

    def new(kind, owner):
        r = RSock(len(socks) + 1, kind, pair.socket("a", TYPES[kind]), owner)
        socks.append(r)
        return r

    def bind_now(r, arg):
        """sequential bind on the controller thread; the model event"""
        try:
            r.sock.bind() if arg is None else r.sock.bind(arg)
        except nfc.llcp.Error as e:
            return ("bind", r, arg, ("err", e.errno))
        r.addr = r.sock.getsockname()
        r.name = arg if isinstance(arg, str) else None
        return ("bind", r, arg, ("ok", r.addr))

    def probe(addr):
        """is the address taken?  A raw access point may bind any number."""
        p = pair.socket("a", RAW_ACCESS_POINT)
        try:
            p.bind(addr)
        except nfc.llcp.Error as e:
            if e.errno != E.EADDRINUSE:
                raise unexpected(e, oracle="probe-bind-error")
            return True
        p.close()
        return False

    try:
        # ---------------------------------------------------------- before
        base = []
        mine = {"1": {}, "2": {}}
        for t in ("1", "2"):
            mine[t]["anon"] = new("ldl", t)
            base.append(bind_now(mine[t]["anon"], None))
            mine[t]["named"] = new("dlc", t)
            base.append(bind_now(mine[t]["named"], R_PRE[t]))
        if fill == "dynamic":
            for i in range(29):
                r = new("ldl", "fill")
                r.fill = True
                base.append(bind_now(r, None))
        elif fill == "named":
            for n in R_FILL_NAMES:
                r = new("dlc", "fill")
                r.fill = True
                base.append(bind_now(r, n))
        tab, groups, bad = race_replay(base, [])
        if bad is not None:
            raise Violation("bind-sequential", bad)

        # ------------------------------------------------------------ race
        events = {"1": [], "2": []}
        state = {"1": {"done": False, "exc": None, "pending": None},
                 "2": {"done": False, "exc": None, "pending": None}}

        def program(t, ops):
            st_ = state[t]

            def auto(r, via, fn):
                r.via = via
                st_["pending"] = r
                try:
                    fn()
                except nfc.llcp.ConnectRefused as e:
                    st_["refused"] = e.reason
                except nfc.llcp.Error as e:
                    if r.sock.getsockname() is None:
                        st_["pending"] = None
                        events[t].append(("bind", r, None, ("err", e.errno)))
                        return
                    st_["exc"] = e      # bound, then the call itself failed
                st_["pending"] = None
                if r.addr is None:      # else: recorded while it was blocked
                    r.addr = r.sock.getsockname()
                    events[t].append(("bind", r, None, ("ok", r.addr)))

            def body():
                own = None
                for op in ops:
                    if op[0] == "bind":
                        own = new(op[1], t)
                        arg = R_PRE[t] if op[2] == "own-name" else op[2]
                        events[t].append(bind_now(own, arg))
                    elif op[0] == "sendto":
                        own = r = new("ldl", t)
                        auto(r, "sendto", lambda: r.sock.sendto(
                            b"S%d" % r.sid, 60, nfc.llcp.MSG_DONTWAIT))
                    elif op[0] == "connect":
                        own = r = new("dlc", t)
                        auto(r, "connect", lambda: r.sock.connect(R_NOBODY))
                    elif op[0] == "listen":
                        own = r = new("dlc", t)
                        auto(r, "listen", lambda: r.sock.listen(1))
                    elif op[0] == "close":
                        r = own if op[1] == "own" else mine[t][op[1]]
                        r.sock.close()
                        r.open = False
                        events[t].append(("close", r, None, None))
                    else:
                        raise HarnessError("unknown race op %r" % (op,))
                st_["done"] = True

            def guarded():
                try:
                    body()
                except Exception as e:
                    st_["exc"] = e
            return guarded

        sched.choices, sched.ci = [], 0
        sched.spawn(program("1", case["t1"]), "T1")
        sched.spawn(program("2", case["t2"]), "T2")
        sched.choices, sched.ci = [int(c) for c in case["choices"]], 0
        del sched.trace[:]
        sched.settle()
        trace = list(sched.trace)
        used = sched.ci
        for t in ("1", "2"):
            if state[t]["exc"] is not None:
                raise unexpected(state[t]["exc"], oracle="racing-call-raises")
            r = state[t]["pending"]
            if r is not None:
                # blocked inside connect(): the automatic bind is done
                r.addr = r.sock.getsockname()
                if r.addr is None:
                    raise Violation("racing-call-blocks", "%s: %s() waits "
                                    "without a bound socket" % (r, r.via))
                events[t].append(("bind", r, None, ("ok", r.addr)))
            elif not state[t]["done"]:
                raise Violation("racing-call-blocks", "thread T%s did not "
                                "finish: %r" % (t, sched.blocked()))

        # -------------------------------- the outcomes are serialisable
        live = [r for r in socks if r.open and r.addr is not None]
        seen = {}
        for r in live:
            if r.sock.getsockname() != r.addr:
                raise Violation("sockname-changed", "%s now reports %r"
                                % (r, r.sock.getsockname()))
            if r.addr in seen:
                raise Violation("address-handed-out-twice", "%s and %s are "
                                "both bound at %d (schedule %r)"
                                % (seen[r.addr], r, r.addr, trace))
            seen[r.addr] = r
        why = []
        for order in merges(events["1"], events["2"]):
            tab, groups, bad = race_replay(base, order)
            if bad is None:
                break
            why.append(bad)
        else:
            raise Violation("outcomes-not-serialisable", "T1 %r, T2 %r: no "
                            "order of the operations explains the outcomes "
                            "(%s)" % (case["t1"], case["t2"], why[0]))
        for r in socks:
            r.group = groups.get(r.sid)

        # -------- the table at rest is the model's at every address that
        # the programs or the sockets bound beforehand touched, at the next
        # free address of each range and at the well-known address
        watch = set([4, 16, 31, 32, 63])
        for op, r, arg, res in base[:4] + events["1"] + events["2"]:
            if r.addr is not None:
                watch.add(r.addr)
            if isinstance(arg, int):
                watch.add(arg)
        watch.update(tab.free(16, 31)[:1] + tab.free(32, 63)[:1])
        watch = sorted(watch)

        def table_check(what):
            for addr in watch:
                taken = probe(addr)
                if taken and addr not in tab.by_addr:
                    raise Violation("address-not-freed", "%s: address %d is "
                                    "refused (EADDRINUSE), no open socket is "
                                    "bound there" % (what, addr))
                if not taken and addr in tab.by_addr:
                    raise Violation("address-free-though-bound", "%s: address"
                                    " %d could be bound again although %s "
                                    "is open" % (what, addr, seen.get(addr)))
        table_check("after the race")

        # ----------------- every bound socket is reachable at its address
        targets = [r for r in live if r.kind == "ldl" and not r.fill]
        for r in targets:
            pair.inject("a", nfc.llcp.pdu.UnnumberedInformation(
                r.addr, 40, b"R%d" % r.sid))
        for r in targets:
            got = []
            while r.sock.poll("recv", 0):
                data, ssap = r.sock.recvfrom()
                got.append((bytes(data), ssap))
            if got != [(b"R%d" % r.sid, 40)]:
                raise Violation(
                    "datagram-misdelivered" if got else "datagram-not-"
                    "delivered", "%s received %r, sent to its address was %r"
                    % (r, got, [(b"R%d" % r.sid, 40)]))
        if any(r.via in ("sendto", "connect") for r in live):
            pair.pump(3)
        for r in live:
            if r.via == "sendto":
                mark = b"S%d" % r.sid
                for q in wire:
                    if q["type"] == "UI" and q["data"] == mark and \
                            q["ssap"] != r.addr:
                        raise Violation("datagram-source-wrong", "%s sent a "
                                        "datagram that carries source %d"
                                        % (r, q["ssap"]))
            if r.via == "connect":
                t = r.owner
                if not state[t]["done"] or state[t].get("refused") is None:
                    raise Violation("connect-answer-lost", "%s connect(%r): "
                                    "the peer's answer did not reach the "
                                    "socket (%r)" % (r, R_NOBODY, state[t]))
        for t in ("1", "2"):
            if state[t]["exc"] is not None:
                raise unexpected(state[t]["exc"], oracle="racing-call-raises")

        # ------------------------------ closing frees its own address only
        for r in [x for x in live if not x.fill]:
            r.sock.close()
            r.open = False
            tab.remove(r.group, r.sid, True)
            if probe(r.addr):
                raise Violation("address-not-freed", "%s closed, address %d "
                                "is still refused" % (r, r.addr))
            for x in live:
                if x.open and not x.fill and not probe(x.addr):
                    raise Violation("close-freed-other-address", "closing %s "
                                    "freed address %d of %s" % (r, x.addr, x))
        table_check("after closing")
        for name, exc in pair.failures():
            raise unexpected(exc, oracle="thread-died")
        ctx.label("fill:" + fill)
        for t in ("1", "2"):
            for op, r, arg, res in events[t]:
                if op == "bind" and res[0] == "err":
                    ctx.label("race-bind-error:" + E.errorcode.get(
                        res[1], str(res[1])))
        if len(set(trace)) > 1:
            ctx.label("interleaved")
            ctx.nontrivial()
        ctx.note({"trace": trace[:16], "choices_used": used, "outcomes": [
            [[op, list(res) if res else None] for op, r, arg, res in events[t]]
            for t in "12"]})
        return [i - 1 for i in trace]
    finally:
        pair.close()


R_TAKES = {"dynamic": ("ldl", "sendto", "connect", "listen"),
           "named": ("dlc", "raw")}


def race_pairs(tier):
    out = []
    for fill in ("none", "dynamic", "named"):
        progs = race_programs(fill)
        if fill != "none":
            # one address left: single operations that take one of that range
            progs = [p for p in progs if len(p) == 1 and (
                p[0][0] if p[0][0] != "bind" else p[0][1]) in R_TAKES[fill]
                and p[0][2:] != ["urn:nfc:sn:snep"]]
        for i, p1 in enumerate(progs):
            for j, p2 in enumerate(progs):
                if tier == "quick" and j < i:
                    # the mirror image (threads swapped, every decision
                    # inverted) is explored already
                    continue
                out.append((fill, p1, p2))
    return out


class _RaceCtx(object):
    def __init__(self):
        self.labels, self.nt, self.info = [], False, None

    def label(self, *names):
        self.labels.extend(names)

    def nontrivial(self, key=None):
        self.nt = True

    def set_class(self, cls):
        pass

    def note(self, info):
        self.info = info


def bulk_race(tier, seed, shard, nshards, acct):
    """depth-first over the schedule tree of every pair: a run reports the
    decision taken at each scheduling point (the given list, then "the
    running thread goes on"); its children take the other decision at one
    later point < depth.  Every decision list over the first `depth` points
    is reached exactly once."""
    depth = RACE_DEPTH[tier]
    ev = nt = 0
    labels, samples = {}, []
    for k, (fill, p1, p2) in enumerate(race_pairs(tier)):
        if k % nshards != shard:
            continue
        stack = [[]]
        while stack:
            prefix = stack.pop()
            case = {"fill": fill, "t1": p1, "t2": p2, "choices": prefix}
            ctx = _RaceCtx()
            try:
                try:
                    bits = run_race(from_json(to_json(case)), ctx)
                except (Violation, HarnessError):
                    raise
                except Exception as e:
                    raise unexpected(e)
            except Violation as v:
                v.case = case
                raise
            ev += 1
            nt += 1 if ctx.nt else 0
            for lab in ctx.labels:
                labels[lab] = labels.get(lab, 0) + 1
            if ctx.nt and len(samples) < 3 and ev % 41 == 0:
                samples.append(dict(case, observed=ctx.info))
            for at in range(len(prefix), min(len(bits), depth)):
                stack.append(bits[:at] + [1 - bits[at]])
    acct.bulk(ev, nt, labels, samples)


RACE_DEPTH = {"quick": 8, "thorough": 20}
R_TAKES = {"dynamic": ("ldl", "sendto", "connect", "listen"),
           "named": ("dlc", "raw")}


LEGS = [
    Leg("machine", run=run_machine,
        gen=lambda tier: machine_case(100 if tier == "quick" else 150),
        quick=1600, thorough=20000, shards_quick=12, shards_thorough=16,
        nt_floor=0.3,
        rule="histories of 33..100 (quick) / 50..150 (thorough) operations on "
             "two linked controllers: socket of three types, bind(nothing | "
             "number -1..70 | well-known, valid, malformed name as str or "
             "bytes), bursts of up to 33 binds, listen, connect by listener "
             "address / name / arbitrary address, send/recv on connections, "
             "blocking recv() loops until the end of the stream (None), "
             "sendto/recvfrom, resolve, close (any socket / a connected one "
             "/ by role), connection life cycles (named service, client "
             "connects, 0-2 messages, the ends die in a generated order: "
             "server or client closes first, the other reads None before its "
             "close() or not, or is blocked in recv() meanwhile; listener "
             "closed or not; name / address / anonymous binds afterwards); "
             "after every close() that empties a bind the freed address and "
             "name are probed with a raw bind / bind by name; non-trivial = a bind reused an "
             "address or name freed by an earlier close, or >=10 addresses "
             "of 16..31 or 32..63 were in use at once, or a resolve "
             "returned an address after such a re-bind."),
    Leg("race", run=run_race, bulk=bulk_race, exhaustive=True,
        shards_quick=8, shards_thorough=16,
        rule="two application threads on ONE link controller under the "
             "virtual scheduler, each running a program of one or two "
             "operations out of: bind() without argument, bind(number an "
             "anonymous bind would get), bind(name) for two names and the "
             "well-known snep name, raw bind(number a named bind would get), "
             "the automatic bind of sendto / connect / listen on an unbound "
             "socket, close of a socket bound beforehand (anonymous / named) "
             "or of the one just bound, close followed by a bind of the freed "
             "name or range (17 programs; quick: all unordered pairs, "
             "thorough: all ordered pairs), with four sockets bound "
             "beforehand, plus the pairs of single address-taking operations "
             "with 31 of 32 dynamic / 15 of 16 named addresses in use; for "
             "every pair every list of scheduling decisions over the first 8 "
             "(quick) / 20 (thorough: the complete schedule tree of every "
             "pair) synchronisation points at which both threads can run "
             "(depth-first over the schedule tree, each distinct schedule "
             "once; the running thread goes on at later points).  Checked: no address reported by "
             "two open sockets, the outcomes (address or errno) are those of "
             "some sequential order of the operations in the AddrTable model, "
             "the controller's table equals the model's at every touched "
             "address (probed with raw binds), a datagram to each bound "
             "logical data link socket arrives exactly there, the answer to "
             "connect reaches the connecting socket, and closing the sockets "
             "one by one frees exactly the closed address each time.  "
             "non-trivial = the schedule switched between the two threads "
             "while both were unfinished."),
]

# the same search in an interpreter with another string hash seed: what a
# program gets from iterating a set / dict of names differs between runs
_byn = dict((lg.name, lg) for lg in LEGS)
LEGS += [twin_env(_byn['machine'], "hash77", {"PYTHONHASHSEED": "77"}, quick=500, thorough=6000)]

# the same searches with every nfc logger enabled down to the lowest level
# (code that only runs, or only evaluates its arguments, when logging is on)
_byl = dict((lg.name, lg) for lg in LEGS)
LEGS += [twin_env(_byl[n], "log", {"VERIF_LOG": "debug"}, quick=q, thorough=t,
                  shards_quick=2)
         for n, q, t in [('machine', 120, 1200)] if n in _byl]
