"""C20 - tag authentication and MAC-protected reads cannot be fooled.

Simulated FeliCa Lite / Lite-S (vlib.simfelica, MAC from vlib.ref_felica) and
NTAG21x (vlib.simntag) tags under a real ContactlessFrontend (vlib.tagdev).

legs
  anchors        recorded vectors of tests/test_tag_tt3_sony.py through the
                 reference MAC, recorded command transcripts of
                 test_tag_tt3_sony.py / test_tag_tt2_nxp.py through the
                 simulators (reference/simulator anchor, enum)
  felica_auth    authenticate(p) == [key(p) is the tag's key as a 3DES key];
                 sequences of passwords on one tag object (gen)
  felica_flips   every one of the 128 single-bit changes of the right key x
                 keys x product (enum)
  auth_bits      every single-bit flip of every response frame of the
                 authentication exchange, right and wrong password (enum)
  auth_tamper    random multi-bit / length / replayed-session changes of the
                 authentication responses (gen)
  read_bits      every single-bit flip of the response to a MAC'd read (enum)
  read_mac       read_with_mac over block selections, genuine and with random
                 changes in transit (gen)
  shapes         well-formed responses of another length (fewer / no / more
                 blocks than requested, a shorter or longer MAC'd read of the
                 same session replayed) for every read of authenticate() and
                 for read_with_mac (enum); the gen legs draw from the same
                 family
  felica_protect protect(pw) then authenticate(pw) / authenticate(other) (gen)
  felica_hist_enum / felica_history
                 histories on ONE tag object: authenticate, protect, plain
                 and MAC'd writes, NDEF write/read, read_with_mac in every
                 order (enum: all sequences of <= 2 operations + a fixed
                 tail; gen: 2-6 generated operations), Lite-S with both
                 write counter policies; NDEF accesses (with / without asking
                 for a re-read) and one-bit modifications of the NDEF read
                 responses at every position relative to authenticate()
                 (enum: all sequences of <= 3 such operations + a final look
                 at tag.ndef): an authenticated tag object hands out only
                 NDEF data the tag holds / held, or none
  ntag_auth      PWD_AUTH/PACK: authenticate(p) == [PWD and PACK match] (gen)
  ntag_flips     all 48 single-bit changes of the right password (enum)
  ntag_tamper    every single-bit flip and random changes of the PACK answer
                 (enum + gen in one leg)
  ntag_protect   protect(pw) then authenticate(pw) / authenticate(other) (gen)
"""
import hashlib

from hypothesis import strategies as st

import ndef as ndeflib
import nfc.tag
import nfc.tag.tt2_nxp
import nfc.tag.tt3_sony
from vlib import ref_felica as ref
from vlib import linesched, simfelica, simntag, tagdev, vsched
from vlib.engine import HarnessError, Leg, Violation, innermost, unexpected, twin_env

PROPERTY = "C20"
LEVEL = "exploration"
ASSUMPTIONS = [
    "vlib/ref_felica.py (own EDE/CBC/byte order over pyDes' single-DES ECB) is "
    "a correct reading of the FeliCa Lite/Lite-S MAC generation; it reproduces "
    "all recorded MACs of tests/test_tag_tt3_sony.py",
    "the simulators stand for the silicon: Lite/Lite-S command framing, MC "
    "permission bits, WCNT/STATE/MAC_A handling and NTAG21x PWD_AUTH follow "
    "the manuals and replay the recorded transcripts; status flag 2 values, "
    "AUTHLIM and lock bits are not modelled",
    "keys are compared as DES keys, i.e. modulo the parity bit of each byte; a "
    "64-bit MAC collision for a different key is not considered",
    "exceptions other than TagCommandError/ValueError raised by authenticate/"
    "protect/read_with_mac are counted (label c16:...) and left to C16; only "
    "wrong results are C20 violations",
    "the tampered-read legs reuse one authenticated session per "
    "(product,key,seed) inside a process: read_with_mac is assumed not to "
    "change reader state (it has none besides _sk/_iv)",
]

TCE = nfc.tag.TagCommandError


def setup():
    vsched.patch_nfc()


# ---------------------------------------------------------------- helpers
def fill_block(seed, n):
    return hashlib.blake2b(b"%d|%d" % (seed, n), digest_size=16).digest()


def attr_block(nmaxb=13, ln=0, rw=1):
    a = bytearray(16)
    a[0:5] = bytes([0x10, 4, 1, nmaxb >> 8, nmaxb & 255])
    a[10] = rw
    a[11:14] = ln.to_bytes(3, "big")
    a[14:16] = sum(a[0:14]).to_bytes(2, "big")
    return bytes(a)


def user_blocks(fill, ndef_attr=True):
    blocks = dict((n, fill_block(fill, n)) for n in range(15))
    if ndef_attr:
        blocks[0] = attr_block(13, fill % 40)
    return blocks


def call(ctx, fn, *args):
    """-> ("ok", value) | ("tce", e) | ("value", e) | ("other", e).  An
    exception that does not come out of nfcpy is a harness failure."""
    try:
        return "ok", fn(*args)
    except TCE as e:
        return "tce", e
    except ValueError as e:
        return "value", e
    except tagdev.BudgetExceeded:
        raise
    except Exception as e:
        owner, frame = innermost(e.__traceback__)
        if owner != "nfc":
            raise
        ctx.label("c16:%s@%s" % (type(e).__name__, frame))
        return "other", e


def read_blocks(rsp):
    """16-byte blocks of a well-formed Read Without Encryption response with
    status 0000 (LEN 07 IDm 00 00 count data...), else None"""
    if len(rsp) < 13 or rsp[1] != 0x07 or rsp[10] != 0 or \
            (len(rsp) - 13) % 16:
        return None
    return [bytes(rsp[i:i + 16]) for i in range(13, len(rsp), 16)]


def apply_ops(rsp, ops, seen=None):
    """modify a response frame; ops is JSON data from the case.  ``seen``:
    {relative index: (cmd, rsp)} of the earlier exchanges since arming.

    length-changing, frame-structure aware operations (Read responses only,
    others pass unchanged):
      blocks   the response carries the blocks ``keep`` (indices into the
               genuine blocks modulo their number, [] = none; -1 = a block
               of sixteen ``fill`` bytes) instead of the blocks requested;
               ``count``: "fix" = block count byte says how many follow,
               "keep" = genuine count byte, "drop" = no count byte at all
               (frame ends with the status bytes; keep is ignored), or an
               int; the LEN byte is made consistent unless ``rawlen``
      earlier  the frame is replaced by the response to exchange ``y`` of
               the same session (when there was one)"""
    b = bytearray(rsp)
    for op in ops:
        k = op["op"]
        if k == "blocks":
            blks = read_blocks(bytes(b))
            if blks is None:
                continue
            head = bytearray(b[0:13])
            cnt = op.get("count", "fix")
            if cnt == "drop":
                b = head[0:12]
            else:
                sel = [bytes([op.get("fill", 0)]) * 16 if i < 0 or not blks
                       else blks[i % len(blks)] for i in op["keep"]]
                if cnt == "fix":
                    head[12] = len(sel) & 255
                elif cnt != "keep":
                    head[12] = cnt & 255
                b = head + b"".join(sel)
            if not op.get("rawlen"):
                b[0] = len(b) & 255
        elif k == "earlier":
            got = (seen or {}).get(op["y"])
            if got is not None and got[1] is not None:
                b = bytearray(got[1])
        elif k == "bit" and b:
            b[(op["bit"] // 8) % len(b)] ^= 1 << (op["bit"] % 8)
        elif k == "xor" and b:
            b[op["pos"] % len(b)] ^= op["mask"]
        elif k == "set" and b:
            b[op["pos"] % len(b)] = op["val"]
        elif k == "trunc":
            del b[op["n"] % (len(b) + 1):]
        elif k == "append":
            b += op["data"]
        elif k == "fixlen" and b:
            b[0] = len(b) & 255
        elif k == "replace":
            b = bytearray(op["data"])
        elif k == "copy" and b:            # copy bytes inside the frame
            s, d, n = op["src"] % len(b), op["dst"] % len(b), op["n"]
            chunk = b[s:s + n]
            b[d:d + len(chunk)] = chunk
            del b[len(rsp):]
    return bytes(b)


def protected_regions(cmd, rsp):
    """byte ranges of a genuine FeliCa response whose modification the reader
    must notice: data and MAC bytes of a Read that ends with the MAC block,
    and the write counter bytes of a WCNT read (they enter MAC_A)."""
    if len(rsp) < 13 + 16 or rsp[1] != 0x07 or rsp[10] != 0 or len(cmd) < 16:
        return []
    nblk = cmd[13]
    blocks = []
    pos = 14
    for _ in range(nblk):
        if cmd[pos] & 0x80:
            blocks.append(cmd[pos + 1])
            pos += 2
        else:
            blocks.append(cmd[pos + 1] | cmd[pos + 2] << 8)
            pos += 3
    if blocks and blocks[-1] == simfelica.MAC and nblk >= 2:
        return [(13, 13 + 16 * (nblk - 1) + 8)]
    if blocks == [simfelica.WCNT]:
        return [(13, 16)]
    return []


def read_block_numbers(cmd):
    """block numbers of a Read Without Encryption command with one service,
    None for another command"""
    if len(cmd) < 16 or cmd[1] != 0x06 or cmd[10] != 1:
        return None
    blocks, pos = [], 14
    for _ in range(cmd[13]):
        if pos + 1 >= len(cmd):
            return None
        if cmd[pos] & 0x80:
            blocks.append(cmd[pos + 1])
            pos += 2
        else:
            if pos + 2 >= len(cmd):
                return None
            blocks.append(cmd[pos + 1] | cmd[pos + 2] << 8)
            pos += 3
    return blocks


def ndef_regions(cmd, rsp, where="all", plain=False):
    """byte ranges of a genuine Read response that an attacker of the NDEF
    read path changes: the MAC-protected part (data and MAC) of a read that
    ends with the MAC block and, with ``plain``, the block data of a read of
    user blocks 0..14 without MAC block (what the library sends while it is
    not authenticated; the very bytes a MAC'd read would protect).  ``where``:
    "data" = only reads of message blocks (block 0 not among them), "attr" =
    only reads that fetch the attribute block 0, "all" = both."""
    blocks = read_block_numbers(cmd)
    if not blocks or len(rsp) < 13 + 16 or rsp[1] != 0x07 or rsp[10] != 0:
        return []
    if (where == "data" and 0 in blocks) or \
            (where == "attr" and 0 not in blocks):
        return []
    regs = protected_regions(cmd, rsp)
    if not regs and plain and all(0 <= n <= 14 for n in blocks) and \
            len(rsp) == 13 + 16 * len(blocks):
        regs = [(13, len(rsp))]
    return regs


def genuine_ndef(sim):
    """the NDEF message the simulated tag holds: length field of a valid
    attribute block 0 and the message blocks from the simulator's memory;
    None when block 0 is not a valid attribute block"""
    attr = bytes(sim.mem[0])
    if sum(attr[0:14]) != int.from_bytes(attr[14:16], "big"):
        return None
    ln = int.from_bytes(attr[11:14], "big")
    if ln > 14 * 16:
        return None
    return b"".join(bytes(sim.mem[n]) for n in range(
        1, 1 + (ln + 15) // 16))[0:ln]


class Tamper(object):
    """tagdev tamper hook: applies ops to chosen exchanges (1-based, counted
    from arming) and records whether a protected region really changed"""

    def __init__(self, dev, plan, regions=protected_regions):
        self.base = dev.exchanges
        self.plan = plan                # {rel index: ops | callable}
        self.regions = regions
        self.touched = False
        self.changed = False
        self.seen = {}
        self.out = {}

    def __call__(self, idx, cmd, rsp):
        rel = idx - self.base
        self.out[rel] = rsp
        ops = self.plan.get(rel)
        if ops is None:
            ops = self.plan.get(str(rel))
        if ops is None:
            self.seen[rel] = (cmd, rsp)
            return rsp
        new = ops(rel, cmd, rsp) if callable(ops) else \
            apply_ops(rsp, ops, self.seen)
        self.seen[rel] = (cmd, rsp)
        self.out[rel] = new
        if new != rsp:
            self.changed = True
            for a, b in self.regions(cmd, rsp):
                if new[a:b] != rsp[a:b]:
                    self.touched = True
        return new


def activate(sim, cls, what):
    clf, tag = tagdev.activate(sim)
    if not isinstance(tag, cls):
        raise HarnessError("%s simulator activated as %r" % (what, tag))
    return clf, tag


FELICA_CLS = {"lite": nfc.tag.tt3_sony.FelicaLite,
              "lites": nfc.tag.tt3_sony.FelicaLiteS}


def felica_key_of(pw):
    """the card key a password stands for (authenticate/protect docstrings:
    first 16 bytes; empty = factory key of 16 zero bytes); None = too short"""
    pw = bytes(pw)
    if len(pw) == 0:
        return bytes(16)
    if len(pw) < 16:
        return None
    return pw[0:16]


def typed(pw, pwtype):
    return bytearray(pw) if pwtype == "bytearray" else bytes(pw)


def felica_sim(case, **kw):
    return simfelica.make(case["prod"], key=case["key"],
                          user=user_blocks(case.get("fill", 0)),
                          id_block=case.get("id"), **kw)


def check_auth_result(ctx, what, out, expected, pw):
    """authenticate() without interference: the result is the oracle's"""
    kind, val = out
    if expected is None:                    # too short
        if kind == "ok" and val is True:
            raise Violation("short-password-authenticates",
                            "%s(%s) -> True" % (what, bytes(pw).hex()))
        ctx.label("short:" + (kind if kind != "ok" else "returned-%r" % val))
        return
    if kind == "other":
        if expected is True:
            # "returns true exactly when the tag holds the key": for the
            # right password of a documented type an exception is not true
            # (for a wrong one it is C16's matter)
            raise Violation("right-key-raises", "%s(%r) raised %r although "
                            "the tag holds that key" % (what, pw, val))
        return
    if kind != "ok":
        raise Violation("auth-error-without-interference",
                        "%s(%s) -> %r, expected %r" % (what, bytes(pw).hex(),
                                                       val, expected))
    if val is not expected:
        raise Violation("true-for-wrong-key" if val is True else
                        "false-for-right-key" if val is False else
                        "auth-result-not-bool",
                        "%s(%s) -> %r, tag key says %r"
                        % (what, bytes(pw).hex(), val, expected))


# ---------------------------------------------------------------- anchors
def _hx(s):
    return bytes.fromhex(s.replace(" ", ""))


IDM = "0102030405060708"
# (command, recorded response) pairs of TestFelicaLiteS.
# test_protect_ndef_tag_readonly; os.urandom patched to 00..0f there, so the
# transcript starts from the same RC.
LITES_PROTECT = [
    ("10 06 IDM 010b00 018088", "1d 07 IDM 0000 01 FFFFFF01 07000000 00000000 00000000"),
    ("10 06 IDM 010b00 018086", "1d 07 IDM 0000 01 00000000 00000000 00000000 00000000"),
    ("20 08 IDM 010900 018086 01000000 00000000 00000000 00000000", "0c 09 IDM 0000"),
    ("20 08 IDM 010900 018087 37363534 33323130 66656463 62613938", "0c 09 IDM 0000"),
    ("20 08 IDM 010900 018080 07060504 03020100 0f0e0d0c 0b0a0908", "0c 09 IDM 0000"),
    ("12 06 IDM 010b00 0280828081",
     "2d 07 IDM 0000 02 01020304 05060708 00000000 00000000 91aec5b6 d9b3b12d 00000000 00000000"),
    ("10 06 IDM 010b00 018090", "1d 07 IDM 0000 01 00FEFF00 00000000 00000000 00000000"),
    ("32 08 IDM 010900 0280928091 01000000 00000000 00000000 00000000 "
     "17c19e3b bdc3e8bd 00feff00 00000000", "0c 09 IDM 0000"),
    ("12 06 IDM 010b00 0280928081",
     "2d 07 IDM 0000 02 01000000 00000000 00000000 00000000 bd73eb72 94a00279 00000000 00000000"),
    ("06 00 12fc 0000", "12 01 IDM 00F1FFFFFFFFFFFF"),
    ("12 06 IDM 010b00 0280008081",
     "2d 07 IDM 0000 02 10040100 03000000 00000100 00000019 a622c337 a4e44271 00000000 00000000"),
    ("10 06 IDM 010b00 018088", "1d 07 IDM 0000 01 FFFFFF01 07000000 00000000 00000000"),
    ("10 06 IDM 010b00 018000", "1d 07 IDM 0000 01 10040100 03000000 00000100 00000019"),
    ("20 08 IDM 010900 018000 10040100 03000000 00000000 00000018", "0c 09 IDM 0000"),
    ("20 08 IDM 010900 018088 ffff0001 0701ff3f ff3fff3f 00000000", "0c 09 IDM 0000"),
]
# TestFelicaLite.test_ndef: authenticate, read attribute block and three data
# blocks with MAC (the recorded polling answer in between carries a dummy PMm
# and is left out)
LITE_NDEF = [
    ("20 08 IDM 010900 018080 07060504 03020100 0f0e0d0c 0b0a0908", "0c 09 IDM 0000"),
    ("12 06 IDM 010b00 0280828081",
     "2d 07 IDM 0000 02 00000000 00000000 00000000 00000000 cc97f1b9 7b8bbc79 00000000 00000000"),
    ("12 06 IDM 010b00 0280008081",
     "2d 07 IDM 0000 02 10040100 03000000 00000100 00270040 af36b1f1 524e3eb9 00000000 00000000"),
    ("16 06 IDM 010b00 048001800280038081",
     "4d 07 IDM 0000 04 d1022253 7091010e 55036e66 632d666f 72756d2e 6f726751 "
     "010c5402 656e4e46 4320466f 72756d00 00000000 00000000 9e2d7fe1 5b2f5d1c 00000000 00000000"),
    ("20 08 IDM 010900 018000 10040100 03000000 000f0100 0027004f", "0c 09 IDM 0000"),
]
# TestNTAG21x.test_authenticate: (PWD, PACK, command, recorded answer)
NTAG_AUTH = [
    ("ffffffff", "0000", "1b ffffffff", "0000"),
    ("abcdefff", "1234", "1b abcdefff", "1234"),
    ("01234567", "89ab", "1b 01234567", "89ab"),
]


def enum_anchors(tier, seed):
    for i in range(len(ref.ANCHORS)):
        yield {"kind": "mac", "i": i}
    yield {"kind": "transcript", "name": "lites-protect"}
    yield {"kind": "transcript", "name": "lite-ndef"}
    for i in range(len(NTAG_AUTH)):
        yield {"kind": "ntag", "i": i}
    for prod in ("lite", "lites"):
        yield {"kind": "library", "prod": prod}


def _transcript_sim(name):
    if name == "lites-protect":
        sim = simfelica.SimFelicaLiteS(
            wcnt=0xFFFE00 - 2, ndef=True,
            user={0: _hx("10040100 03000000 00000100 00000019")})
        return sim, LITES_PROTECT
    sim = simfelica.SimFelicaLite(
        key=b"0123456789abcdef", id_block=bytes(16), user={
            0: _hx("10040100 03000000 00000100 00270040"),
            1: _hx("d1022253 7091010e 55036e66 632d666f"),
            2: _hx("72756d2e 6f726751 010c5402 656e4e46"),
            3: _hx("4320466f 72756d00 00000000 00000000")})
    return sim, LITE_NDEF


def run_anchor(case, ctx):
    ctx.nontrivial()
    kind = case["kind"]
    ctx.label("anchor:" + kind)
    if kind == "mac":
        a = ref.ANCHORS[case["i"]]
        got = ref.anchor_value(a)
        if got != a["mac"]:
            raise HarnessError("reference MAC off its anchor %s: %s != %s"
                               % (a["src"], got, a["mac"]))
        # the same vector through the code under test
        if a["kind"] == "raw":
            lib = nfc.tag.tt3_sony.FelicaLite.generate_mac(
                a["data"], a["sk"], a["iv"], a["flip"])
            if bytes(lib).hex() != a["mac"]:
                raise Violation("generate_mac-off-recorded-vector",
                                "%s: %s" % (a["src"], bytes(lib).hex()))
        ctx.note({"src": a["src"], "mac": got})
    elif kind == "transcript":
        sim, script = _transcript_sim(case["name"])
        for i, (c, r) in enumerate(script):
            c, r = _hx(c.replace("IDM", IDM)), _hx(r.replace("IDM", IDM))
            got = sim.command(c, 0.1)
            if got != r:
                raise HarnessError(
                    "simulator off the recorded transcript %s step %d: "
                    "%s -> %s, recorded %s" % (case["name"], i + 1, c.hex(),
                                               got and got.hex(), r.hex()))
    elif kind == "ntag":
        pwd, pack, c, r = [_hx(x) for x in NTAG_AUTH[case["i"]]]
        sim = simntag.make("NTAG213", pwd=pwd, pack=pack)
        got = sim.command(c, 0.1)
        if got != r:
            raise HarnessError("NTAG simulator off the recorded PWD_AUTH "
                               "answer: %r" % (got,))
        clf, tag = activate(sim, nfc.tag.tt2_nxp.NTAG213, "NTAG213")
        out = call(ctx, tag.authenticate, pwd + pack)
        check_auth_result(ctx, "ntag.authenticate", out, True, pwd + pack)
    else:
        # the recorded key against the simulator through the real library
        key = b"0123456789abcdef"
        sim = simfelica.make(case["prod"], key=key)
        clf, tag = activate(sim, FELICA_CLS[case["prod"]], case["prod"])
        vsched.seed_urandom(1)
        check_auth_result(ctx, "authenticate",
                          call(ctx, tag.authenticate, key), True, key)
        out = call(ctx, tag.read_with_mac, 0, 1)
        if out[0] != "ok" or out[1] is None or \
                bytes(out[1]) != sim.genuine(0, 1):
            raise Violation("genuine-read-rejected", repr(out))


# ------------------------------------------------------------ felica_auth
key16 = st.binary(min_size=16, max_size=16)
prod_ = st.sampled_from(["lite", "lites"])
useed_ = st.integers(0, 2**32 - 1)


def flip_bits(key, positions):
    k = bytearray(key)
    for p in positions:
        k[p // 8] ^= 1 << (p % 8)
    return bytes(k)


@st.composite
def felica_password(draw, key):
    """(kind, password bytes) relative to the tag's key"""
    kind = draw(st.sampled_from(
        ["same", "same", "extra", "flip", "flip", "flips", "parity", "random",
         "random16", "short", "empty", "half", "swap"]))
    if kind == "same":
        return kind, key
    if kind == "extra":
        return kind, key + draw(st.binary(min_size=1, max_size=24))
    if kind == "flip":
        p = draw(st.integers(0, 127))
        return ("flip-parity" if p % 8 == 0 else "flip-keybit"), \
            flip_bits(key, [p])
    if kind == "flips":
        ps = draw(st.lists(st.integers(0, 127), min_size=2, max_size=6,
                           unique=True))
        return kind, flip_bits(key, ps)
    if kind == "parity":
        ps = draw(st.lists(st.integers(0, 15), min_size=1, max_size=16,
                           unique=True))
        return kind, flip_bits(key, [8 * p for p in ps]) + \
            draw(st.binary(max_size=3))
    if kind == "random":
        return kind, draw(st.binary(min_size=16, max_size=40))
    if kind == "random16":
        return kind, draw(key16)
    if kind == "short":
        return kind, draw(st.binary(min_size=1, max_size=15))
    if kind == "empty":
        return kind, b""
    if kind == "half":                      # one key half right
        other = draw(st.binary(min_size=8, max_size=8))
        return kind, draw(st.sampled_from([key[0:8] + other, other + key[8:16]]))
    return kind, key[8:16] + key[0:8]       # halves swapped


@st.composite
def gen_felica_auth(draw):
    key = draw(st.one_of(key16, key16, key16, st.just(bytes(16)),
                         st.binary(min_size=8, max_size=8).map(
                             lambda h: h + h)))
    seq = []
    for _ in range(draw(st.sampled_from([1, 1, 1, 2, 3]))):
        kind, pw = draw(felica_password(key))
        seq.append({"kind": kind, "pw": pw, "type": draw(st.sampled_from(
            ["bytes", "bytes", "bytearray"]))})
    return {"prod": draw(prod_), "key": key, "seq": seq, "useed": draw(useed_),
            "fill": draw(st.integers(0, 999)),
            "id": draw(st.one_of(st.none(), key16))}


def run_felica_auth(case, ctx):
    prod = case["prod"]
    sim = felica_sim(case)
    clf, tag = activate(sim, FELICA_CLS[prod], prod)
    vsched.seed_urandom(case["useed"])
    ctx.set_class(prod + "/" + "+".join(s["kind"] for s in case["seq"]))
    for step in case["seq"]:
        pw = step["pw"]
        k = felica_key_of(pw)
        expected = None if k is None else ref.same_des_key(k, sim.key)
        ctx.label("%s:%s" % (prod, step["kind"]),
                  "expect:%s" % expected)
        if k is not None and not expected and \
                ref.strip_parity(k) != ref.strip_parity(sim.key):
            ctx.nontrivial()
        if k is not None and expected and k != sim.key:
            ctx.label("right-key-other-parity")
        out = call(ctx, tag.authenticate, typed(pw, step["type"]))
        check_auth_result(ctx, "%s.authenticate" % prod, out, expected, pw)
        if out[0] == "ok" and bool(tag.is_authenticated) != (out[1] is True):
            raise Violation("is_authenticated-disagrees",
                            "returned %r, is_authenticated %r"
                            % (out[1], tag.is_authenticated))
        if out[0] == "ok" and out[1] is True:
            r = call(ctx, tag.read_with_mac, 1, 2)
            if r[0] != "ok" or r[1] is None or \
                    bytes(r[1]) != sim.genuine(1, 2):
                raise Violation("genuine-read-rejected", repr(r))


# ----------------------------------------------------------- felica_flips
def seeded_key(seed, i, n=16):
    return hashlib.blake2b(b"key|%d|%d" % (seed, i), digest_size=n).digest()


def enum_felica_flips(tier, seed):
    nkeys = 16 if tier == "quick" else 300
    for i in range(nkeys):
        key = seeded_key(seed, i)
        prod = "lites" if i % 4 == 3 else "lite"
        for pos in range(128):
            yield {"prod": prod, "key": key, "pos": pos,
                   "useed": (seed * 1000003 + i * 131 + pos) & 0xFFFFFFFF}


def run_felica_flip(case, ctx):
    pos = case["pos"]
    parity = pos % 8 == 0
    pw = flip_bits(case["key"], [pos])
    c = {"prod": case["prod"], "key": case["key"], "useed": case["useed"],
         "seq": [{"kind": "flip-parity" if parity else "flip-keybit",
                  "pw": pw, "type": "bytes"}]}
    run_felica_auth(c, ctx)
    ctx.set_class("%s/flip-%s" % (case["prod"],
                                  "parity" if parity else "keybit"))


# ------------------------------------------------ tampered authentication
AUTH_RSP_LEN = {("lite", True): [12, 45], ("lite", False): [12, 45],
                ("lites", True): [12, 45, 29, 12, 45],
                ("lites", False): [12, 45]}


def record_auth(case, useed):
    """responses of an undisturbed authentication of the same tag with
    another challenge (material for replay attacks)"""
    sim = felica_sim(case)
    clf, tag = activate(sim, FELICA_CLS[case["prod"]], case["prod"])
    vsched.seed_urandom(useed)
    base = clf.device.exchanges
    try:
        tag.authenticate(bytes(case["pw"]))
    except (TCE, ValueError):
        pass
    return [r for (i, c, r, ph) in clf.device.xlog if i > base]


def run_auth_tampered(case, ctx):
    prod, pw = case["prod"], case["pw"]
    sim = felica_sim(case)
    clf, tag = activate(sim, FELICA_CLS[prod], prod)
    k = felica_key_of(pw)
    expected = ref.same_des_key(k, sim.key)
    plan = dict(case.get("plan") or {})
    rp = case.get("replay")
    if rp:
        rec = record_auth(case, rp["useed"])
        if rp["x"] <= len(rec) and rec[rp["x"] - 1] is not None:
            plan[str(rp["x"])] = [{"op": "replace", "data": rec[rp["x"] - 1]}]
        ctx.label("replayed-session")
    vsched.seed_urandom(case["useed"])
    t = Tamper(clf.device, plan)
    clf.device.tamper = t
    try:
        out = call(ctx, tag.authenticate, bytes(pw))
    finally:
        clf.device.tamper = None
    want_len = case.get("rsp_len")
    if want_len is not None:
        x = int(list(plan)[0])
        got = t.seen.get(x)
        if got is None or len(got[1]) != want_len:
            raise HarnessError("exchange %d of %s authentication is not the "
                               "%d byte frame the enumeration assumes: %r"
                               % (x, prod, want_len, got))
    kind, val = out
    ctx.set_class("%s/%s/%s" % (prod, "right" if expected else "wrong",
                                "mac-data" if t.touched else
                                "other" if t.changed else "untouched"))
    ctx.label("%s:%s-key:%s" % (prod, "right" if expected else "wrong",
                                "mac-data" if t.touched else
                                "frame" if t.changed else "untouched"),
              "result:%s" % (val if kind == "ok" else kind))
    if t.touched or not expected:
        ctx.nontrivial()
    if not t.changed:
        check_auth_result(ctx, "authenticate", out, expected, pw)
        return
    if kind == "ok" and val is True:
        if not expected:
            raise Violation("tampering-authenticates-wrong-key",
                            "key %s password %s plan %r -> True"
                            % (sim.key.hex(), bytes(pw).hex(), plan))
        if t.touched:
            raise Violation("tampered-mac-data-accepted",
                            "authenticate -> True although data/MAC bytes "
                            "were modified in transit: %r" % (plan,))
    elif kind == "ok" and val is not False:
        raise Violation("auth-result-not-bool", repr(val))
    ctx.note({"exchanges": sorted(t.seen), "touched": t.touched})


def enum_auth_bits(tier, seed):
    ncfg = 2 if tier == "quick" else 16
    for i in range(ncfg):
        key = seeded_key(seed, 1000 + i)
        wrong = flip_bits(key, [((i * 37) % 16) * 8 + 1 + i % 7])
        for prod in ("lite", "lites"):
            for right in (True, False):
                lens = AUTH_RSP_LEN[(prod, right)]
                for x, ln in enumerate(lens, 1):
                    for bit in range(8 * ln):
                        yield {"prod": prod, "key": key,
                               "pw": key if right else wrong,
                               "useed": (seed + 7919 * i) & 0xFFFFFFFF,
                               "fill": i, "rsp_len": ln,
                               "plan": {str(x): [{"op": "bit", "bit": bit}]}}


byte_ = st.integers(0, 255)


@st.composite
def frame_ops(draw, hot=(10, 40)):
    """1..4 modifications of one frame, positions biased to a hot range"""
    pos = st.one_of(st.integers(hot[0], hot[1]), st.integers(0, 80))
    ops = []
    for _ in range(draw(st.integers(1, 4))):
        k = draw(st.sampled_from(["xor", "xor", "xor", "set", "bit", "copy",
                                  "trunc", "append"]))
        if k == "xor":
            ops.append({"op": "xor", "pos": draw(pos),
                        "mask": draw(st.integers(1, 255))})
        elif k == "set":
            ops.append({"op": "set", "pos": draw(pos), "val": draw(byte_)})
        elif k == "bit":
            ops.append({"op": "bit", "bit": draw(st.integers(0, 8 * 80))})
        elif k == "copy":
            ops.append({"op": "copy", "src": draw(pos), "dst": draw(pos),
                        "n": draw(st.sampled_from([1, 2, 8, 16]))})
        elif k == "trunc":
            ops.append({"op": "trunc", "n": draw(st.integers(0, 80))})
            ops.append({"op": "fixlen"})
        else:
            ops.append({"op": "append",
                        "data": draw(st.binary(min_size=1, max_size=16))})
            if draw(st.booleans()):
                ops.append({"op": "fixlen"})
    return ops


@st.composite
def shape_ops(draw, n):
    """a length-changing, well-framed substitution of a Read response that
    carries ``n`` blocks: fewer blocks (also none), more blocks, blocks
    dropped from the front / middle / end, the same block repeated; block
    count byte consistent, genuine or arbitrary; the frame cut right behind
    the status bytes; optionally one more byte change on top"""
    kind = draw(st.sampled_from(["none", "none", "prefix", "suffix", "subset",
                                 "more", "any", "drop"]))
    idx = st.integers(-1, n - 1)
    if kind == "none":
        keep = []
    elif kind == "prefix":
        keep = list(range(draw(st.integers(0, max(0, n - 1)))))
    elif kind == "suffix":
        keep = list(range(draw(st.integers(1, n)), n))
    elif kind == "subset":
        keep = sorted(draw(st.sets(st.integers(0, n - 1), max_size=n)))
    elif kind == "more":
        keep = list(range(n)) + draw(st.lists(idx, min_size=1, max_size=3))
    else:
        keep = draw(st.lists(idx, max_size=n + 2))
    op = {"op": "blocks", "keep": keep,
          "count": "drop" if kind == "drop" else draw(st.sampled_from(
              ["fix", "fix", "fix", "keep", 0, 1, n])),
          "fill": draw(st.sampled_from([0, 0xFF]))}
    if draw(st.integers(0, 7)) == 0:
        op["rawlen"] = True
    ops = [op]
    if draw(st.integers(0, 5)) == 0:
        ops.append({"op": "xor", "pos": draw(st.integers(0, 13 + 16 * n)),
                    "mask": draw(st.integers(1, 255))})
    return ops


AUTH_READ_BLOCKS = {45: 2, 29: 1}       # frame length -> blocks it carries


@st.composite
def gen_auth_tamper(draw):
    prod = draw(prod_)
    key = draw(key16)
    right = draw(st.sampled_from([True, True, False]))
    if right:
        pw = draw(st.sampled_from([key, flip_bits(key, [0, 64])]))
    else:
        pw = draw(st.one_of(key16, st.integers(0, 127).map(
            lambda p: flip_bits(key, [p | 1]))))
    case = {"prod": prod, "key": key, "pw": pw, "useed": draw(useed_),
            "fill": draw(st.integers(0, 999)),
            "id": draw(st.one_of(st.none(), key16))}
    nx = len(AUTH_RSP_LEN[(prod, right)])
    if draw(st.sampled_from([False] * 5 + [True])):
        case["replay"] = {"x": draw(st.sampled_from([2, 2, nx])),
                          "useed": draw(useed_)}
        return case
    plan = {}
    lens = AUTH_RSP_LEN[(prod, right)]
    for x in draw(st.lists(st.sampled_from([2, 2] + list(range(1, nx + 1))),
                           min_size=1, max_size=2, unique=True)):
        how = draw(st.sampled_from(["bytes", "bytes", "shape", "earlier"]))
        if how == "shape" and lens[x - 1] in AUTH_READ_BLOCKS:
            plan[str(x)] = draw(shape_ops(AUTH_READ_BLOCKS[lens[x - 1]]))
        elif how == "earlier" and any(ln != lens[x - 1]
                                      for ln in lens[:x - 1]):
            # only a response of another length: an equally long genuine
            # read of the same session carries a valid MAC, and the FeliCa
            # Lite read MAC does not cover the block numbers
            plan[str(x)] = [{"op": "earlier", "y": draw(st.sampled_from(
                [y for y in range(1, x) if lens[y - 1] != lens[x - 1]]))}]
        else:
            plan[str(x)] = draw(frame_ops())
    case["plan"] = plan
    return case


# ------------------------------------------------------------- MAC'd reads
_sessions = {}


def auth_session(ctx, case):
    """(sim, clf, tag) after a successful authenticate with the right key;
    one per configuration and process (see ASSUMPTIONS)"""
    k = (case["prod"], case["key"], case["useed"], case.get("fill", 0))
    s = _sessions.get(k)
    if s is None:
        if len(_sessions) >= 64:
            _sessions.clear()
        sim = felica_sim(case)
        clf, tag = activate(sim, FELICA_CLS[case["prod"]], case["prod"])
        vsched.seed_urandom(case["useed"])
        out = call(ctx, tag.authenticate, bytes(case["key"]))
        if out[0] == "other":
            return None
        check_auth_result(ctx, "authenticate", out, True, case["key"])
        s = _sessions[k] = (sim, clf, tag)
    return s


def selection_valid(sim, blocks):
    return 1 <= len(blocks) <= sim.MAX_READ - 1 and \
        all(b in sim.READABLE for b in blocks)


def replayed_read(ctx, clf, tag, sub):
    """plan that delivers the genuine response of read_with_mac(*sub), read
    just now in the same session, in place of the next response; None when
    that read did not yield data"""
    n0 = clf.device.exchanges
    out = call(ctx, tag.read_with_mac, *sub)
    if out[0] != "ok" or out[1] is None or clf.device.exchanges != n0 + 1:
        ctx.label("replay:source-read-gave-no-data")
        return None
    frame = clf.device.xlog[-1][2]
    if not isinstance(frame, bytes):
        return None
    ctx.label("replay:read%d-for-another-read" % len(sub))
    return [{"op": "replace", "data": frame}]


def run_read(case, ctx):
    prod, blocks = case["prod"], case["blocks"]
    s = auth_session(ctx, case)
    if s is None:
        return
    sim, clf, tag = s
    valid = selection_valid(sim, blocks)
    genuine = sim.genuine(*blocks) if valid else None
    plan = case.get("plan")
    if case.get("replay"):
        plan = replayed_read(ctx, clf, tag, case["replay"])
    t = Tamper(clf.device, {"1": plan} if plan else {})
    clf.device.tamper = t
    try:
        out = call(ctx, tag.read_with_mac, *blocks)
    finally:
        clf.device.tamper = None
    want_len = case.get("rsp_len")
    if want_len is not None and len(t.seen[1][1]) != want_len:
        raise HarnessError("read response is not the %d byte frame the "
                           "enumeration assumes: %r" % (want_len, t.seen[1]))
    kind, val = out
    where = "mac-data" if t.touched else "frame" if t.changed else "genuine"
    ctx.set_class("%s/read%d/%s" % (prod, len(blocks), where))
    ctx.label("%s:n=%d:%s" % (prod, len(blocks), where),
              "result:%s" % (kind if kind != "ok" else
                             "none" if val is None else "data"))
    if t.touched or (valid and not plan):
        ctx.nontrivial()
    if kind != "ok" or val is None:
        if not t.changed and valid and kind != "other":
            raise Violation("genuine-read-rejected",
                            "read_with_mac%r -> %r" % (tuple(blocks), val))
        return
    got = bytes(val)
    if not valid:
        raise Violation("data-for-invalid-selection",
                        "read_with_mac%r -> %s" % (tuple(blocks), got.hex()))
    if got != genuine:
        raise Violation("altered-data-returned",
                        "read_with_mac%r -> %s, the tag holds %s (ops %r)"
                        % (tuple(blocks), got.hex(), genuine.hex(), plan))
    if t.touched:
        raise Violation("modified-mac-accepted",
                        "read_with_mac%r returned data although data/MAC "
                        "bytes were modified in transit (ops %r)"
                        % (tuple(blocks), plan))


def enum_read_bits(tier, seed):
    ncfg = 1 if tier == "quick" else 12
    pool = list(range(15)) + [0x82, 0x83, 0x84, 0x85, 0x86, 0x88]
    for i in range(ncfg):
        key = seeded_key(seed, 2000 + i)
        h = seeded_key(seed, 3000 + i, 8)
        for prod in ("lite", "lites"):
            p = pool + ([0x90, 0x92] if prod == "lites" else [])
            for n in (1, 2, 3):
                blocks = [p[h[n + j] % len(p)] for j in range(n)]
                ln = 13 + 16 * (n + 1)
                for bit in range(8 * ln):
                    yield {"prod": prod, "key": key, "fill": i,
                           "useed": (seed + 104729 * i) & 0xFFFFFFFF,
                           "blocks": blocks, "rsp_len": ln,
                           "plan": [{"op": "bit", "bit": bit}]}


def replay_selection(blocks, pool):
    """block selection of ANOTHER read_with_mac of the same session whose
    genuine response (valid MAC included) is delivered instead: a different
    number of blocks (mostly fewer, a part of the requested ones).  A
    selection of the same size is not generated: the FeliCa Lite read MAC
    does not cover the block numbers, which no reader can make up for."""
    n = len(blocks)
    part = st.lists(st.sampled_from(blocks), min_size=1, max_size=3)
    other = st.lists(st.sampled_from(pool), min_size=1, max_size=3)
    head = st.integers(1, max(1, n - 1)).map(lambda k: blocks[:k])
    more = st.lists(st.sampled_from(pool), min_size=1, max_size=2).map(
        lambda x: (blocks + x)[:3])
    return st.one_of(head, part, other, more).filter(lambda b: len(b) != n)


@st.composite
def gen_read(draw):
    prod = draw(prod_)
    pool = list(range(15)) + [0x82, 0x83, 0x84, 0x85, 0x86, 0x87, 0x88, 0x80]
    if prod == "lites":
        pool += [0x90, 0x92]
    n = draw(st.sampled_from([1, 1, 2, 2, 3, 3, 3, 4]))
    blocks = draw(st.lists(st.sampled_from(pool), min_size=n, max_size=n))
    if draw(st.integers(0, 30)) == 0:
        blocks[draw(st.integers(0, n - 1))] = draw(st.sampled_from(
            [15, 0x89, 0x8F, 0x93, 0xFF, 0x100, 0x1234]))
    # few distinct sessions per run, many reads per session
    i = draw(st.integers(0, 5))
    case = {"prod": prod, "key": seeded_key(draw(st.integers(0, 1)), 4000 + i),
            "useed": i, "fill": draw(st.integers(0, 3)), "blocks": blocks}
    how = draw(st.sampled_from(["genuine", "bytes", "bytes", "shape",
                                "replay"]))
    if how == "bytes":
        case["plan"] = draw(frame_ops(hot=(13, 13 + 16 * n + 8)))
    elif how == "shape":
        case["plan"] = draw(shape_ops(n + 1))
    elif how == "replay":
        case["replay"] = draw(replay_selection(blocks, pool))
    return case


# ------------------------------------------- responses of another length
def block_shapes(n):
    """block selections for a response that should carry n blocks: every
    in-order selection of fewer blocks (also none), the n blocks followed by
    one more (one of them again, or a filler block), the n blocks twice"""
    out = []
    for mask in range(2 ** n - 1):
        out.append([i for i in range(n) if mask >> i & 1])
    for extra in list(range(n)) + [-1]:
        out.append(list(range(n)) + [extra])
    out.append(list(range(n)) * 2)
    return out


def shape_plans(n):
    for keep in block_shapes(n):
        for count in ("fix", "keep"):
            yield [{"op": "blocks", "keep": keep, "count": count}]
    yield [{"op": "blocks", "keep": [], "count": "drop"}]


def enum_shapes(tier, seed):
    ncfg = 2 if tier == "quick" else 12
    pool = list(range(15)) + [0x82, 0x83, 0x84, 0x85, 0x86, 0x88]
    for i in range(ncfg):
        key = seeded_key(seed, 9000 + i)
        wrong = flip_bits(key, [((i * 29) % 16) * 8 + 1 + i % 7])
        h = seeded_key(seed, 9500 + i, 8)
        for prod in ("lite", "lites"):
            # the reads inside authenticate()
            for right in (True, False):
                for x, ln in enumerate(AUTH_RSP_LEN[(prod, right)], 1):
                    if ln not in AUTH_READ_BLOCKS:
                        continue
                    for plan in shape_plans(AUTH_READ_BLOCKS[ln]):
                        yield {"prod": prod, "key": key,
                               "pw": key if right else wrong,
                               "useed": (seed + 7907 * i) & 0xFFFFFFFF,
                               "fill": i, "rsp_len": ln, "plan": {str(x): plan}}
            # read_with_mac in an authenticated session
            p = pool + ([0x90, 0x92] if prod == "lites" else [])
            for n in (1, 2, 3):
                blocks = [p[h[n + j] % len(p)] for j in range(n)]
                base = {"prod": prod, "key": key, "fill": i,
                        "useed": (seed + 104723 * i) & 0xFFFFFFFF,
                        "blocks": blocks}
                for plan in shape_plans(n + 1):
                    yield dict(base, plan=plan, rsp_len=13 + 16 * (n + 1))
                subs = [blocks[:k] for k in range(1, n)] + \
                    [blocks[k:] for k in range(1, n)] + \
                    [[b] for b in blocks if n > 1] + \
                    [(blocks + blocks)[:n + 1]]
                for sub in subs:
                    if len(sub) != n and len(sub) <= 3:
                        yield dict(base, replay=sub)


def run_shape(case, ctx):
    if "blocks" in case:
        run_read(case, ctx)
    else:
        run_auth_tampered(case, ctx)


# --------------------------------------------------------- felica_protect
ascii16 = st.binary(min_size=16, max_size=16).map(
    lambda b: bytes(x & 0x7F for x in b))


@st.composite
def gen_felica_protect(draw):
    prod = draw(prod_)
    form = draw(st.sampled_from(
        {"lite": ["bytes"] * 8 + ["bytearray", "bytearray", "str"],
         "lites": ["str"] * 8 + ["bytes", "str8"]}[prod]))
    shape = draw(st.sampled_from(["key"] * 6 + ["extra", "extra", "empty",
                                                "short"]))
    base = draw(ascii16 if form == "str" else key16)
    if form == "str8":                       # a non-ASCII character
        base = bytes([base[0] | 0x80]) + base[1:]
    if shape == "key":
        pw = base
    elif shape == "extra":
        pw = base + draw(st.binary(min_size=1, max_size=8).map(
            lambda b: bytes(x & 0x7F for x in b)))
    elif shape == "empty":
        pw = b""
    else:
        pw = base[0:draw(st.integers(1, 15))]
    k = felica_key_of(pw) or bytes(16)
    okind, other = draw(felica_password(k))
    return {"prod": prod, "form": form, "pw": pw,
            "key0": draw(st.one_of(st.none(), st.none(), key16)),
            "protect_from": draw(st.sampled_from([0, 0, 0, 1, 2, 5, 13, 14,
                                                  15])),
            "read_protect": draw(st.sampled_from([False, False, False, True])),
            "ndef": draw(st.booleans()), "other": {"kind": okind, "pw": other},
            "useed": draw(useed_), "fill": draw(st.integers(0, 999))}


def run_felica_protect(case, ctx):
    prod, pw, form = case["prod"], case["pw"], case["form"]
    sim = simfelica.make(prod, key=case["key0"], ndef=case["ndef"],
                         user=user_blocks(case["fill"], case["ndef"]))
    clf, tag = activate(sim, FELICA_CLS[prod], prod)
    vsched.seed_urandom(case["useed"])
    arg = pw.decode("latin-1") if form in ("str", "str8") else typed(pw, form)
    k = felica_key_of(pw)
    ctx.set_class("%s/protect-%s" % (prod, form))
    out = call(ctx, tag.protect, arg, case["read_protect"],
               case["protect_from"])
    kind, val = out
    ctx.label("%s:protect(%s,len=%s):%s" % (
        prod, form, "0" if not pw else "<16" if k is None else ">=16",
        kind if kind != "ok" else val))
    if k is None:
        if kind == "ok" and val is True:
            raise Violation("short-password-accepted",
                            "protect(%r) -> True" % (arg,))
    elif kind == "tce":
        raise Violation("protect-error-without-interference",
                        "protect(%r, %r, %r) -> %r" % (
                            arg, case["read_protect"], case["protect_from"],
                            val))
    elif kind == "ok" and val is True:
        if not ref.same_des_key(sim.key, k):
            raise Violation("protect-stored-other-key",
                            "protect(%r) -> True, tag key is now %s"
                            % (arg, sim.key.hex()))
    elif kind == "ok" and val is not False:
        raise Violation("protect-result-not-bool", repr(val))
    # whatever protect did: authentication follows the key the tag holds now
    steps = [("same", pw)] if k is not None else []
    steps.append((case["other"]["kind"], case["other"]["pw"]))
    for name, p in steps:
        clf, tag = activate(sim, FELICA_CLS[prod], prod)
        kp = felica_key_of(p)
        expected = None if kp is None else ref.same_des_key(kp, sim.key)
        if kind == "ok" and val is True:
            ctx.label("after-protect:%s:expect-%s" % (
                "same" if name == "same" else "other", expected))
            if name != "same" and expected is False:
                ctx.nontrivial()
        o = call(ctx, tag.authenticate, bytes(p))
        check_auth_result(ctx, "after protect: authenticate", o, expected, p)


# --------------------------------------------------------- felica_history
# Several operations on ONE tag object.  The reader side keeps state between
# operations (session key, authentication status, the methods bound to the
# NDEF services) and so does the tag (challenge, card key, EXT_AUTH, the
# Lite-S write counter that every write advances): "returns true exactly
# when the tag holds the key" is a statement about every such history.
HIST_PW1 = b"hist-password-01"            # ASCII, 16 byte
HIST_PW2 = b"Second-Password2"


def text_message(fill, ln):
    """a well-formed NDEF message of ``ln`` (7..200) bytes: one short Text
    record, language "en" """
    n = max(0, min(ln, 200) - 7)
    text = bytes(0x61 + (fill + 5 * i) % 26 for i in range(n))
    return bytes([0xD1, 0x01, n + 3]) + b"T\x02en" + text


def hist_sim(case):
    prod = case["prod"]
    user = user_blocks(case.get("fill", 0), case.get("ndef", True))
    if case.get("ln") is not None and case.get("ndef", True):
        # NDEF message of that many bytes: a Text record ("text") or the
        # seeded block contents as they are
        ln = case["ln"]
        if case.get("text"):
            msg = text_message(case.get("fill", 0), ln)
            ln = len(msg)
            msg += bytes(-ln % 16)
            for i in range(len(msg) // 16):
                user[1 + i] = msg[16 * i:16 * i + 16]
        user[0] = attr_block(13, ln)
    kw = dict(key=case["key0"], ndef=case.get("ndef", True), user=user)
    if prod == "lites":
        cls = simfelica.SimFelicaLiteSCountRC if case.get("count_rc") \
            else simfelica.SimFelicaLiteS
        return cls(wcnt=case.get("wcnt", 0), **kw)
    return simfelica.SimFelicaLite(**kw)


def _ndef_read(tag):
    n = tag.ndef
    if n is not None:
        n.has_changed
        n = tag.ndef
    return None if n is None else bytes(n.octets)


def _ndef_look(tag):
    """what an application sees that looks at tag.ndef without asking for a
    re-read (has_changed): octets; length and records must go with them"""
    n = tag.ndef
    if n is None:
        return None
    octets = bytes(n.octets)
    if n.length != len(octets):
        raise Violation("ndef-length-disagrees", "length %r, %d octets"
                        % (n.length, len(octets)))
    def decoded(fn):
        try:
            return ["records", fn()]
        except Exception as e:      # ndeflib's verdict on undecodable octets
            return ["raises", type(e).__name__]
    want = decoded(lambda: list(ndeflib.message_decoder(octets,
                                                        errors="relax")))
    got = decoded(lambda: n.records)
    if got != want:
        raise Violation("ndef-records-disagree", "records %r, octets %s "
                        "decode to %r" % (got, octets.hex(), want))
    return octets


def _ndef_write(tag, ln, sink=None):
    n = tag.ndef
    if n is None:
        return "no-ndef"
    if not n.is_writeable:
        return "read-only"
    data = bytes((7 * i + ln) & 255 for i in range(min(ln, n.capacity)))
    if sink is not None:
        sink.append(data)
    n.octets = data
    return "written"


def run_felica_history(case, ctx):
    prod = case["prod"]
    sim = hist_sim(case)
    clf, tag = activate(sim, FELICA_CLS[prod], prod)
    vsched.seed_urandom(case["useed"])
    steps = case["steps"]
    ctx.set_class("%s/history" % prod)
    # True: the last authenticate returned True; False: it returned False
    # (the tag took a new challenge, the reader kept the old session key);
    # None: not known (protect() authenticates internally on Lite-S, ...)
    session_ok = None
    ever_auth = False
    prev = "start"
    # NDEF messages that are not the product of a modification in transit:
    # what the simulator's memory held at some point of the history, and
    # what the application itself assigned to tag.ndef.octets
    accepted = set()
    written = []
    tampered_before = False     # some earlier NDEF read was modified
    for idx, step in enumerate(steps):
        op = step["op"]
        accepted.add(genuine_ndef(sim))
        accepted.update(written)
        if op == "auth":
            pw = step["pw"]
            k = felica_key_of(pw)
            expected = None if k is None else ref.same_des_key(k, sim.key)
            ctx.label("hist:%s:%s>auth:expect-%s" % (prod, prev, expected))
            ctx.set_class("%s/history/%s>auth" % (prod, prev))
            if idx >= 1 and expected is not None:
                ctx.nontrivial()
            out = call(ctx, tag.authenticate, typed(pw, step.get("type")))
            check_auth_result(ctx, "step %d of %s: %s.authenticate" % (
                idx, "+".join(s["op"] for s in steps), prod), out, expected,
                pw)
            if out[0] == "ok" and \
                    bool(tag.is_authenticated) != (out[1] is True):
                raise Violation("is_authenticated-disagrees",
                                "step %d returned %r, is_authenticated %r"
                                % (idx, out[1], tag.is_authenticated))
            if out[0] == "ok":
                session_ok = out[1] is True
            elif out[0] != "value":     # ValueError: nothing was exchanged
                session_ok = None
            ever_auth = ever_auth or session_ok is True
        elif op == "protect":
            pw, form = step["pw"], step["form"]
            arg = pw.decode("latin-1") if form == "str" else typed(pw, form)
            k = felica_key_of(pw)
            issuance = bytes(sim.mc[0:3]) == b"\xff\xff\xff" and \
                not any(sim.mc[5:12])
            ctx.set_class("%s/history/%s>protect" % (prod, prev))
            out = call(ctx, tag.protect, arg, step["read_protect"],
                       step["protect_from"])
            kind, val = out
            ctx.label("hist:%s:protect(%s):%s" % (
                prod, "issuance" if issuance else "protected",
                kind if kind != "ok" else val))
            if k is None:
                if kind == "ok" and val is True:
                    raise Violation("short-password-accepted",
                                    "protect(%r) -> True" % (arg,))
            elif kind == "tce" and issuance:
                raise Violation("protect-error-without-interference",
                                "step %d: protect(%r, %r, %r) -> %r" % (
                                    idx, arg, step["read_protect"],
                                    step["protect_from"], val))
            elif kind == "ok" and val is True:
                if not ref.same_des_key(sim.key, k):
                    raise Violation("protect-stored-other-key",
                                    "protect(%r) -> True, tag key is now %s"
                                    % (arg, sim.key.hex()))
            elif kind == "ok" and val is not False:
                raise Violation("protect-result-not-bool", repr(val))
            session_ok = None
        elif op == "wplain":
            out = call(ctx, tag.write_without_mac, bytearray(step["data"]),
                       step["block"])
            ctx.label("hist:%s:wplain:%s" % (prod, out[0]))
        elif op == "wmac":
            if prod != "lites" or not ever_auth:
                ctx.label("hist:wmac-skipped")
                continue
            out = call(ctx, tag.write_with_mac, bytearray(step["data"]),
                       step["block"])
            ctx.label("hist:%s:wmac:%s" % (prod, out[0]))
        elif op == "ndef-write":
            out = call(ctx, _ndef_write, tag, step["len"], written)
            ctx.label("hist:%s:ndef-write:%s" % (
                prod, out[1] if out[0] == "ok" else out[0]))
        elif op == "ndef-read":
            # plan: None = nothing modified; int (older cases) = that bit
            # flipped in the MAC-protected part of every MAC'd read of the
            # step; {"bit", "where", "plain"} = see ndef_regions()
            plan = step.get("plan")
            how = step.get("how", "refresh")
            if plan is not None and not isinstance(plan, dict):
                plan = {"bit": plan, "where": "all", "plain": False}
            want = genuine_ndef(sim)
            flips = {"mac": 0, "plain": 0}

            def flip(rel, cmd, rsp, plan=plan, flips=flips):
                # one bit inside the block data (or MAC) of a read response
                # of the NDEF read path; other exchanges pass unchanged
                regs = ndef_regions(cmd, rsp, plan["where"], plan["plain"])
                if not regs:
                    return rsp
                flips["mac" if protected_regions(cmd, rsp) else "plain"] += 1
                a, b = regs[0]
                out_ = bytearray(rsp)
                bit = plan["bit"]
                out_[a + (bit // 8) % (b - a)] ^= 1 << (bit % 8)
                return bytes(out_)
            t = Tamper(clf.device, dict((str(k), flip) for k in range(1, 33))
                       if plan is not None else {})
            clf.device.tamper = t
            try:
                out = call(ctx, _ndef_read if how == "refresh" else _ndef_look,
                           tag)
            finally:
                clf.device.tamper = None
            claim = session_ok is True
            ctx.label("hist:%s:ndef-read:%s%s" % (
                prod, out[0], ":tampered" if t.changed else ""),
                "hist:ndef-%s:%s:%s:%s" % (
                    how, "authenticated" if claim else "no-session",
                    "mac-flip" if flips["mac"] else
                    "plain-flip" if flips["plain"] else
                    "earlier-flip" if tampered_before else "genuine",
                    out[0] if out[0] != "ok" else
                    "none" if out[1] is None else
                    "genuine" if out[1] == want else
                    "held-earlier" if out[1] in accepted else "modified"))
            if t.touched and ever_auth:
                ctx.set_class("%s/history/%s>ndef-read" % (prod, prev))
                if out[0] == "other":
                    raise unexpected(out[1], "tampered-ndef-read-raises")
                if out[0] == "ok" and out[1] is not None \
                        and want is not None and out[1] != want:
                    raise Violation("altered-data-returned",
                                    "step %d: tag.ndef.octets %s, the tag "
                                    "holds %s" % (idx, out[1].hex(),
                                                  want.hex()))
            if claim:
                # the last authenticate() returned True: whatever the tag
                # object hands out as NDEF data now is data the tag holds
                # (held, when the object answers from what it read or wrote
                # earlier), or nothing - never bytes that were changed in
                # transit, whenever that happened
                if t.changed or tampered_before:
                    ctx.nontrivial()
                if out[0] == "ok" and out[1] is not None and \
                        out[1] not in accepted:
                    ctx.set_class("%s/history/%s>ndef-read" % (prod, prev))
                    raise Violation(
                        "unverified-ndef-after-authentication",
                        "step %d (%s): authenticate() returned True, then "
                        "tag.ndef.octets = %s; the tag holds %s and never "
                        "held the former (modified in transit: %s)" % (
                            idx, "+".join(
                                s_["op"] + ("!" if s_.get("plan") is not None
                                            else "") for s_ in steps),
                            out[1].hex(), want and want.hex(),
                            "this read" if t.changed else
                            "an earlier read" if tampered_before else
                            "nothing"))
            tampered_before = tampered_before or t.changed
        elif op == "rmac":
            if not ever_auth:
                ctx.label("hist:rmac-skipped")
                continue
            blocks, plan = step["blocks"], step.get("plan")
            if step.get("replay"):
                plan = replayed_read(ctx, clf, tag, step["replay"])
            valid = selection_valid(sim, blocks)
            genuine = sim.genuine(*blocks) if valid else None
            t = Tamper(clf.device, {"1": plan} if plan else {})
            clf.device.tamper = t
            try:
                out = call(ctx, tag.read_with_mac, *blocks)
            finally:
                clf.device.tamper = None
            kind, val = out
            ctx.set_class("%s/history/%s>rmac" % (prod, prev))
            ctx.label("hist:%s:rmac:%s:%s" % (
                prod, {True: "session", False: "no-session",
                       None: "session-unknown"}[session_ok],
                kind if kind != "ok" else "none" if val is None else "data"))
            if kind != "ok" or val is None:
                if session_ok and not t.changed and valid and kind != "other":
                    raise Violation("genuine-read-rejected",
                                    "step %d: read_with_mac%r -> %r" % (
                                        idx, tuple(blocks), val))
            else:
                got = bytes(val)
                if not valid or got != genuine:
                    raise Violation("altered-data-returned",
                                    "step %d: read_with_mac%r -> %s, the tag "
                                    "holds %s" % (idx, tuple(blocks),
                                                  got.hex(), genuine and
                                                  genuine.hex()))
                if t.touched:
                    raise Violation("modified-mac-accepted",
                                    "step %d: read_with_mac%r returned data "
                                    "although data/MAC bytes were modified "
                                    "(ops %r)" % (idx, tuple(blocks), plan))
                if session_ok is False:
                    # the tag took a new challenge (or another key) since the
                    # session key was computed: its MAC cannot verify
                    raise Violation("read-accepted-without-session",
                                    "step %d: read_with_mac%r returned data "
                                    "after the last authenticate failed"
                                    % (idx, tuple(blocks)))
        else:
            raise HarnessError("unknown step %r" % (step,))
        prev = op


def _hstep_auth(pw, kind="same"):
    return {"op": "auth", "kind": kind, "pw": pw, "type": "bytes"}


def enum_felica_history(tier, seed):
    """every sequence of 0..2 operations out of the alphabet, followed by
    authenticate(right key), read_with_mac, authenticate(other key); Lite,
    Lite-S and Lite-S counting RC writes; then the histories of
    enum_ndef_order()"""
    alphabet = ["auth", "auth-wrong", "protect", "wplain", "wmac",
                "ndef-write", "ndef-read", "rmac"]
    seqs = [[]] + [[a] for a in alphabet] + \
        [[a, b] for a in alphabet for b in alphabet]
    if tier != "quick":
        seqs += [[a, b, c] for a in alphabet for b in alphabet
                 for c in alphabet]
    configs = [("lite", False), ("lites", False), ("lites", True)]
    for ci, (prod, count_rc) in enumerate(configs):
        for si, seq in enumerate(seqs):
            h = seeded_key(seed, 8000 + ci * 100000 + si, 24)
            # a tag in issuance state (factory key) or holding a seeded key
            key0 = None if si % 3 == 0 else h[0:16]
            cur = key0 or bytes(16)
            steps = []
            pws = [HIST_PW1, HIST_PW2]
            for name in seq + ["auth", "rmac", "auth-wrong", "auth"]:
                if name == "auth":
                    steps.append(_hstep_auth(cur))
                elif name == "auth-wrong":
                    bit = 1 + h[16] % 7 + 8 * (h[17] % 16)   # never parity
                    steps.append(_hstep_auth(flip_bits(cur, [bit]),
                                             "flip-keybit"))
                elif name == "protect":
                    pw = pws.pop(0) if pws else HIST_PW1
                    steps.append({"op": "protect", "pw": pw,
                                  "form": "str" if h[18] % 2 else "bytes",
                                  "read_protect": h[19] % 4 == 0,
                                  "protect_from": [0, 1, 14][h[20] % 3]})
                    cur = pw
                elif name == "wplain":
                    steps.append({"op": "wplain", "block": 1 + h[21] % 13,
                                  "data": h[0:16]})
                elif name == "wmac":
                    steps.append({"op": "wmac", "block": 1 + h[22] % 13,
                                  "data": h[8:24]})
                elif name == "ndef-write":
                    steps.append({"op": "ndef-write", "len": 1 + h[23] % 40})
                elif name == "ndef-read":
                    st_ = {"op": "ndef-read"}
                    if si % 2:      # every other history: one bit flipped
                        st_["plan"] = h[22] + 256 * h[23]
                    steps.append(st_)
                else:
                    steps.append({"op": "rmac", "blocks": [1 + h[21] % 13, 0]})
            yield {"prod": prod, "count_rc": count_rc, "key0": key0,
                   "ndef": True, "fill": si, "wcnt": [0, 0xFE, 0xFFFE][si % 3],
                   "useed": (seed * 7919 + si) & 0xFFFFFFFF, "steps": steps}
    for case in enum_ndef_order(tier, seed):
        yield case


NDEF_ORDER_ALPHABET = ["look+", "look", "reread+", "reread", "auth",
                       "auth-wrong"]


def enum_ndef_order(tier, seed):
    """NDEF accesses and modifications in transit at every position relative
    to authenticate(): every sequence of 1..3 (thorough: 1..4) operations out
    of {look at tag.ndef (octets, length, records), the same while every
    read response of the NDEF path has one bit changed, tag.ndef.has_changed
    + look, the same with the bit changed, authenticate(card key),
    authenticate(one non-parity key bit off)}, followed by one undisturbed
    look at tag.ndef; FeliCa Lite, Lite-S, Lite-S counting RC writes; factory
    key and a seeded key"""
    seqs = [[]]
    for _ in range(3 if tier == "quick" else 4):
        seqs = seqs + [q + [a] for q in seqs if len(q) == len(seqs[-1])
                       for a in NDEF_ORDER_ALPHABET]
    seqs = seqs[1:]
    configs = [("lite", False), ("lites", False), ("lites", True)]
    for ci, (prod, count_rc) in enumerate(configs):
        for si, seq in enumerate(seqs):
            for ki in range(2):
                h = seeded_key(seed, 700000 + ci * 100000 + si * 2 + ki, 24)
                key0 = None if ki == 0 else h[0:16]
                cur = key0 or bytes(16)
                # a message of 1..39 bytes (one read), sometimes longer
                # (several reads), random octets or a Text record
                ln = [1 + h[16] % 39, 1 + h[16] % 39, 40 + h[16] % 160][si % 3]
                steps = []
                for j, name in enumerate(seq + ["look"]):
                    if name == "auth":
                        steps.append(_hstep_auth(cur))
                    elif name == "auth-wrong":
                        bit = 1 + h[17] % 7 + 8 * (h[18] % 16)
                        steps.append(_hstep_auth(flip_bits(cur, [bit]),
                                                 "flip-keybit"))
                    else:
                        st_ = {"op": "ndef-read", "how":
                               "look" if name.startswith("look") else "refresh"}
                        if name.endswith("+"):
                            st_["plan"] = {
                                "bit": h[19 + j % 4] + 256 * h[23],
                                "where": "all" if (si + j + ki) % 4 == 3
                                else "data", "plain": True}
                        steps.append(st_)
                yield {"prod": prod, "count_rc": count_rc, "key0": key0,
                       "ndef": True, "fill": h[20] + 256 * (h[21] % 3),
                       "ln": ln, "text": (si + ki) % 2 == 1 and ln >= 7,
                       "wcnt": [0, 0xFE, 0xFFFE][si % 3],
                       "useed": (seed * 7907 + si) & 0xFFFFFFFF,
                       "steps": steps}


@st.composite
def gen_felica_history(draw):
    prod = draw(st.sampled_from(["lites", "lites", "lites", "lite"]))
    key0 = draw(st.one_of(st.none(), key16, key16))
    keys = [key0 or bytes(16)]
    steps = []
    # one history in three concentrates on NDEF accesses around
    # authentications (any order, modifications in transit before and after)
    focus = draw(st.integers(0, 2)) == 0
    ops = ["auth"] * 5 + ["ndef-read"] * 7 + \
        ["protect", "wplain", "wmac", "ndef-write", "rmac"] if focus else \
        ["auth"] * 6 + ["protect"] * 2 + ["wplain"] * 2 + \
        ["wmac", "ndef-write", "ndef-read", "ndef-read", "rmac", "rmac"]
    ln = draw(st.one_of(st.integers(1, 48), st.integers(1, 200))) if focus \
        else draw(st.one_of(st.none(), st.integers(0, 48),
                            st.integers(0, 200)))
    for _ in range(draw(st.integers(3 if focus else 2, 6))):
        op = draw(st.sampled_from(ops))
        if op == "auth":
            base = draw(st.sampled_from(keys[-2:] + keys[-1:] * 2))
            if draw(st.integers(0, 9)) < 6:
                kind, pw = "same", base
            else:
                kind, pw = draw(felica_password(base))
            steps.append({"op": "auth", "kind": kind, "pw": pw,
                          "type": draw(st.sampled_from(
                              ["bytes", "bytes", "bytearray"]))})
        elif op == "protect":
            form = draw(st.sampled_from(["str", "str", "bytes", "bytearray"]))
            pw = draw(ascii16 if form == "str" else key16)
            shape = draw(st.sampled_from(["key"] * 6 + ["extra", "empty",
                                                        "short"]))
            if shape == "extra":
                pw = pw + b"tail"
            elif shape == "empty":
                pw = b""
            elif shape == "short":
                pw = pw[0:draw(st.integers(1, 15))]
            steps.append({"op": "protect", "pw": pw, "form": form,
                          "read_protect": draw(st.sampled_from(
                              [False, False, False, True])),
                          "protect_from": draw(st.sampled_from(
                              [0, 0, 1, 5, 13, 14, 15]))})
            if felica_key_of(pw) is not None:
                keys.append(felica_key_of(pw))
        elif op in ("wplain", "wmac"):
            steps.append({"op": op, "block": draw(st.integers(0, 14)),
                          "data": draw(key16)})
        elif op == "ndef-write":
            steps.append({"op": op, "len": draw(st.integers(0, 60))})
        elif op == "ndef-read":
            step = {"op": op, "how": draw(st.sampled_from(["refresh",
                                                           "look"]))}
            if focus and draw(st.integers(0, 3)):
                # mostly a bit of the message itself in its first read
                step["plan"] = {"bit": draw(st.one_of(
                    st.integers(0, 8 * min(ln, 48) - 1),
                    st.integers(0, 4095))), "where": draw(st.sampled_from(
                        ["data", "data", "data", "all"])), "plain": True}
            elif not focus and draw(st.integers(0, 1)) == 0:
                step["plan"] = {"bit": draw(st.integers(0, 4095)),
                                "where": draw(st.sampled_from(
                                    ["data", "data", "all", "attr"])),
                                "plain": draw(st.sampled_from(
                                    [True, True, True, False]))}
            steps.append(step)
        else:
            n = draw(st.sampled_from([1, 2, 3]))
            pool = list(range(15)) + [0x82, 0x86, 0x88] + \
                ([0x90, 0x92] if prod == "lites" else [])
            step = {"op": "rmac", "blocks": draw(st.lists(
                st.sampled_from(pool), min_size=n, max_size=n))}
            how = draw(st.sampled_from(["genuine"] * 5 + ["bytes", "bytes",
                                                          "shape", "replay"]))
            if how == "bytes":
                step["plan"] = draw(frame_ops(hot=(13, 13 + 16 * n + 8)))
            elif how == "shape":
                step["plan"] = draw(shape_ops(n + 1))
            elif how == "replay":
                step["replay"] = draw(replay_selection(step["blocks"], pool))
            steps.append(step)
    return {"prod": prod, "count_rc": draw(st.booleans()), "key0": key0,
            "ndef": focus or draw(st.sampled_from([True, True, True, False])),
            "fill": draw(st.integers(0, 999)), "ln": ln,
            "text": ln is not None and ln >= 7 and draw(st.booleans()),
            "wcnt": draw(st.one_of(
                st.sampled_from([0, 0, 1, 0xFD, 0xFE, 0xFF, 0xFFFD, 0xFFFE,
                                 0xFFFF]), st.integers(0, 0xFFF000))),
            "useed": draw(useed_), "steps": steps}


# ------------------------------------------------------------------- NTAG
NTAG_CLS = {"NTAG210": nfc.tag.tt2_nxp.NTAG210,
            "NTAG212": nfc.tag.tt2_nxp.NTAG212,
            "NTAG213": nfc.tag.tt2_nxp.NTAG213,
            "NTAG215": nfc.tag.tt2_nxp.NTAG215,
            "NTAG216": nfc.tag.tt2_nxp.NTAG216}
NTAG_NAMES = sorted(NTAG_CLS)
ntag_prod_ = st.sampled_from(NTAG_NAMES)
FACTORY6 = b"\xff\xff\xff\xff\x00\x00"


def ntag_key_of(pw):
    """PWD|PACK a password stands for (authenticate docstring: first 4 byte
    are sent as password, the following 2 byte are compared with the answer;
    empty = factory values); None = too short"""
    pw = bytes(pw)
    if len(pw) == 0:
        return FACTORY6
    if len(pw) < 6:
        return None
    return pw[0:6]


def no_regions(cmd, rsp):
    return []


@st.composite
def ntag_password(draw, secret):
    kind = draw(st.sampled_from(
        ["same", "same", "extra", "flip", "flip", "pack2", "pack1", "pwd",
         "random6", "random", "short", "empty"]))
    if kind == "same":
        return kind, secret
    if kind == "extra":
        return kind, secret + draw(st.binary(min_size=1, max_size=12))
    if kind == "flip":
        p = draw(st.integers(0, 47))
        return ("flip-pwd" if p < 32 else "flip-pack"), flip_bits(secret, [p])
    if kind == "pack2":                      # only the second PACK byte off
        return kind, secret[0:5] + bytes([secret[5] ^ draw(
            st.integers(1, 255))])
    if kind == "pack1":
        return kind, secret[0:4] + bytes([secret[4] ^ draw(
            st.integers(1, 255))]) + secret[5:6]
    if kind == "pwd":                        # right PACK, other PWD
        return kind, bytes([secret[0] ^ draw(st.integers(1, 255))]) + secret[1:]
    if kind == "random6":
        return kind, draw(st.binary(min_size=6, max_size=6))
    if kind == "random":
        return kind, draw(st.binary(min_size=6, max_size=20))
    if kind == "short":
        return kind, draw(st.binary(min_size=1, max_size=5))
    return kind, b""


secret6 = st.one_of(st.binary(min_size=6, max_size=6),
                    st.binary(min_size=6, max_size=6), st.just(FACTORY6),
                    st.binary(min_size=4, max_size=4).map(
                        lambda p: p + b"\x00\x00"))


@st.composite
def gen_ntag_auth(draw):
    secret = draw(secret6)
    seq = []
    for _ in range(draw(st.sampled_from([1, 1, 1, 2]))):
        kind, pw = draw(ntag_password(secret))
        seq.append({"kind": kind, "pw": pw, "type": draw(st.sampled_from(
            ["bytes", "bytes", "bytearray"]))})
    return {"prod": draw(ntag_prod_), "secret": secret, "seq": seq,
            "nak": draw(st.sampled_from(["byte", "byte", "mute"])),
            "auth0": draw(st.sampled_from([0xFF, 0xFF, 4, 0, 0x10])),
            "prot": draw(st.booleans())}


def ntag_sim(case, **kw):
    s = case["secret"]
    return simntag.make(case["prod"], pwd=s[0:4], pack=s[4:6],
                        nak=case.get("nak", "byte"),
                        auth0=case.get("auth0", 0xFF),
                        prot=case.get("prot", False), **kw)


def run_ntag_auth(case, ctx):
    sim = ntag_sim(case)
    clf, tag = activate(sim, NTAG_CLS[case["prod"]], case["prod"])
    secret = case["secret"]
    ctx.set_class("ntag/" + "+".join(s["kind"] for s in case["seq"]))
    halted = False
    for step in case["seq"]:
        pw = step["pw"]
        k = ntag_key_of(pw)
        expected = None if k is None else (k == secret)
        ctx.label("ntag:%s" % step["kind"], "expect:%s" % expected)
        if expected is False:
            ctx.nontrivial()
        out = call(ctx, tag.authenticate, typed(pw, step["type"]))
        if halted:
            # the tag left the ACTIVE state after the failed attempt: what a
            # further attempt on the same activation yields is not judged,
            # except that a wrong password never authenticates
            ctx.label("ntag:after-nak")
            if out[0] == "ok" and out[1] is True and not expected:
                raise Violation("true-for-wrong-key", "after NAK: %r" % pw)
            continue
        check_auth_result(ctx, "ntag.authenticate", out, expected, pw)
        if out[0] == "ok" and bool(tag.is_authenticated) != (out[1] is True):
            raise Violation("is_authenticated-disagrees", repr(out))
        if k is not None and k[0:4] != secret[0:4]:
            halted = True


def enum_ntag_flips(tier, seed):
    ntags = 20 if tier == "quick" else 600
    for i in range(ntags):
        secret = FACTORY6 if i % 10 == 9 else seeded_key(seed, 5000 + i, 6)
        for pos in range(48):
            yield {"prod": NTAG_NAMES[i % 5], "secret": secret,
                   "nak": "mute" if i % 3 == 2 else "byte",
                   "seq": [{"kind": "flip-pwd" if pos < 32 else "flip-pack",
                            "pw": flip_bits(secret, [pos]), "type": "bytes"}]}


def run_ntag_tamper(case, ctx):
    sim = ntag_sim(case)
    clf, tag = activate(sim, NTAG_CLS[case["prod"]], case["prod"])
    pw = case["pw"]
    k = ntag_key_of(pw)
    t = Tamper(clf.device, {"1": case["plan"]}, regions=no_regions)
    clf.device.tamper = t
    try:
        out = call(ctx, tag.authenticate, bytes(pw))
    finally:
        clf.device.tamper = None
    if case.get("rsp_len") is not None and \
            (1 not in t.seen or len(t.seen[1][1]) != case["rsp_len"]):
        raise HarnessError("PWD_AUTH answer is not the %d byte frame the "
                           "enumeration assumes: %r" % (case["rsp_len"],
                                                        t.seen))
    received = t.out.get(1)           # None: the tag stayed mute
    expected = received is not None and bytes(received) == k[4:6]
    genuine = k == case["secret"]
    ctx.set_class("ntag/tamper/%s" % ("right" if genuine else "wrong"))
    ctx.label("ntag-tamper:%s-password:%s" % (
        "right" if genuine else "wrong",
        "changed" if t.changed else "same"), "expect:%s" % expected)
    if t.changed:
        ctx.nontrivial()
    if out[0] == "other":
        return
    if out[0] != "ok" or out[1] is not expected:
        raise Violation(
            "tampered-pack-accepted" if out[1] is True else
            "pack-comparison-wrong",
            "PWD|PACK %s, password %s, answer received %r -> %r, the "
            "documented comparison says %r" % (
                case["secret"].hex(), bytes(pw).hex(),
                received and bytes(received).hex(), out[1], expected))


def enum_ntag_tamper_bits(tier, seed):
    ncfg = 12 if tier == "quick" else 400
    for i in range(ncfg):
        secret = FACTORY6 if i % 6 == 5 else seeded_key(seed, 6000 + i, 6)
        h = seeded_key(seed, 7000 + i, 2)
        variants = [
            (secret, 2),                                       # all right
            (flip_bits(secret, [32 + h[0] % 16]), 2),          # PACK off
            (secret[0:5] + bytes([secret[5] ^ (1 + h[1] % 255)]), 2),
            (flip_bits(secret, [h[0] % 32]), 1),               # PWD off: NAK
        ]
        for pw, ln in variants:
            for bit in range(8 * ln):
                yield {"prod": NTAG_NAMES[i % 5], "secret": secret, "pw": pw,
                       "nak": "byte", "rsp_len": ln,
                       "plan": [{"op": "bit", "bit": bit}]}


@st.composite
def gen_ntag_tamper(draw):
    secret = draw(secret6)
    kind, pw = draw(ntag_password(secret).filter(
        lambda kp: len(kp[1]) >= 6 or len(kp[1]) == 0))
    ops = draw(st.one_of(
        frame_ops(hot=(0, 1)),
        st.binary(min_size=0, max_size=4).map(
            lambda b: [{"op": "replace", "data": b}]),
        st.just([{"op": "replace", "data": (ntag_key_of(pw) or FACTORY6)[4:6]}]),
        st.just([{"op": "replace", "data": (ntag_key_of(pw) or FACTORY6)[4:5]}]),
        st.just([{"op": "append", "data": b"\x00"}])))
    return {"prod": draw(ntag_prod_), "secret": secret, "pw": pw,
            "nak": draw(st.sampled_from(["byte", "byte", "mute"])),
            "plan": ops}


@st.composite
def gen_ntag_protect(draw):
    shape = draw(st.sampled_from(["six"] * 5 + ["extra", "extra", "empty",
                                                "short"]))
    if shape == "six":
        pw = draw(st.binary(min_size=6, max_size=6))
    elif shape == "extra":
        pw = draw(st.binary(min_size=7, max_size=20))
    elif shape == "empty":
        pw = b""
    else:
        pw = draw(st.binary(min_size=1, max_size=5))
    k = ntag_key_of(pw) or FACTORY6
    okind, other = draw(ntag_password(k))
    locked = draw(st.sampled_from([False, False, False, True]))
    return {"prod": draw(ntag_prod_), "pw": pw,
            "type": draw(st.sampled_from(["bytes", "bytes", "bytearray"])),
            "secret": draw(secret6) if locked else FACTORY6,
            "auth0": draw(st.sampled_from([0, 3, 4, 16])) if locked else 0xFF,
            "read_protect": draw(st.booleans()),
            "protect_from": draw(st.sampled_from([0, 0, 3, 4, 5, 16, 41, 255,
                                                  256, 300])),
            "ndef": draw(st.booleans()),
            "other": {"kind": okind, "pw": other}}


def run_ntag_protect(case, ctx):
    sim = ntag_sim(case, ndef=b"\xd0\x00\x00" if case["ndef"] else None)
    prod, pw = case["prod"], case["pw"]
    locked = case["auth0"] != 0xFF
    clf, tag = activate(sim, NTAG_CLS[prod], prod)
    ctx.set_class("ntag/protect" + ("/locked" if locked else ""))
    if locked:
        o = call(ctx, tag.authenticate, case["secret"])
        check_auth_result(ctx, "ntag.authenticate(old)", o, True,
                          case["secret"])
    k = ntag_key_of(pw)
    out = call(ctx, tag.protect, typed(pw, case["type"]),
               case["read_protect"], case["protect_from"])
    kind, val = out
    ctx.label("ntag:protect(len=%s):%s" % (
        "0" if not pw else "<6" if k is None else ">=6",
        kind if kind != "ok" else val))
    if k is None:
        if kind == "ok" and val is True:
            raise Violation("short-password-accepted", "protect(%r)" % pw)
    elif kind == "tce":
        raise Violation("protect-error-without-interference",
                        "protect(%r, %r, %r) -> %r" % (
                            pw, case["read_protect"], case["protect_from"],
                            val))
    elif kind == "ok" and val is not True:
        raise Violation("protect-then-authenticate-failed",
                        "protect(%r) -> %r; PWD|PACK now %s%s" % (
                            pw, val, sim.mem[sim.cfgpage * 4 + 8:
                                             sim.cfgpage * 4 + 14].hex(), ""))
    steps = [("same", pw)] if k is not None else []
    steps.append((case["other"]["kind"], case["other"]["pw"]))
    for name, p in steps:
        clf, tag = activate(sim, NTAG_CLS[prod], prod)
        holds = sim.pwd + sim.pack
        if kind == "ok" and val is True and holds != k:
            raise Violation("protect-stored-other-key",
                            "protect(%r) -> True, tag holds %s" % (pw,
                                                                   holds.hex()))
        kp = ntag_key_of(p)
        expected = None if kp is None else kp == holds
        if kind == "ok" and val is True:
            ctx.label("after-protect:%s:expect-%s" % (
                "same" if name == "same" else "other", expected))
            if name != "same" and expected is False:
                ctx.nontrivial()
        o = call(ctx, tag.authenticate, bytes(p))
        check_auth_result(ctx, "after protect: ntag.authenticate", o,
                          expected, p)



# ------------------------------------------------------------- two_readers
# Two readers in one process, each with its own tag and its own tag object,
# authenticate at the same time.  Nothing couples them, so whatever one does
# must leave the other's results alone.  The harness owns the interleaving at
# the granularity of source lines (vlib.linesched): the two bodies run under
# a counter of source lines in nfc/ and function calls in pyDes.py, the baton
# changes hands at generated counts, the simulators are atomic.
import os as _os                                            # noqa: E402
import pyDes as _pyDes                                      # noqa: E402

LINE_SCOPE = [_os.path.join(_os.path.dirname(nfc.__file__), "")]
CALL_SCOPE = [_pyDes.__file__.replace(".pyc", ".py")]


def _reader_body(sub, ctx):
    """-> (body, sim).  body() performs the authentications of `sub` on a
    fresh tag + tag object and returns the list of outcomes"""
    if sub["tech"] == "felica":
        sim = felica_sim(sub)
        clf, tag = activate(sim, FELICA_CLS[sub["prod"]], sub["prod"])
    else:
        sim = ntag_sim(sub)
        clf, tag = activate(sim, NTAG_CLS[sub["prod"]], sub["prod"])
    inner = clf.device.send_cmd_recv_rsp

    def atomic_exchange(target, data, timeout):
        with linesched.atomic():
            return inner(target, data, timeout)
    clf.device.send_cmd_recv_rsp = atomic_exchange

    def body():
        outs = []
        for step in sub["seq"]:
            out = call(ctx, tag.authenticate, typed(step["pw"], step["type"]))
            outs.append([out[0], out[1] if out[0] == "ok"
                         else type(out[1]).__name__])
            if sub["tech"] == "felica" and out[0] == "ok" and out[1] is True:
                r = call(ctx, tag.read_with_mac, 1, 2)
                good = r[0] == "ok" and r[1] is not None and \
                    bytes(r[1]) == sim.genuine(1, 2)
                outs.append(["read", r[0], good])
        return outs
    return body, sim


def _expected_auth(sub, sim, step):
    if sub["tech"] == "felica":
        k = felica_key_of(step["pw"])
        return None if k is None else ref.same_des_key(k, sim.key)
    k = ntag_key_of(step["pw"])
    return None if k is None else (k == sub["secret"])


def run_two_readers(case, ctx):
    subs = [case["a"], case["b"]]
    vsched.seed_urandom(case["useed"])
    ctx.set_class("+".join(s["tech"] for s in subs))
    # 1. each reader alone (also measures how many lines its work takes)
    solo, lines = [], []
    for sub in subs:
        body, sim = _reader_body(sub, ctx)
        n, res, _ = linesched.run([body], [[]], LINE_SCOPE, CALL_SCOPE)
        kind, val = res[0]
        if kind == "exc":
            raise val
        solo.append(val)
        lines.append(n[0])
        # the solo outcome is the oracle's (first authentication only, later
        # ones depend on the tag state the way the sequential legs model it)
        step = sub["seq"][0]
        exp = _expected_auth(sub, sim, step)
        first = val[0]
        if exp is not None and first[0] == "ok" and first[1] is not exp:
            raise Violation("true-for-wrong-key" if first[1] is True else
                            "false-for-right-key", "solo %r -> %r, expected "
                            "%r" % (bytes(step["pw"]).hex(), first[1], exp))
    # 2. both at once under the generated line schedule
    bodies = [_reader_body(sub, ctx)[0] for sub in subs]
    points = [sorted(set(1 + f * max(lines[i] - 1, 1) // 10000
                         for f in case["switch"][i])) for i in (0, 1)]
    n, res, switches = linesched.run(bodies, points, LINE_SCOPE, CALL_SCOPE)
    ctx.label("switches:%d" % min(switches, 6))
    if switches >= 1:
        ctx.nontrivial()
    if case["a"]["tech"] == "felica" and case["b"]["tech"] == "felica" and \
            ref.same_des_key(case["a"]["key"], case["b"]["key"]):
        ctx.label("same-card-key")
    for i in (0, 1):
        kind, val = res[i]
        if kind == "exc":
            if isinstance(val, (Violation, HarnessError,
                                tagdev.BudgetExceeded)):
                raise val
            raise unexpected(val, oracle="reader-raised")
        if val != solo[i]:
            raise Violation("concurrent-reader-changes-result",
                            "reader %d alone: %r; while the other reader "
                            "works (switch points %r of %r lines): %r"
                            % (i, solo[i], points, lines, val))


@st.composite
def gen_two_readers(draw):
    def felica(key):
        seq = []
        for _ in range(draw(st.sampled_from([1, 1, 2]))):
            kind, pw = draw(felica_password(key))
            seq.append({"kind": kind, "pw": pw, "type": "bytes"})
        return {"tech": "felica", "prod": draw(prod_), "key": key,
                "seq": seq, "fill": draw(st.integers(0, 999)), "id": None}

    def ntag():
        secret = draw(secret6)
        kind, pw = draw(ntag_password(secret))
        return {"tech": "ntag", "prod": draw(ntag_prod_), "secret": secret,
                "seq": [{"kind": kind, "pw": pw, "type": "bytes"}],
                "nak": "byte", "auth0": 0xFF, "prot": False}
    key = draw(key16)
    a = felica(key)
    b = draw(st.sampled_from(["same", "same", "same", "other", "ntag"]))
    b = felica(key) if b == "same" else felica(draw(key16)) \
        if b == "other" else ntag()
    if draw(st.booleans()):
        a, b = b, a
    # right passwords are the interesting ones: a disturbed computation
    # makes a right password fail, hardly ever a wrong one pass
    for sub in (a, b):
        if sub["tech"] == "felica" and draw(st.booleans()):
            sub["seq"][0] = {"kind": "same", "pw": sub["key"],
                             "type": "bytes"}
    return {"a": a, "b": b, "useed": draw(useed_),
            "switch": [draw(st.lists(st.integers(0, 9999), min_size=0,
                                     max_size=5)),
                       draw(st.lists(st.integers(0, 9999), min_size=1,
                                     max_size=5))]}


# ------------------------------------------------------------------- legs
LEGS = [
    Leg("anchors", run=run_anchor, enum=enum_anchors, exhaustive=True,
        rule="recorded MAC vectors through vlib.ref_felica (and "
             "generate_mac), recorded Lite/Lite-S/NTAG command transcripts "
             "through the simulators, recorded key through library + "
             "simulator."),
    Leg("felica_auth", run=run_felica_auth, gen=lambda tier: gen_felica_auth(),
        quick=1200, thorough=24000, shards_quick=6, shards_thorough=16,
        nt_floor=0.25,
        rule="FeliCa Lite / Lite-S holding a random (or factory / "
             "K1=K2) card key; 1-3 passwords in sequence on one tag object: "
             "the key, key+ignored tail, one or several flipped bits, flipped "
             "parity bits, random, half right, halves swapped, short, empty; "
             "seeded challenge; non-trivial = a password whose key differs "
             "from the card key in a non-parity bit."),
    Leg("felica_flips", run=run_felica_flip, enum=enum_felica_flips,
        exhaustive=True, shards_quick=4, shards_thorough=16,
        rule="all 128 single-bit changes of the card key (16 parity "
             "positions must authenticate, 112 must not) x 16 (quick) / 300 "
             "(thorough) seeded keys, every fourth on Lite-S."),
    Leg("auth_bits", run=run_auth_tampered, enum=enum_auth_bits,
        exhaustive=True, shards_quick=8, shards_thorough=16,
        rule="every single-bit flip of every response frame of the "
             "authentication (Lite: 2 frames, Lite-S: 5 frames / 2 with a "
             "wrong key), right and wrong password, 2 (quick) / 16 "
             "(thorough) seeded configurations; non-trivial = flip inside the "
             "data/MAC/WCNT bytes or wrong password."),
    Leg("auth_tamper", run=run_auth_tampered,
        gen=lambda tier: gen_auth_tamper(), quick=1000, thorough=24000,
        shards_quick=4, shards_thorough=16, nt_floor=0.25,
        rule="1-2 response frames of the authentication changed by 1-4 "
             "xor/set/bit/copy/truncate/append operations, or (Read "
             "responses) re-shaped to carry fewer / no / more / repeated / "
             "reordered blocks with consistent or inconsistent block count "
             "byte, or replaced by an earlier response of the same session "
             "that has another length, or by the frame of another session of "
             "the same tag; "
             "non-trivial = change inside data/MAC/WCNT bytes or wrong "
             "password."),
    Leg("read_bits", run=run_read, enum=enum_read_bits, exhaustive=True,
        shards_quick=4, shards_thorough=12,
        rule="every single-bit flip of the response to read_with_mac of "
             "1, 2 and 3 blocks, both products, 1 (quick) / 12 (thorough) "
             "seeded configurations; non-trivial = flip inside data or MAC."),
    Leg("read_mac", run=run_read, gen=lambda tier: gen_read(),
        quick=2000, thorough=48000, shards_quick=4, shards_thorough=16,
        nt_floor=0.25,
        rule="read_with_mac of 1-4 blocks out of 0..14, 80h, 82h..88h, "
             "(90h, 92h), occasionally illegal numbers, genuine, with 1-4 "
             "random frame modifications, re-shaped to fewer / no / more / "
             "repeated blocks (well-formed frame), or answered with the "
             "genuine response of a read_with_mac of another number of "
             "blocks of the same session; non-trivial = valid genuine read "
             "or a modification inside data/MAC."),
    Leg("shapes", run=run_shape, enum=enum_shapes, exhaustive=True,
        shards_quick=2, shards_thorough=8,
        rule="length-changing substitutions of Read responses that stay "
             "well-formed (LEN byte consistent, response code, IDm, status "
             "0000): the response carries every in-order selection of fewer "
             "blocks than requested (also none), one block more (a genuine "
             "block again / a filler block), all blocks twice, with the block "
             "count byte consistent or genuine, or ends right behind the "
             "status bytes; applied to each read inside authenticate() (ID+MAC, "
             "Lite-S also WCNT and the MAC_A check; right and wrong password) "
             "and to read_with_mac of 1, 2, 3 blocks; plus the genuine "
             "response (valid MAC) of a read_with_mac of fewer / more blocks "
             "of the same session delivered instead; 2 (quick) / 12 (thorough) "
             "seeded configurations, both products.  Oracle as auth_tamper / "
             "read_mac; non-trivial = data/MAC bytes differ from the genuine "
             "frame or wrong password."),
    Leg("felica_protect", run=run_felica_protect,
        gen=lambda tier: gen_felica_protect(), quick=400, thorough=9000,
        shards_quick=4, shards_thorough=16, nt_floor=0.12,
        rule="protect(password[, read_protect, protect_from]) on a tag in "
             "issuance state, then fresh activations with authenticate(same) "
             "and authenticate(other); password as bytes/bytearray (Lite) or "
             "str (Lite-S), the form the product does not take is labelled; "
             "non-trivial = protect succeeded and the other password differs "
             "in a non-parity bit."),
    Leg("felica_hist_enum", run=run_felica_history, enum=enum_felica_history,
        exhaustive=True, shards_quick=12, shards_thorough=16,
        rule="histories on ONE tag object: every sequence of 0, 1 or 2 "
             "(thorough: 3) operations out of {authenticate(card key), "
             "authenticate(key with one non-parity bit flipped), "
             "protect(password, str or bytes), write_without_mac, "
             "write_with_mac, NDEF write, NDEF re-read, read_with_mac}, "
             "followed by authenticate(key the tag should hold now), "
             "read_with_mac, authenticate(one key bit flipped), "
             "authenticate(key) again; on FeliCa Lite, Lite-S, and Lite-S "
             "whose write counter also counts RC writes; tag in issuance "
             "state or holding a seeded key; start value of the write "
             "counter 0 / FEh / FFFEh.  Every authenticate is judged by the "
             "key the simulator holds at that moment (as a DES key), every "
             "read_with_mac by the simulator's memory; a successful "
             "protect(pw) must leave key(pw) on the tag.  Second family "
             "(order of NDEF accesses, modifications in transit and "
             "authentications): every sequence of 1-3 (thorough: 1-4) "
             "operations out of {look at tag.ndef (octets, length, records; "
             "no re-read asked for), the same while one bit of the block data "
             "of every read response of the NDEF path is changed in transit "
             "(plain reads before authentication: the bytes a MAC'd read would "
             "protect; MAC'd reads: data or MAC; message reads only or also "
             "the attribute block), tag.ndef.has_changed + look, the same with "
             "the bit changed, authenticate(card key), authenticate(one "
             "non-parity key bit off)} followed by an undisturbed look at "
             "tag.ndef, x 3 products/counter policies x factory / seeded key, "
             "message of 1-39 or 40-199 bytes (random octets or a Text "
             "record).  While the last authenticate() returned True, NDEF "
             "octets handed out by the tag object must be a message the "
             "simulator's memory held at some point of the history (or one "
             "the history itself wrote) or tag.ndef is None - never bytes "
             "changed in transit, whether before or after authentication; "
             "length and records must agree with the octets; before / without "
             "authentication nothing is claimed.  non-trivial = an "
             "authenticate that is not the first operation on the object, or "
             "an NDEF access of an authenticated tag object in a history "
             "with a modified NDEF read."),
    Leg("felica_history", run=run_felica_history,
        gen=lambda tier: gen_felica_history(), quick=480, thorough=12000,
        shards_quick=4, shards_thorough=16, nt_floor=0.3,
        rule="generated histories of 2-6 operations on one FeliCa Lite / "
             "Lite-S tag object: authenticate (the current or the previous "
             "key, exact or one of the felica_auth password variants), "
             "protect (password forms and shapes of felica_protect, "
             "read_protect, protect_from), write_without_mac / "
             "write_with_mac of a block 0..14, NDEF write, NDEF access "
             "(look at tag.ndef octets/length/records, or has_changed + "
             "look; half of them with one bit of the block data / MAC of the "
             "read responses of the NDEF path changed in transit, in plain "
             "reads as well as MAC'd reads, i.e. before and after any "
             "authenticate/protect of the history), "
             "read_with_mac of 1-3 blocks (four in nine with 1-4 random "
             "frame modifications, a re-shaped block list or the response of "
             "a read of another size); one history in three draws mostly NDEF "
             "accesses and authentications (3-6 operations, message of 1-200 "
             "bytes, random octets or a Text record, the changed bit mostly "
             "inside the message); Lite-S with either write counter policy "
             "and a generated counter start value (byte carries); oracles as "
             "in felica_hist_enum; non-trivial = an authenticate that is not "
             "the first operation on the object, or an NDEF access of an "
             "authenticated tag object in a history with a modified NDEF "
             "read."),
    Leg("ntag_auth", run=run_ntag_auth, gen=lambda tier: gen_ntag_auth(),
        quick=3000, thorough=60000, shards_quick=2, shards_thorough=8,
        nt_floor=0.3,
        rule="NTAG210..216 with random / factory PWD and PACK, NAK delivered "
             "as byte or silence; passwords: right, right+tail, single bit "
             "off, only first/second PACK byte off, only PWD off, random, "
             "short, empty; non-trivial = PWD or PACK mismatch."),
    Leg("ntag_flips", run=run_ntag_auth, enum=enum_ntag_flips,
        exhaustive=True, shards_quick=1, shards_thorough=4,
        rule="all 48 single-bit changes of PWD|PACK x 20 / 600 seeded tags."),
    Leg("ntag_tamper_bits", run=run_ntag_tamper, enum=enum_ntag_tamper_bits,
        exhaustive=True, shards_quick=1, shards_thorough=4,
        rule="every single-bit flip of the PWD_AUTH answer (PACK or NAK byte) "
             "for a right password, PACK off by one bit / in the second byte, "
             "PWD off; the result must equal the documented comparison of "
             "the received bytes with password[4:6]."),
    Leg("ntag_tamper", run=run_ntag_tamper, gen=lambda tier: gen_ntag_tamper(),
        quick=2000, thorough=40000, shards_quick=2, shards_thorough=8,
        nt_floor=0.3,
        rule="PWD_AUTH answer replaced / truncated / extended / bit-changed; "
             "non-trivial = the frame really changed."),
    Leg("ntag_protect", run=run_ntag_protect,
        gen=lambda tier: gen_ntag_protect(), quick=800, thorough=20000,
        shards_quick=1, shards_thorough=8, nt_floor=0.2,
        rule="protect(password, read_protect, protect_from) on a factory or "
             "already protected (authenticate(old) first) NTAG21x, formatted "
             "or blank, then fresh activations with authenticate(same) / "
             "authenticate(other); non-trivial = protect succeeded and the "
             "other password mismatches."),
    Leg("two_readers", run=run_two_readers,
        gen=lambda tier: gen_two_readers(), quick=120, thorough=1200,
        shards_quick=8, shards_thorough=16, nt_floor=0.5,
        rule="two readers in one process, each with its own simulated tag "
             "(FeliCa Lite / Lite-S, same or different card key, or NTAG21x) "
             "and its own tag object, run 1-2 authenticate() calls (+ a MAC'd "
             "read after a success) at the same time; the harness switches "
             "between the two threads at 1-10 generated points counted in "
             "source lines of nfc/ and function calls of pyDes.py "
             "(vlib.linesched, simulators atomic). "
             "Oracle: every reader gets exactly the outcomes it gets alone, "
             "and alone the first outcome is the key-holding oracle's. "
             "Non-trivial = at least one switch happened while both readers "
             "were at work."),
]

# the same searches with every logger enabled down to the lowest level (code
# that only runs, or only evaluates its arguments, when logging is on)
_byl = dict((lg.name, lg) for lg in LEGS)
LEGS += [
    twin_env(_byl["felica_auth"], "log", {"VERIF_LOG": "debug"}, quick=300,
             thorough=3000, shards_quick=4),
    twin_env(_byl["read_mac"], "log", {"VERIF_LOG": "debug"}, quick=200,
             thorough=2000, shards_quick=4),
    twin_env(_byl["ntag_auth"], "log", {"VERIF_LOG": "debug"}, quick=200,
             thorough=2000, shards_quick=2),
]
