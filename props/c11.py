"""C11 - LLCP PDU encoding and decoding are mutually consistent.

legs
  roundtrip   structured PDUs (all 14 types + unknown types, every field over
              its full valid range) -> encode -> len -> ref decode -> decode
  setters     one PDU object driven through 1..6 attribute assignments in
              generated order; structured oracle after every assignment
  bytes       mutated / constructed byte strings: decode is DecodeError or a
              PDU whose re-encoding decodes to an equal PDU; differential
              against the bounded reference decoder
  short       exhaustive byte strings up to 2 (quick) / 3 (thorough) bytes
  headers     all 65536 two-byte headers x tail shapes
  bounds      bounded-exhaustive boundary lengths {0, 1, .., max-1, max,
              max+1} of every variable-length field (SN, ECPK, RN, SDREQ
              name, information fields) through the object API and of every
              TLV type through bytes (L up to FFh; value cut, exact, padded,
              followed), each alone and inside an AGF
  vectors     literal encodings from the LLCP spec examples used by the
              repository's tests, replayed through the reference (anchor)
  fuzz        atheris coverage-guided campaign on decode (thorough)
"""
import itertools
import struct

from hypothesis import strategies as st

import nfc.llcp.pdu as pdu
from vlib import ref_llcp as ref
from vlib.engine import Leg, Violation, unexpected, app_stack, twin_env

PROPERTY = "C11"
LEVEL = "exploration"
ASSUMPTIONS = [
    "reference decoder vlib/ref_llcp.py is a correct reading of LLCP 1.3 ch.4",
    "library leniency the statement allows (ignoring unknown TLVs, trailing "
    "single bytes, masking reserved bits) or extra strictness is labelled, "
    "not judged",
]

VIOLATING_REASONS = ("tlv-overrun", "subpdu-overrun", "nested-agf")


# ------------------------------------------------------------ observation
def _b(x):
    return bytes(x) if x else None


def observe(p):
    """field values of a library PDU object in the reference's dict form"""
    name = p.name
    d = {"dsap": p.dsap, "ssap": p.ssap}
    if isinstance(p, pdu.UnknownProtocolDataUnit):
        d["type"] = "U%d" % p.ptype
        d["payload"] = bytes(p.payload)
        return d
    d["type"] = name
    if name == "PAX":
        d.update(version=p._version, miux=p._miux, wks=p._wks, lto=p._lto,
                 opt=p._opt)
    elif name == "AGF":
        d["pdus"] = [observe(q) for q in p]
    elif name == "UI":
        d["data"] = bytes(p.data)
    elif name == "CONNECT":
        d.update(miu=p.miu, rw=p.rw, sn=_b(p.sn))
    elif name == "CC":
        d.update(miu=p.miu, rw=p.rw)
    elif name == "DM":
        d["reason"] = p.reason
    elif name == "FRMR":
        d.update(flags=p.rej_flags, ptype=p.rej_ptype, ns=p.ns, nr=p.nr,
                 vs=p.vs, vr=p.vr, vsa=p.vsa, vra=p.vra)
    elif name == "SNL":
        d["sdreq"] = [[t, bytes(s)] for t, s in p.sdreq]
        d["sdres"] = [[t, s] for t, s in p.sdres]
    elif name == "DPS":
        d.update(ecpk=_b(p.ecpk), rn=_b(p.rn))
    elif name == "I":
        d.update(ns=p.ns, nr=p.nr, data=bytes(p.data))
    elif name in ("RR", "RNR"):
        d["nr"] = p.nr
    return d


def build(s):
    """library PDU object from a spec dict (public constructors only)"""
    t, d, a = s["type"], s["dsap"], s["ssap"]
    if t == "SYMM":
        return pdu.Symmetry(d, a)
    if t == "PAX":
        return pdu.ParameterExchange(d, a, version=s["version"],
                                     miux=s["miux"], wks=s["wks"],
                                     lto=s["lto"], opt=s["opt"])
    if t == "AGF":
        return pdu.AggregatedFrame(d, a, [build(q) for q in s["pdus"]])
    if t == "UI":
        return pdu.UnnumberedInformation(d, a, s["data"])
    if t == "CONNECT":
        return pdu.Connect(d, a, miu=s["miu"], rw=s["rw"], sn=s["sn"])
    if t == "DISC":
        return pdu.Disconnect(d, a)
    if t == "CC":
        return pdu.ConnectionComplete(d, a, miu=s["miu"], rw=s["rw"])
    if t == "DM":
        return pdu.DisconnectedMode(d, a, s["reason"])
    if t == "FRMR":
        return pdu.FrameReject(d, a, s["flags"], s["ptype"], s["ns"], s["nr"],
                               s["vs"], s["vr"], s["vsa"], s["vra"])
    if t == "SNL":
        return pdu.ServiceNameLookup(
            d, a, sdreq=[(x, bytes(y)) for x, y in s["sdreq"]],
            sdres=[(x, y) for x, y in s["sdres"]])
    if t == "DPS":
        return pdu.DataProtectionSetup(d, a, ecpk=s["ecpk"], rn=s["rn"])
    if t == "I":
        return pdu.Information(d, a, s["ns"], s["nr"], s["data"])
    if t == "RR":
        return pdu.ReceiveReady(d, a, s["nr"])
    if t == "RNR":
        return pdu.ReceiveNotReady(d, a, s["nr"])
    if t.startswith("U"):
        return pdu.UnknownProtocolDataUnit(int(t[1:]), d, a, s["payload"])
    raise AssertionError(t)


def norm(s):
    """what a spec means: empty optional octet strings are absent"""
    s = dict(s)
    for k in ("sn", "ecpk", "rn"):
        if k in s:
            s[k] = _b(s[k])
    for k in ("data", "payload"):
        if k in s:
            s[k] = bytes(s[k])
    if "pdus" in s:
        s["pdus"] = [norm(q) for q in s["pdus"]]
    if "sdreq" in s:
        s["sdreq"] = [[t, bytes(n)] for t, n in s["sdreq"]]
        s["sdres"] = [[t, a] for t, a in s["sdres"]]
    return s


# ------------------------------------------------------------- generators
sap = st.integers(0, 63)
nib = st.integers(0, 15)
byte = st.integers(0, 255)
opt_ = lambda s: st.one_of(st.none(), s)  # noqa: E731


def payload(maxlen):
    return st.one_of(
        st.binary(max_size=16),
        st.integers(0, maxlen).flatmap(
            lambda n: st.binary(min_size=n, max_size=n)),
        st.sampled_from([0, 1, 127, 128, 129, 255, 256, maxlen - 1, maxlen])
        .flatmap(lambda n: st.binary(min_size=n, max_size=n)))


miu_ = st.one_of(st.integers(128, 2175),
                 st.sampled_from([128, 129, 255, 256, 2174, 2175]))
rw_ = st.integers(0, 15)


def blen(*lengths):
    """octet strings of exactly one of the given lengths (the ends of a
    length range are where an encoder's guard and a length octet can be off
    by one; a max_size=255 strategy practically never gets there)"""
    return st.sampled_from(lengths).flatmap(
        lambda n: st.binary(min_size=n, max_size=n))


# SN, ECPK and RN values fill a TLV: one length octet, 0..255 value bytes
TLV_MAX = 255
name_ = st.one_of(st.none(), st.binary(max_size=40), st.binary(max_size=255),
                  st.just(b"urn:nfc:sn:snep"), st.just(b""),
                  blen(1, 2, TLV_MAX - 1, TLV_MAX))
ecpk_ = st.one_of(st.binary(max_size=64), st.binary(max_size=64),
                  blen(0, 1, 64, TLV_MAX - 1, TLV_MAX))
rn_ = st.one_of(st.binary(max_size=8), st.binary(max_size=8),
                blen(0, 1, 8, TLV_MAX - 1, TLV_MAX))


# service names in SDREQ: a TLV value holds the TID and up to 254 name bytes
sdreq_name_ = st.one_of(
    st.binary(max_size=60), st.binary(max_size=60),
    st.integers(250, 254).flatmap(lambda n: st.binary(min_size=n, max_size=n)),
    blen(0, 1, TLV_MAX - 2, TLV_MAX - 1))


def fixed(t, **kw):
    return st.fixed_dictionaries(dict(type=st.just(t), **kw))


def pdu_types(maxpay=2175):
    """per-type strategies of PDU spec dicts (insertion order is the order
    simple_pdu() draws from)"""
    any_sap = dict(dsap=sap, ssap=sap)
    zero = dict(dsap=st.just(0), ssap=st.just(0))
    one = dict(dsap=st.just(1), ssap=st.just(1))
    return {
        "SYMM": fixed("SYMM", **zero),
        "PAX": fixed("PAX", version=opt_(byte),
                     miux=opt_(st.integers(0, 0x7FF)),
                     wks=opt_(st.integers(0, 0xFFFF)), lto=opt_(byte),
                     opt=opt_(st.integers(0, 7)), **zero),
        "UI": fixed("UI", data=payload(maxpay), **any_sap),
        "CONNECT": fixed("CONNECT", miu=miu_, rw=rw_, sn=name_, **any_sap),
        "DISC": fixed("DISC", **any_sap),
        "CC": fixed("CC", miu=miu_, rw=rw_, **any_sap),
        "DM": fixed("DM", reason=byte, **any_sap),
        "FRMR": fixed("FRMR", flags=nib, ptype=nib, ns=nib, nr=nib, vs=nib,
                      vr=nib, vsa=nib, vra=nib, **any_sap),
        "SNL": fixed("SNL",
                     sdreq=st.lists(st.tuples(byte, sdreq_name_), max_size=6),
                     sdres=st.lists(st.tuples(byte, st.integers(0, 63)),
                                    max_size=12), **one),
        "DPS": fixed("DPS", ecpk=opt_(ecpk_), rn=opt_(rn_), **zero),
        "I": fixed("I", ns=nib, nr=nib, data=payload(maxpay), **any_sap),
        "RR": fixed("RR", nr=nib, **any_sap),
        "RNR": fixed("RNR", nr=nib, **any_sap),
        "U11": fixed("U11", payload=payload(64), **any_sap),
        "U15": fixed("U15", payload=payload(64), **any_sap),
    }


def simple_pdu(maxpay=2175):
    return st.one_of(*pdu_types(maxpay).values())


def any_pdu():
    agf = fixed("AGF", dsap=st.just(0), ssap=st.just(0),
                pdus=st.lists(simple_pdu(300), max_size=20))
    return st.one_of(simple_pdu(), simple_pdu(), agf)


# ------------------------------------------------------------------ oracles
def classify_spec(s):
    t = s["type"]
    if t in ("CONNECT", "CC"):
        if s["rw"] == 0:
            return t + "/rw=0"
    return t


def run_roundtrip(s, ctx):
    ctx.set_class(classify_spec(s))
    want = norm(s)
    ctx.label("type:" + s["type"])
    nt = False
    if s["type"] in ("PAX", "CONNECT", "CC", "SNL", "DPS"):
        opt_keys = [k for k in ("version", "miux", "wks", "lto", "opt", "sn",
                                "ecpk", "rn") if want.get(k) is not None]
        nt = bool(opt_keys) or bool(want.get("sdreq")) or \
            bool(want.get("sdres")) or want.get("miu", 128) != 128 or \
            want.get("rw", 1) != 1
    elif s["type"] == "AGF":
        nt = len(s["pdus"]) > 0
    elif s["type"] in ("UI", "I") or s["type"].startswith("U"):
        nt = len(want.get("data", want.get("payload", b""))) > 0
    elif s["type"] in ("FRMR", "DM", "RR", "RNR"):
        nt = True
    if nt:
        ctx.nontrivial()
    e = check_object(build(s), want, repr(s))
    ctx.note({"encoded": e})


def check_object(p, want, what):
    """the structured oracle: PDU object p is meant to carry the field values
    `want` (normalised reference dict); returns the encoding"""
    try:
        e = pdu.encode(p)
    except pdu.EncodeError as err:
        raise Violation("encode-rejects-valid", "%s: %s" % (what, err))
    if len(p) != len(e):
        raise Violation("len-mismatch", "len(pdu)=%d len(encode)=%d %s"
                        % (len(p), len(e), what))
    try:
        r = ref.decode(e)
    except ref.RefReject as rr:
        raise Violation("encoding-not-wellformed", "%s for %s" % (rr, e.hex()))
    if r != want:
        raise Violation("encoding-disagrees-with-spec",
                        "want %r, the bytes %s say %r" % (want, e.hex()[:200], r))
    try:
        q = pdu.decode(e)
    except pdu.DecodeError as err:
        raise Violation("decode-rejects-own-encoding", "%s: %s" % (e.hex(), err))
    got = observe(q)
    if got != want:
        raise Violation("roundtrip-mismatch", "want %r got %r" % (want, got))
    return e


def check_bytes(b, ctx=None):
    """the byte-string oracle; returns a label.  raises Violation."""
    try:
        with app_stack():
            p = pdu.decode(b)
    except pdu.DecodeError:
        p = None
    except Exception as e:
        raise unexpected(e, detail="decode(%s)" % b.hex()[:120])
    try:
        r = ref.decode(b)
        reason = None
    except ref.RefReject as rr:
        r, reason = None, rr.reason
    if p is None:
        if r is None:
            return "both-reject"
        # the library refuses a frame the independent reading accepts
        raise Violation("rejects-wellformed", "%s: reference reads %r"
                        % (b.hex()[:300], r))
    try:
        got = observe(p)
        e2 = pdu.encode(p)
        n = len(p)
    except pdu.EncodeError as err:
        raise Violation("re-encode-fails", "%s: %s" % (b.hex()[:200], err))
    except Exception as e:
        raise unexpected(e, detail="re-encode of decode(%s)" % b.hex()[:120])
    if n != len(e2):
        raise Violation("len-mismatch", "decoded %s: len %d, encoding %d"
                        % (b.hex()[:200], n, len(e2)))
    try:
        p2 = pdu.decode(e2)
    except pdu.DecodeError as err:
        raise Violation("re-decode-fails", "%s -> %s: %s"
                        % (b.hex()[:200], e2.hex()[:200], err))
    except Exception as e:
        raise unexpected(e, detail="re-decode")
    got2 = observe(p2)
    if got2 != got:
        raise Violation("re-decode-differs", "%s: %r vs %r"
                        % (b.hex()[:200], got, got2))
    if r is None:
        # every reason for which the independent reading refuses a frame is a
        # well-formedness rule of the PDU format (too short for its type,
        # length fields overrunning, nested aggregates ...): accepting it
        # means bytes outside the PDU were used or invented
        if ctx is not None and reason in VIOLATING_REASONS:
            ctx.set_class(got["type"] + "/" + reason)
        raise Violation("accepts-" + reason,
                        "%s decodes to %r" % (b.hex()[:300], got))
    if r != got:
        raise Violation("differential-mismatch", "%s: library %r reference %r"
                        % (b.hex()[:300], got, r))
    return "both-accept"


def run_bytes(case, ctx):
    b = bytes(case)
    label = check_bytes(b, ctx)
    ctx.label(label)
    if label != "both-reject":
        ctx.nontrivial()


# attribute histories ----------------------------------------------------
# A PDU object is not only made by a constructor call: the link layer builds
# its PAX, SNL, FRMR, I ... PDUs by assigning attributes one after another
# (llc.py: send_pax.lsc = ..; send_pax.dpc = ..; snl.sdreq.append(..)).  The
# model below is the reference dict of the *intended* field values, updated by
# each assignment according to the documented meaning of the attribute.
BARE = {  # constructor with the mandatory arguments only -> documented defaults
    "PAX": dict(version=None, miux=None, wks=None, lto=None, opt=None),
    "UI": dict(data=b""), "CONNECT": dict(miu=128, rw=1, sn=None),
    "CC": dict(miu=128, rw=1), "DM": dict(reason=0),
    "FRMR": dict(flags=0, ptype=0, ns=0, nr=0, vs=0, vr=0, vsa=0, vra=0),
    "SNL": dict(sdreq=[], sdres=[]), "DPS": dict(ecpk=None, rn=None),
    "I": dict(ns=None, nr=None, data=b""), "RR": dict(nr=None),
    "AGF": dict(pdus=[]), "DISC": dict(),
}
BARE_CLS = {"PAX": pdu.ParameterExchange, "UI": pdu.UnnumberedInformation,
            "CONNECT": pdu.Connect, "CC": pdu.ConnectionComplete,
            "DM": pdu.DisconnectedMode, "FRMR": pdu.FrameReject,
            "SNL": pdu.ServiceNameLookup, "DPS": pdu.DataProtectionSetup,
            "I": pdu.Information, "RR": pdu.ReceiveReady,
            "AGF": pdu.AggregatedFrame, "DISC": pdu.Disconnect}
FIXED_SAP = ("PAX", "AGF", "DPS", "SNL")
# attribute name on the object -> key of the reference dict
PLAIN = {"dsap": "dsap", "ssap": "ssap", "data": "data", "payload": "payload",
         "miu": "miu", "rw": "rw", "sn": "sn", "reason": "reason",
         "rej_flags": "flags", "rej_ptype": "ptype", "ns": "ns", "nr": "nr",
         "vs": "vs", "vr": "vr", "vsa": "vsa", "vra": "vra", "ecpk": "ecpk",
         "rn": "rn", "wks": "wks"}


def _set_ops(t):
    """strategy of one [attribute, value] assignment for PDU type t"""
    small = st.binary(max_size=40)
    ops = []
    if t not in FIXED_SAP:
        ops += [st.tuples(st.just("dsap"), sap), st.tuples(st.just("ssap"), sap)]
    if t == "PAX":
        ops += [st.tuples(st.just("version"), st.tuples(nib, nib)),
                st.tuples(st.just("miu"), miu_),
                st.tuples(st.just("wks"), st.integers(0, 0xFFFF)),
                st.tuples(st.just("lto"),
                          st.integers(0, 255).map(lambda x: 10 * x)),
                st.tuples(st.just("lsc"), st.integers(0, 3)),
                st.tuples(st.just("dpc"), st.sampled_from([0, 1, 1, True,
                                                           False]))] * 2
    elif t == "UI":
        ops += [st.tuples(st.just("data"), payload(300))]
    elif t in ("CONNECT", "CC"):
        ops += [st.tuples(st.just("miu"), miu_), st.tuples(st.just("rw"), rw_)]
        if t == "CONNECT":
            ops += [st.tuples(st.just("sn"), name_)]
    elif t == "DM":
        ops += [st.tuples(st.just("reason"), byte)]
    elif t == "FRMR":
        ops += [st.tuples(st.sampled_from(["rej_flags", "rej_ptype", "ns", "nr",
                                           "vs", "vr", "vsa", "vra"]), nib)] * 3
    elif t == "SNL":
        req = st.tuples(byte, sdreq_name_)
        res = st.tuples(byte, st.integers(0, 63))
        ops += [st.tuples(st.just("sdreq"), st.lists(req, max_size=3)),
                st.tuples(st.just("sdres"), st.lists(res, max_size=4)),
                st.tuples(st.just("sdreq+"), req),
                st.tuples(st.just("sdres+"), res)]
    elif t == "DPS":
        ops += [st.tuples(st.just("ecpk"), opt_(ecpk_)),
                st.tuples(st.just("rn"), opt_(rn_))]
    elif t == "I":
        ops += [st.tuples(st.just("ns"), nib), st.tuples(st.just("nr"), nib),
                st.tuples(st.just("data"), payload(300))]
    elif t in ("RR", "RNR"):
        ops += [st.tuples(st.just("nr"), nib)] * 2
    elif t == "AGF":
        ops += [st.tuples(st.just("append"), simple_pdu(40))]
    elif t.startswith("U"):
        ops += [st.tuples(st.just("payload"), small)]
    return st.one_of(*ops)


SET_TYPES = ["PAX", "PAX", "PAX", "PAX", "UI", "CONNECT", "CONNECT", "DISC",
             "CC", "DM", "FRMR", "FRMR", "SNL", "SNL", "DPS", "I", "I", "RR",
             "RNR", "AGF", "U11"]
_SET_INIT = pdu_types(300)
_SET_INIT["AGF"] = fixed("AGF", dsap=st.just(0), ssap=st.just(0),
                         pdus=st.lists(simple_pdu(40), max_size=3))
_SET_OPS = dict((t, _set_ops(t)) for t in set(SET_TYPES))


@st.composite
def setter_case(draw):
    t = draw(st.sampled_from(SET_TYPES))
    start = draw(st.sampled_from(["ctor", "ctor", "decoded", "bare"]))
    if start == "bare" and t not in BARE:
        start = "ctor"
    return {"type": t, "start": start, "init": draw(_SET_INIT[t]),
            "ops": draw(st.lists(_SET_OPS[t], min_size=1, max_size=6))}


def _assign(p, model, attr, val):
    """one assignment on the object and what it means for the field values"""
    if attr == "version":        # (major, minor) -> VERSION TLV major|minor
        p.version = (val[0], val[1])
        model["version"] = val[0] << 4 | val[1]
    elif attr == "miu" and model["type"] == "PAX":   # MIUX TLV is MIU - 128
        p.miu = val
        model["miux"] = val - 128
    elif attr == "lto":          # milliseconds -> LTO TLV in units of 10 ms
        p.lto = val
        model["lto"] = val // 10
    elif attr == "lsc":          # OPT TLV bits 1..0, DPC (bit 2) unaffected
        p.lsc = val
        model["opt"] = ((model["opt"] or 0) & 4) | val
    elif attr == "dpc":          # OPT TLV bit 2, LSC unaffected
        p.dpc = val
        model["opt"] = ((model["opt"] or 0) & 3) | (4 if val else 0)
    elif attr == "sdreq":
        p.sdreq = [(tid, bytes(sn)) for tid, sn in val]
        model["sdreq"] = [[tid, bytes(sn)] for tid, sn in val]
    elif attr == "sdres":
        p.sdres = [(tid, addr) for tid, addr in val]
        model["sdres"] = [[tid, addr] for tid, addr in val]
    elif attr == "sdreq+":
        p.sdreq.append((val[0], bytes(val[1])))
        model["sdreq"] = model["sdreq"] + [[val[0], bytes(val[1])]]
    elif attr == "sdres+":
        p.sdres.append((val[0], val[1]))
        model["sdres"] = model["sdres"] + [[val[0], val[1]]]
    elif attr == "append":
        p.append(build(val))
        model["pdus"] = model["pdus"] + [norm(val)]
    else:
        setattr(p, attr, val)
        model[PLAIN[attr]] = val


def _check_getters(p, model, what):
    """PAX attribute getters report the values that were put in"""
    if model["type"] != "PAX":
        return
    want = {}
    if model["version"] is not None:
        want["version"] = (model["version"] >> 4, model["version"] & 15)
    if model["miux"] is not None:
        want["miu"] = model["miux"] + 128
    if model["wks"] is not None:
        want["wks"] = model["wks"]
    if model["lto"] is not None:
        want["lto"] = model["lto"] * 10
    if model["opt"] is not None:
        want["lsc"] = model["opt"] & 3
        want["dpc"] = model["opt"] >> 2 & 1
    got = dict((k, getattr(p, k)) for k in want)
    if got != want:
        raise Violation("getter-mismatch", "%s: attributes read %r, the values "
                        "assigned are %r" % (what, got, want))


def run_setters(case, ctx):
    t, init = case["type"], case["init"]
    ctx.set_class(t + "/" + case["start"])
    ctx.label("type:" + t)
    ctx.label("start:" + case["start"])
    if case["start"] == "ctor":
        p, model = build(init), norm(init)
    elif case["start"] == "decoded":
        model = norm(init)
        p = pdu.decode(ref.encode(model))
    else:
        sap_ = [] if t in ("PAX", "AGF") else [init["dsap"], init["ssap"]]
        p = BARE_CLS[t](*sap_)
        model = dict(BARE[t], type=t, dsap=init["dsap"], ssap=init["ssap"])
    first = dict(model)
    trail = [case["start"]]
    for attr, val in case["ops"]:
        _assign(p, model, attr, val)
        trail.append("%s=%r" % (attr, val if attr != "append" else val["type"]))
        what = "%s after %s" % (t, "; ".join(trail))
        want = norm(model)
        if None in (want.get("ns", 0), want.get("nr", 0)):
            # a numbered PDU whose sequence numbers were never given has no
            # encoding: EncodeError is the documented answer
            try:
                e = pdu.encode(p)
            except pdu.EncodeError:
                ctx.label("incomplete-rejected")
                continue
            raise Violation("encodes-incomplete", "%s -> %s" % (what, e.hex()))
        _check_getters(p, model, what)
        check_object(p, want, what)
    ctx.label("ops:%d" % len(case["ops"]))
    if len(case["ops"]) >= 2 and norm(model) != norm(first):
        ctx.nontrivial()



# members of an aggregate that change after they joined it ------------------
MEMBER_TYPES = ["UI", "I", "CONNECT", "CC", "SNL", "DM", "RR"]


@st.composite
def agf_member_case(draw):
    ts = draw(st.lists(st.sampled_from(MEMBER_TYPES), min_size=1, max_size=4))
    members = [{"type": t, "init": draw(_SET_INIT[t])} for t in ts]
    ops = []
    for _ in range(draw(st.integers(1, 4))):
        i = draw(st.integers(0, len(ts) - 1))
        attr, val = draw(_SET_OPS[ts[i]])
        ops.append([i, attr, val])
    return {"members": members, "ops": ops,
            "how": draw(st.sampled_from(["ctor", "append", "decoded"]))}


def run_agf_members(case, ctx):
    """an aggregate is what its members are when it is encoded or measured,
    however and whenever they got their values"""
    ctx.set_class("agf-members/" + case["how"])
    models = [norm(m["init"]) for m in case["members"]]
    if case["how"] == "ctor":
        objs = [build(m["init"]) for m in case["members"]]
        agf = pdu.AggregatedFrame(0, 0, objs)
    elif case["how"] == "append":
        objs = [build(m["init"]) for m in case["members"]]
        agf = pdu.AggregatedFrame(0, 0)
        for o in objs:
            agf.append(o)
    else:
        agf = pdu.decode(ref.encode({"type": "AGF", "dsap": 0, "ssap": 0,
                                     "pdus": models}))
        objs = list(agf)
    model = {"type": "AGF", "dsap": 0, "ssap": 0, "pdus": models}
    check_object(agf, norm(model), "AGF as built (%s)" % case["how"])
    changed = False
    for i, attr, val in case["ops"]:
        before = dict(models[i])
        _assign(objs[i], models[i], attr, val)
        models[i] = norm(models[i])
        changed = changed or models[i] != before
        want = norm({"type": "AGF", "dsap": 0, "ssap": 0, "pdus": models})
        if any(None in (m.get("ns", 0), m.get("nr", 0)) for m in models):
            continue
        check_object(agf, want, "AGF (%s) after member %d (%s) %s=%r"
                     % (case["how"], i, models[i]["type"], attr, val))
    if changed:
        ctx.nontrivial()


# mutation based byte strings ------------------------------------------------
def _mutations():
    return st.lists(st.tuples(st.sampled_from(
        ["trunc", "extend", "setbyte", "flip", "dup", "tlvlen"]),
        st.integers(0, 4000), byte), max_size=4)


def mutate(b, muts):
    b = bytearray(b)
    for kind, pos, val in muts:
        if kind == "trunc" and b:
            del b[pos % (len(b) + 1):]
        elif kind == "extend":
            b += bytes([val]) * (1 + pos % 5)
        elif kind == "setbyte" and b:
            b[pos % len(b)] = val
        elif kind == "flip" and b:
            b[pos % len(b)] ^= 1 << (val & 7)
        elif kind == "dup" and b:
            i = pos % len(b)
            b[i:i] = b[i:i + 1 + (val & 7)]
        elif kind == "tlvlen" and len(b) > 3:
            b[3] = val
    return bytes(b)


@st.composite
def mutated(draw):
    s = draw(any_pdu())
    return mutate(ref.encode(norm(s)), draw(_mutations()))


@st.composite
def agf_cut_member(draw):
    """a well-formed AGF in which exactly one member, not the last, is cut
    short (its length field and its bytes end inside the PDU's header,
    sequence field or TLVs); every PDU type, emphasis on the numbered ones"""
    numbered = st.one_of(
        fixed("RNR", nr=nib, dsap=sap, ssap=sap),
        fixed("RR", nr=nib, dsap=sap, ssap=sap),
        fixed("I", ns=nib, nr=nib, data=payload(6), dsap=sap, ssap=sap),
        fixed("DM", reason=byte, dsap=sap, ssap=sap),
        fixed("FRMR", flags=nib, ptype=nib, ns=nib, nr=nib, vs=nib, vr=nib,
              vsa=nib, vra=nib, dsap=sap, ssap=sap))
    n = draw(st.integers(2, 5))
    at = draw(st.integers(0, n - 2))
    out = b"\x00\x80"
    for i in range(n):
        if i == at:
            raw = ref.encode(norm(draw(st.one_of(numbered, numbered,
                                                 simple_pdu(12)))))
            raw = raw[:draw(st.integers(2, max(2, len(raw) - 1)))]
        else:
            spec = draw(simple_pdu(20))
            if spec["type"] == "AGF":
                spec = {"type": "SYMM", "dsap": 0, "ssap": 0}
            raw = ref.encode(norm(spec))
        out += struct.pack(">H", len(raw)) + raw
    return out


@st.composite
def agf_construct(draw):
    """AGF frames assembled from raw sub-PDU strings whose length fields are
    true, too short or too long, with parameter TLVs near the sub-PDU end"""
    parts = []
    for _ in range(draw(st.integers(1, 6))):
        kind = draw(st.sampled_from(["pdu", "pdu", "tlvtail", "raw", "agf",
                                     "cut", "cut"]))
        if kind == "pdu":
            raw = ref.encode(norm(draw(simple_pdu(40))))
        elif kind == "cut":
            # a member that ends inside its header or sequence field: the
            # length field says 2 (or less than the PDU needs) while more
            # members follow
            raw = ref.encode(norm(draw(st.one_of(
                fixed("RNR", nr=nib, dsap=sap, ssap=sap),
                fixed("RR", nr=nib, dsap=sap, ssap=sap),
                fixed("I", ns=nib, nr=nib, data=payload(6), dsap=sap,
                      ssap=sap),
                fixed("DM", reason=byte, dsap=sap, ssap=sap),
                fixed("FRMR", flags=nib, ptype=nib, ns=nib, nr=nib, vs=nib,
                      vr=nib, vsa=nib, vra=nib, dsap=sap, ssap=sap),
                simple_pdu(12)))))
            k = draw(st.integers(2, max(2, len(raw) - 1)))
            if draw(st.booleans()):
                raw = raw[:k]           # physically cut
            parts.append(struct.pack(">H", k) + raw)
            continue
        elif kind == "tlvtail":
            # parameter PDU whose last TLV announces more than it carries
            head = draw(st.sampled_from([b"\x00\x40", b"\x11\x20", b"\x05\xa0",
                                         b"\x06\x41", b"\x02\x80", b"\x81\x84",
                                         b"\x45\x01", b"\x46\x41"]))
            t = draw(st.integers(1, 12))
            ln = draw(st.integers(0, 12))
            have = draw(st.integers(0, ln))
            raw = head + bytes([t, ln]) + draw(st.binary(min_size=have,
                                                         max_size=have))
        elif kind == "agf":
            inner = ref.encode(norm(draw(simple_pdu(8))))
            raw = b"\x00\x80" + struct.pack(">H", len(inner)) + inner
        else:
            raw = draw(st.binary(max_size=12))
        ln = len(raw) + draw(st.sampled_from([0, 0, 0, 0, -1, 1, 2, -2, 5]))
        parts.append(struct.pack(">H", max(0, ln)) + raw)
    tail = draw(st.sampled_from([b"", b"", b"\x00", b"\x00\x02"]))
    return b"\x00\x80" + b"".join(parts) + tail


@st.composite
def agf_overrun(draw):
    """an aggregated parameter PDU whose last TLV announces more bytes than
    the PDU has left, followed by enough well-formed PDUs to read from"""
    def good():
        return ref.encode(norm(draw(simple_pdu(24))))
    parts = [good() for _ in range(draw(st.integers(0, 2)))]
    head = draw(st.sampled_from([b"\x00\x40", b"\x11\x20", b"\x05\xa0",
                                 b"\x06\x41", b"\x02\x80", b"\x81\x84"]))
    t = draw(st.sampled_from([0, 6, 10, 11, 12, 200, 8, 2, 5]))
    ln = draw(st.integers(1, 9))
    have = draw(st.integers(0, ln - 1))
    parts.append(head + bytes([t, ln]) + draw(st.binary(min_size=have,
                                                        max_size=have)))
    parts += [good() for _ in range(draw(st.integers(1, 3)))]
    return b"\x00\x80" + b"".join(struct.pack(">H", len(p)) + p
                                  for p in parts)


@st.composite
def reserved_bits(draw):
    """parameter PDUs whose MIUX / RW / OPT values have reserved bits set"""
    head = draw(st.sampled_from([b"\x00\x40", b"\x11\x20", b"\x41\x90"]))
    tlvs = b""
    for _ in range(draw(st.integers(1, 3))):
        t = draw(st.sampled_from([2, 5, 7]))
        if t == 2:
            tlvs += b"\x02\x02" + struct.pack(">H", draw(st.integers(0, 65535)))
        else:
            tlvs += bytes([t, 1, draw(st.integers(0, 255))])
    return head + tlvs


@st.composite
def nested_agf(draw):
    depth = draw(st.one_of(st.integers(1, 8), st.integers(1, 540)))
    inner = draw(st.sampled_from([b"\x00\x00", b"\x0c\xc1", b"\x00\x80",
                                  b"\x04\x20\x01"]))
    b = inner
    for _ in range(depth):
        b = b"\x00\x80" + struct.pack(">H", len(b)) + b
    return b


def gen_bytes(tier):
    return st.one_of(mutated(), mutated(), agf_construct(), agf_construct(),
                     agf_overrun(), nested_agf(), reserved_bits(),
                     agf_cut_member(), st.binary(max_size=64),
                     st.binary(max_size=2200))


# exhaustive legs --------------------------------------------------------
def bulk_short(tier, seed, i, n, acct):
    maxlen = 2 if tier == "quick" else 3
    ev = nt = 0
    labels = {}
    samples = []
    idx = 0
    for ln in range(0, maxlen + 1):
        for tup in itertools.product(range(256), repeat=ln):
            idx += 1
            if idx % n != i:
                continue
            b = bytes(tup)
            try:
                lab = check_bytes(b)
            except Violation as v:
                v.case = b
                raise
            ev += 1
            labels[lab] = labels.get(lab, 0) + 1
            if lab != "both-reject":
                nt += 1
                if len(samples) < 3 and ln == maxlen and tup[-1] == 0x41:
                    samples.append({"bytes": b, "verdict": lab})
    acct.bulk(ev, nt, labels, samples)


TAILS = [b"", b"\x00", b"\x02\x02\x00\x10", b"\x05\x01", b"\x06\x05abc",
         b"\x00\x02\x00\x00", b"\x00\x04\x00\x80\x00\x02", b"\x01\x02\x03\x04"]


def bulk_headers(tier, seed, i, n, acct):
    ev = nt = 0
    labels = {}
    samples = []
    for h in range(65536):
        if h % n != i:
            continue
        hb = struct.pack(">H", h)
        for t in TAILS:
            b = hb + t
            try:
                lab = check_bytes(b)
            except Violation as v:
                v.case = b
                raise
            ev += 1
            labels[lab] = labels.get(lab, 0) + 1
            if lab != "both-reject":
                nt += 1
                if len(samples) < 3 and h % 9973 == 0:
                    samples.append({"bytes": b, "verdict": lab})
    acct.bulk(ev, nt, labels, samples)


# boundary lengths ---------------------------------------------------------
# Every variable-length field of the PDU formats, with the largest length the
# format can carry for it (LLCP 1.3 ch.4): the SN, ECPK and RN values fill a
# TLV whose length is one octet (255); the SDREQ value holds the TID and the
# name (254 name bytes); the information field of UI, I and of PDU types this
# implementation does not know is bounded by the largest MIU (128 + 7FFh).
# None = the format has no bound of its own inside the quantifier's range.
INFO_MAX = 128 + 0x7FF
VARFIELDS = {"CONNECT": {"sn": TLV_MAX}, "DPS": {"ecpk": TLV_MAX,
                                                 "rn": TLV_MAX},
             "SNL": {"name": TLV_MAX - 1}, "UI": {"data": None},
             "I": {"data": None}, "U11": {"payload": None}}
FILLS = ("inc", "ff", "00", "tlv")
OBJ_WRAPS = ("alone", "agf-only", "agf-first", "agf-last", "agf-twice")
TLV_WRAPS = ("alone", "agf-first", "agf-last")
TLV_TAILS = ("cut", "exact", "pad1", "post")


def _edge(maxlen, beyond=True):
    """0, 1, 2, the octet boundary, max-2 .. max (and max+1, max+2)"""
    e = {0, 1, 2, 127, 128, maxlen - 2, maxlen - 1, maxlen}
    if beyond:
        e |= {maxlen + 1, maxlen + 2}
    return sorted(e)


def fill_bytes(n, fill, salt=0):
    if fill == "inc":       # every position distinct from its neighbours
        return bytes((i + salt) & 0xFF for i in range(n))
    if fill == "ff":
        return b"\xff" * n
    if fill == "00":
        return b"\x00" * n
    # a value that reads like a run of maximal TLVs and sub-PDU lengths
    return (b"\x06\xff\x0a\xff\x0b\xff\x08\xff\x00\x02" * (n // 10 + 1))[:n]


def enum_bounds(tier, seed):
    edge = _edge(TLV_MAX)
    for wrap in OBJ_WRAPS:
        for fill in FILLS:
            # CONNECT: SN after no / one / two other TLVs
            for n in edge:
                for miu, rw in ((128, 1), (2175, 0), (129, 15), (128, 2)):
                    yield {"k": "obj", "type": "CONNECT", "f": {"sn": n},
                           "miu": miu, "rw": rw, "fill": fill, "wrap": wrap}
            # DPS: ECPK x RN, each absent or at a boundary
            short = [None, 0, 1, 64, 254, 255, 256]
            for a in short:
                for b in short:
                    yield {"k": "obj", "type": "DPS", "f": {"ecpk": a, "rn": b},
                           "fill": fill, "wrap": wrap}
            # SNL: one or two SDREQ names at a boundary, SDRES behind them
            for n in _edge(TLV_MAX - 1):
                shapes = [[n], [n, n], [n, 3]]
                if n != TLV_MAX - 1:
                    shapes.append([TLV_MAX - 1, n])
                for names in shapes:
                    for res in (0, 2):
                        yield {"k": "obj", "type": "SNL",
                               "f": {"names": names, "sdres": res},
                               "fill": fill, "wrap": wrap}
            # information fields: octet boundaries and the largest MIU
            for t, key in (("UI", "data"), ("I", "data"), ("U11", "payload")):
                for n in _edge(INFO_MAX, beyond=False) + [255, 256, 257]:
                    yield {"k": "obj", "type": t, "f": {key: n}, "fill": fill,
                           "wrap": wrap}
    # bytes: every TLV type in every parameter PDU with L at the boundaries
    for wrap in TLV_WRAPS:
        for head in ("PAX", "CONNECT", "CC", "SNL", "DPS"):
            for t in list(range(0, 13)) + [200, 255]:
                for ln in (0, 1, 2, 3, 127, 128, 253, 254, 255):
                    for tail in TLV_TAILS:
                        if tail == "cut" and ln == 0:
                            continue
                        for pre in (False, True):
                            for fill in (FILLS if ln >= 253 else FILLS[:1]):
                                yield {"k": "tlv", "head": head, "t": t,
                                       "l": ln, "tail": tail, "pre": pre,
                                       "fill": fill, "wrap": wrap}


def bounds_spec(case):
    """(spec dict, fits): the PDU a boundary case describes and whether every
    variable-length field is within what the format can carry"""
    t, f, fill = case["type"], case["f"], case["fill"]
    fits = True
    if t == "CONNECT":
        s = {"type": t, "dsap": 4, "ssap": 32, "miu": case["miu"],
             "rw": case["rw"], "sn": fill_bytes(f["sn"], fill)}
        fits = f["sn"] <= VARFIELDS[t]["sn"]
    elif t == "DPS":
        s = {"type": t, "dsap": 0, "ssap": 0}
        for i, k in enumerate(("ecpk", "rn")):
            s[k] = None if f[k] is None else fill_bytes(f[k], fill, 7 * i)
            fits = fits and (f[k] or 0) <= VARFIELDS[t][k]
    elif t == "SNL":
        s = {"type": t, "dsap": 1, "ssap": 1,
             "sdreq": [[(255 - i) & 0xFF, fill_bytes(n, fill, i)]
                       for i, n in enumerate(f["names"])],
             "sdres": [[i, 63 - i] for i in range(f["sdres"])]}
        fits = all(n <= VARFIELDS[t]["name"] for n in f["names"])
    elif t == "I":
        s = {"type": t, "dsap": 63, "ssap": 1, "ns": 15, "nr": 0,
             "data": fill_bytes(f["data"], fill)}
    else:
        key = "data" if t == "UI" else "payload"
        s = {"type": t, "dsap": 32, "ssap": 63, key: fill_bytes(f[key], fill)}
    return s, fits


_SYMM = {"type": "SYMM", "dsap": 0, "ssap": 0}
_RR = {"type": "RR", "dsap": 2, "ssap": 33, "nr": 9}
_INFO = {"type": "I", "dsap": 2, "ssap": 33, "ns": 1, "nr": 2, "data": b"ab"}


def _wrap_spec(s, wrap):
    if wrap == "alone":
        return s
    members = {"agf-only": [s], "agf-first": [s, _RR, _SYMM],
               "agf-last": [_INFO, s], "agf-twice": [s, s]}[wrap]
    return {"type": "AGF", "dsap": 0, "ssap": 0, "pdus": members}


_TLV_HEAD = {"PAX": (0, 0), "CONNECT": (4, 32), "CC": (1, 32), "SNL": (1, 1),
             "DPS": (0, 0)}
# a well-formed parameter of each PDU type, put before / behind the TLV under
# test so that it is met as first, middle and last parameter
_TLV_OWN = {"PAX": b"\x01\x01\x13", "CONNECT": b"\x02\x02\x00\x10",
            "CC": b"\x05\x01\x03", "SNL": b"\x09\x02\x01\x10",
            "DPS": b"\x0b\x02\xaa\x55"}


def bounds_frame(case):
    """the octets of a parameter PDU that carries a TLV with the stated T and
    L whose value is cut one byte short, exact, followed by one stray byte or
    followed by another parameter; alone or as a member of an AGF"""
    d, a = _TLV_HEAD[case["head"]]
    ln, tail = case["l"], case["tail"]
    raw = struct.pack(">H", d << 10 | ref.PCODE[case["head"]] << 6 | a)
    if case["pre"]:
        raw += _TLV_OWN[case["head"]]
    have = ln - 1 if tail == "cut" else ln
    raw += bytes([case["t"], ln]) + fill_bytes(have, case["fill"], 1)
    if tail == "pad1":
        raw += b"\x06"
    elif tail == "post":
        raw += _TLV_OWN[case["head"]]
    if case["wrap"] == "alone":
        return raw
    # the AGF length fields are true: a member that is cut short is followed
    # by members whose bytes a TLV reader without a bound would take
    bulk = ref.encode({"type": "UI", "dsap": 5, "ssap": 6,
                       "data": b"\x41" * 300})
    members = ([raw, ref.encode(_SYMM), bulk] if case["wrap"] == "agf-first"
               else [ref.encode(_RR), raw])
    return b"\x00\x80" + b"".join(struct.pack(">H", len(m)) + m
                                  for m in members)


def run_bounds(case, ctx):
    if case["k"] == "tlv":
        ctx.set_class("tlv/%s/T=%d" % (case["head"], case["t"]))
        b = bounds_frame(case)
        lab = check_bytes(b, ctx)
        ctx.label("tlv:" + lab, "tlv-L=%d" % case["l"], "tail:" + case["tail"])
        if lab != "both-reject":
            ctx.nontrivial()
            try:
                canonical = ref.encode(ref.decode(b)) == b
            except ValueError:
                canonical = False
            if canonical:
                # not judged (an encoder may order its TLVs as it likes), but
                # shows how often decode -> encode gives the octets back
                ctx.label("canonical-frame:octets-" + (
                    "reproduced" if pdu.encode(pdu.decode(b)) == b
                    else "differ"))
        return
    s, fits = bounds_spec(case)
    t = case["type"]
    ctx.set_class("%s/%s" % (t, "fits" if fits else "oversize"))
    ctx.label("type:" + t, "wrap:" + case["wrap"])
    lens = [n for v in case["f"].values()
            for n in (v if isinstance(v, list) else [v]) if n is not None]
    limit = [m for m in VARFIELDS[t].values()][0] or INFO_MAX
    if any(n >= limit - 1 for n in lens):
        ctx.nontrivial()
    spec = _wrap_spec(s, case["wrap"])
    p = build(spec)
    if not fits:
        # a value that does not fit the one-octet TLV length has no encoding;
        # Parameter.encode refuses it with EncodeError (tests/test_llcp_pdu.py
        # test_encode_fail), and so do the PDU and the AGF that carry it
        try:
            e = pdu.encode(p)
        except pdu.EncodeError:
            ctx.label("oversize-refused")
            return
        raise Violation("encodes-oversize", "%r -> %d bytes %s.."
                        % (case, len(e), e.hex()[:80]))
    want = norm(spec)
    e = check_object(p, want, repr(case))
    ctx.label("fits-roundtrip")
    # the same octets, read as a received frame
    ctx.label("bytes:" + check_bytes(e, ctx))
    ctx.label("octets-" + ("as-reference" if e == ref.encode(want)
                           else "differ-from-reference"))
    ctx.note({"len": len(e), "head": e[:8]})


# anchors: literal encodings that appear in tests/test_llcp_pdu.py -------------
VECTORS = [
    ("0000", {"type": "SYMM", "dsap": 0, "ssap": 0}),
    ("004001015A", {"type": "PAX", "dsap": 0, "ssap": 0, "version": 0x5A,
                    "miux": None, "wks": None, "lto": None, "opt": None}),
    ("0040020207FF", {"type": "PAX", "dsap": 0, "ssap": 0, "version": None,
                      "miux": 0x7FF, "wks": None, "lto": None, "opt": None}),
    ("00400302A55A", {"type": "PAX", "dsap": 0, "ssap": 0, "version": None,
                      "miux": None, "wks": 0xA55A, "lto": None, "opt": None}),
    ("0040040120", {"type": "PAX", "dsap": 0, "ssap": 0, "version": None,
                    "miux": None, "wks": None, "lto": 0x20, "opt": None}),
    ("0040070102", {"type": "PAX", "dsap": 0, "ssap": 0, "version": None,
                    "miux": None, "wks": None, "lto": None, "opt": 2}),
    ("00800002000000020000", {"type": "AGF", "dsap": 0, "ssap": 0, "pdus": [
        {"type": "SYMM", "dsap": 0, "ssap": 0},
        {"type": "SYMM", "dsap": 0, "ssap": 0}]}),
    ("80C1414243", {"type": "UI", "dsap": 32, "ssap": 1, "data": b"ABC"}),
    ("810102020367", {"type": "CONNECT", "dsap": 32, "ssap": 1, "miu": 999,
                      "rw": 1, "sn": None}),
    ("0100050102", {"type": "CONNECT", "dsap": 0, "ssap": 0, "miu": 128,
                    "rw": 2, "sn": None}),
    ("01000603414243", {"type": "CONNECT", "dsap": 0, "ssap": 0, "miu": 128,
                        "rw": 1, "sn": b"ABC"}),
    ("020012345678", {"type": "FRMR", "dsap": 0, "ssap": 0, "flags": 1,
                      "ptype": 2, "ns": 3, "nr": 4, "vs": 5, "vr": 6,
                      "vsa": 7, "vra": 8}),
    ("06410802014109020211", {"type": "SNL", "dsap": 1, "ssap": 1,
                              "sdreq": [[1, b"A"]], "sdres": [[2, 0x11]]}),
    ("02800A0241420B024344", {"type": "DPS", "dsap": 0, "ssap": 0,
                              "ecpk": b"AB", "rn": b"CD"}),
    ("830196", {"type": "I", "dsap": 32, "ssap": 1, "ns": 9, "nr": 6,
                "data": b""}),
    ("830100414243", {"type": "I", "dsap": 32, "ssap": 1, "ns": 0, "nr": 0,
                      "data": b"ABC"}),
    # strings the tests require to be rejected / tolerated (no anchor value)
    ("0080000200", None), ("008000", None), ("8201000000", None),
    ("81010501F9", None), ("8101000006024142", None), ("028000000A000B00", None),
    ("06410000080201410000", None),
]


def enum_vectors(tier, seed):
    for hx, want in VECTORS:
        yield {"hex": hx.replace(" ", ""), "want": want}


def run_vector(case, ctx):
    b = bytes.fromhex(case["hex"])
    want = case["want"]
    ctx.nontrivial()
    try:
        r = ref.decode(b)
    except ref.RefReject:
        r = None
    if want is not None:
        want = norm(want)
        if r != want:
            from vlib.engine import HarnessError
            raise HarnessError("reference decoder off its anchor: %s -> %r"
                               % (case["hex"], r))
        if ref.encode(want) != b:
            from vlib.engine import HarnessError
            raise HarnessError("reference encoder off its anchor: %s"
                               % case["hex"])
    ctx.label(check_bytes(b, ctx))


# atheris ----------------------------------------------------------------
def bulk_fuzz(tier, seed, i, n, acct):
    from vlib import fuzz
    runs = 120000 if tier == "quick" else 1500000
    seeds = [ref.encode(norm(q)) for q in (
        {"type": "CONNECT", "dsap": 1, "ssap": 32, "miu": 1000, "rw": 3,
         "sn": b"urn:nfc:sn:snep"},
        {"type": "SNL", "dsap": 1, "ssap": 1, "sdreq": [[1, b"urn:nfc:sn:x"]],
         "sdres": [[1, 16]]},
        {"type": "AGF", "dsap": 0, "ssap": 0, "pdus": [
            {"type": "I", "dsap": 4, "ssap": 32, "ns": 1, "nr": 2,
             "data": b"abc"},
            {"type": "CC", "dsap": 4, "ssap": 32, "miu": 200, "rw": 2}]},
        {"type": "PAX", "dsap": 0, "ssap": 0, "version": 0x13, "miux": 120,
         "wks": 3, "lto": 50, "opt": 3})]
    res = fuzz.campaign("props.c11", "fuzz_one", runs=runs,
                        seed=seed * 1000 + i, corpus=seeds if i % 2 else [],
                        max_len=2200, include=["nfc.llcp.pdu"])
    if res["crash"] is not None:
        b = res["crash"]
        try:
            check_bytes(b)
        except Violation as v:
            v.case = b
            raise
        from vlib.engine import HarnessError
        raise HarnessError("atheris reported a crash that does not reproduce: "
                           + b.hex()[:200] + "\n" + res["log"][-2000:])
    acct.bulk(res["execs"], res["features"], {"atheris-execs": res["execs"],
                                             "corpus-seeded" if i % 2 else
                                             "corpus-empty": 1},
              [{"corpus_entry": c} for c in res["samples"]])


def fuzz_one(data):
    check_bytes(bytes(data))


LEGS = [
    Leg("vectors", run=run_vector, enum=enum_vectors, exhaustive=True,
        rule="literal encodings from tests/test_llcp_pdu.py replayed through "
             "reference and library (anchor of the reference model)."),
    Leg("roundtrip", run=run_roundtrip, gen=lambda tier: any_pdu(),
        quick=3000, thorough=200000, shards_quick=4, shards_thorough=16,
        nt_floor=0.4,
        rule="structured PDUs from per-type strategies over the full valid "
             "field ranges (RW 0..15, MIU 128..2175, SAP 0..63, names <=255 B, "
             "AGF of up to 20 PDUs); non-trivial = carries an optional TLV, a "
             "payload or sequence/reason fields; distinct by case hash."),
    Leg("agf-members", run=run_agf_members,
        gen=lambda tier: agf_member_case(), quick=1500, thorough=40000,
        shards_quick=4, shards_thorough=16, nt_floor=0.3,
        rule="an aggregate of 1..4 PDUs (UI, I, CONNECT, CC, SNL, DM, RR) "
             "built through the constructor list, append() or decode(); then "
             "1..4 attribute assignments on MEMBER objects it holds; after "
             "each the aggregate's length, encoding and round trip are those "
             "of the members' present values (reference encoding); "
             "non-trivial = an assignment changed a member's value."),
    Leg("setters", run=run_setters, gen=lambda tier: setter_case(),
        quick=3000, thorough=150000, shards_quick=4, shards_thorough=16,
        nt_floor=0.4,
        rule="one PDU object per case, made by its constructor (field values "
             "from the roundtrip strategies), by the constructor with the "
             "mandatory arguments only, or by decode(); then 1..6 attribute "
             "assignments in generated order through the public attributes "
             "(PAX version/miu/wks/lto/lsc/dpc, CONNECT/CC miu/rw/sn, SNL "
             "sdreq/sdres assignment and append, FRMR fields, I/RR/RNR "
             "ns/nr/data, DM reason, DPS ecpk/rn, AGF append, dsap/ssap); "
             "after EVERY assignment the structured oracle (encode, len, "
             "reference decode, decode) against a model dict of the intended "
             "values, PAX getters read back; non-trivial = at least two "
             "assignments and the intended values differ from the initial "
             "ones."),
    Leg("bytes", run=run_bytes, gen=gen_bytes, quick=3000, thorough=200000,
        shards_quick=4, shards_thorough=16, nt_floor=0.2,
        rule="mutations of reference encodings, AGF frames built from raw "
             "sub-PDUs with true/short/long length fields and TLVs at the "
             "sub-PDU edge, nested AGF to depth 540, random strings <=2200 B; "
             "non-trivial = accepted by library or reference."),
    Leg("short", bulk=bulk_short, exhaustive=True, shards_quick=2,
        shards_thorough=16,
        rule="every byte string of length <=2 (quick) / <=3 (thorough); "
             "non-trivial = accepted by library or reference (all distinct by "
             "construction)."),
    Leg("headers", bulk=bulk_headers, exhaustive=True, shards_quick=4,
        shards_thorough=8,
        rule="all 65536 two-byte headers x %d tail shapes." % len(TAILS)),
    Leg("bounds", run=run_bounds, enum=enum_bounds, exhaustive=True,
        shards_quick=4, shards_thorough=8,
        rule="bounded-exhaustive boundary lengths. Objects: CONNECT sn, DPS "
             "ecpk x rn, SNL sdreq names (one or two, with/without SDRES), "
             "UI/I/unknown-type information field, each length in {0, 1, 2, "
             "127, 128, max-2, max-1, max, max+1, max+2} (max = 255 for "
             "SN/ECPK/RN, 254 for the SDREQ name, 2175 = largest MIU for "
             "information fields, which have no max+1 case) x 4 fill patterns "
             "x {alone, only/first/last/twice member of an AGF}; a PDU whose "
             "fields fit goes through the structured oracle (encode, len, "
             "reference decode, decode) and its octets through the byte-string "
             "oracle, a PDU with an oversize TLV value must be refused with "
             "EncodeError. Bytes: parameter PDUs PAX/CONNECT/CC/SNL/DPS "
             "carrying a TLV of type 0..12, 200, 255 with L in {0, 1, 2, 3, "
             "127, 128, 253, 254, 255} whose value is one byte short, exact, "
             "followed by a stray byte or by another parameter, as first or "
             "second parameter, alone or as first/last member of an AGF with "
             "true length fields, through the byte-string oracle "
             "(differential against the reference, re-encode, re-decode). "
             "non-trivial = object case with a field at max-1 or longer; byte "
             "case accepted by library or reference."),
    Leg("fuzz", bulk=bulk_fuzz, shards_quick=2, shards_thorough=8,
        rule="atheris/libFuzzer on decode with the same oracle inside the "
             "target, empty corpus and seeded corpus shards; non-trivial "
             "count = coverage features reported by libFuzzer."),
]

# the same searches with every nfc logger enabled down to the lowest level
# (code that only runs, or only evaluates its arguments, when logging is on)
_byl = dict((lg.name, lg) for lg in LEGS)
LEGS += [twin_env(_byl[n], "log", {"VERIF_LOG": "debug"}, quick=q, thorough=t,
                  shards_quick=2)
         for n, q, t in [('roundtrip', 1500, 15000)] if n in _byl]
